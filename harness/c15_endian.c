/* C15 - endian codecs place and fetch every value byte-exactly.
 *
 * Oracle: plain shift/mask serialisation written here; canary buffer for the
 * neighbours at alignments 0..7, exact-size poisoned-arena object for
 * over-read/over-write detection by ASan. */
#include "common/vh.h"

#include <stdbool.h>
#include <ufw/binary-format.h>

const char *harness_name = "c15_endian";

typedef uint64_t (*ref_fn)(const void *);
typedef void *(*set_fn)(void *, uint64_t);

#define WRAP_INT(W, UT, ST, O)                                                                        \
    static uint64_t r_u##W##O(const void *p) { return (uint64_t)bf_ref_u##W##O(p); }                  \
    static void *s_u##W##O(void *p, uint64_t v) { return bf_set_u##W##O(p, (UT)v); }                  \
    static uint64_t r_s##W##O(const void *p) { return (uint64_t)(int64_t)bf_ref_s##W##O(p); }         \
    static void *s_s##W##O(void *p, uint64_t v) { return bf_set_s##W##O(p, (ST)(int64_t)v); }

#define WRAP_W(W, UT, ST) WRAP_INT(W, UT, ST, n) WRAP_INT(W, UT, ST, b) WRAP_INT(W, UT, ST, l)

WRAP_W(16, uint16_t, int16_t)
WRAP_W(24, uint32_t, int32_t)
WRAP_W(32, uint32_t, int32_t)
WRAP_W(40, uint64_t, int64_t)
WRAP_W(48, uint64_t, int64_t)
WRAP_W(56, uint64_t, int64_t)
WRAP_W(64, uint64_t, int64_t)

#define WRAP_F(W, FT, UT, O)                                                                         \
    static uint64_t r_f##W##O(const void *p)                                                         \
    {                                                                                                \
        FT f = bf_ref_f##W##O(p);                                                                    \
        UT u;                                                                                        \
        memcpy(&u, &f, sizeof u);                                                                    \
        return u;                                                                                    \
    }                                                                                                \
    static void *s_f##W##O(void *p, uint64_t v)                                                      \
    {                                                                                                \
        UT u = (UT)v;                                                                                \
        FT f;                                                                                        \
        memcpy(&f, &u, sizeof f);                                                                    \
        return bf_set_f##W##O(p, f);                                                                 \
    }
WRAP_F(32, float, uint32_t, n) WRAP_F(32, float, uint32_t, b) WRAP_F(32, float, uint32_t, l)
WRAP_F(64, double, uint64_t, n) WRAP_F(64, double, uint64_t, b) WRAP_F(64, double, uint64_t, l)

struct codec {
    const char *name;
    int width;
    char order; /* n b l */
    char kind;  /* u s f */
    ref_fn ref;
    set_fn set;
};

#define ENT(K, W, O) { #K #W #O, W, #O[0], #K[0], r_##K##W##O, s_##K##W##O }
#define ENT3(K, W) ENT(K, W, n), ENT(K, W, b), ENT(K, W, l)
static const struct codec codecs[] = {
    ENT3(u, 16), ENT3(s, 16), ENT3(u, 24), ENT3(s, 24), ENT3(u, 32), ENT3(s, 32), ENT3(u, 40), ENT3(s, 40),
    ENT3(u, 48), ENT3(s, 48), ENT3(u, 56), ENT3(s, 56), ENT3(u, 64), ENT3(s, 64), ENT3(f, 32), ENT3(f, 64),
};
#define NCODECS (sizeof codecs / sizeof codecs[0])

static inline uint64_t
wmask(int w)
{
    return w == 64 ? ~0ull : ((1ull << w) - 1);
}

/* value as the API takes/returns it for bit pattern `bits` (low w bits) */
static inline uint64_t
api_value(const struct codec *c, uint64_t bits)
{
    if (c->kind == 's' && c->width < 64 && (bits >> (c->width - 1)) & 1u)
        return bits | ~wmask(c->width);
    return bits;
}

static unsigned char *exact[9]; /* exact-size arena objects per octet count */

static void
one(const struct codec *c, uint64_t bits, unsigned align)
{
    const int n = c->width / 8;
    bits &= wmask(c->width);
    uint64_t v = api_value(c, bits);
    static unsigned char tmpl[24];
    static int have_tmpl;
    unsigned char buf[24], exp[24];
    if (!have_tmpl) {
        for (int i = 0; i < 24; i++)
            tmpl[i] = (unsigned char)(0xC3u ^ (unsigned)(i * 29));
        have_tmpl = 1;
    }
    memcpy(buf, tmpl, 24);
    memcpy(exp, tmpl, 24);
    for (int i = 0; i < n; i++) {
        int shift = (c->order == 'b') ? 8 * (n - 1 - i) : 8 * i;
        exp[align + (unsigned)i] = (unsigned char)(bits >> shift);
    }
    void *ret = c->set(buf + align, v);
    if (ret != buf + align + n)
        vh_fail("set-return", "part=set", "%s value=%016" PRIx64 " align=%u returned offset %td, expected %d", c->name,
                v, align, (unsigned char *)ret - (buf + align), n);
    if (memcmp(buf, exp, 24) != 0)
        vh_fail("set-octets", "part=set", "%s value=%016" PRIx64 " align=%u buffer=%s expected=%s", c->name, v, align,
                vh_hex(buf, 24), vh_hex(exp, 24));
    uint64_t got = c->ref(exp + align);
    if (got != v)
        vh_fail("ref-value", "part=ref", "%s octets=%s align=%u got=%016" PRIx64 " expected=%016" PRIx64, c->name,
                vh_hex(exp + align, (size_t)n), align, got, v);
    /* the unsigned setters of the odd widths take a wider container and do not check that the value fits (the header
     * says so, and the library's signed setters hand them sign-extended values): what gets stored is the value modulo
     * 2^width, whatever the container holds above it */
    if (c->kind == 'u' && (c->width == 24 || c->width == 40 || c->width == 48 || c->width == 56)) {
        const uint64_t above = (bits * 0x9e3779b97f4a7c15ull) | 1ull; /* mixed bits, never all zero */
        const uint64_t wide = bits | (above << c->width);
        memcpy(buf, tmpl, 24);
        ret = c->set(buf + align, wide);
        if (ret != buf + align + n || memcmp(buf, exp, 24) != 0)
            vh_fail("set-octets-wide-container", "part=set", "%s container=%016" PRIx64 " (value %016" PRIx64 " modulo 2^%d) align=%u buffer=%s expected=%s",
                    c->name, c->width == 24 ? (uint64_t)(uint32_t)wide : wide, bits, c->width, align, vh_hex(buf, 24), vh_hex(exp, 24));
    }
}

/* same on an exact-size object in the poisoned arena: any octet read or
 * written outside [p, p+n) aborts with an ASan report */
static void
one_exact(const struct codec *c, uint64_t bits)
{
    const int n = c->width / 8;
    bits &= wmask(c->width);
    uint64_t v = api_value(c, bits);
    unsigned char *p = exact[n];
    memset(p, 0x5a, (size_t)n);
    void *ret = c->set(p, v);
    uint64_t got = c->ref(p);
    if (got != v || ret != p + n)
        vh_fail("exact-roundtrip", "part=roundtrip", "%s value=%016" PRIx64 " got=%016" PRIx64, c->name, v, got);
}

struct job {
    int codec;
};

static uint64_t cases_local;

static void
run_value(const struct codec *c, uint64_t bits, unsigned *rot)
{
    one(c, bits, (*rot)++ & 7u);
    cases_local++;
}

/* ---- memory that is not an array of characters: 16-bit words (what the register table stores into), 32- and 64-bit
 * integers, floats and doubles as the caller's objects, written through the stores and read back through the caller's
 * own type in the same function, and the other way round. The library may not assume that its argument is anything
 * but octets: in an optimising build (the NDEBUG configuration is -O2) an access through the wrong effective type
 * lets the compiler reorder or drop one side. Called from every codec unit, so every slice has it. ---- */
#define PROBE_NOINLINE __attribute__((noinline))
static PROBE_NOINLINE void
probe_store_u32l(uint16_t *w, uint32_t value, uint16_t *out)
{
    w[0] = 0u;
    w[1] = 0u;
    bf_set_u32l(w, value);
    out[0] = w[0];
    out[1] = w[1];
}
static PROBE_NOINLINE void
probe_store_u32b(uint16_t *w, uint32_t value, uint16_t *out)
{
    w[0] = 0xffffu;
    w[1] = 0xffffu;
    bf_set_u32b(w, value);
    out[0] = w[0];
    out[1] = w[1];
}
static PROBE_NOINLINE void
probe_store_u16n(uint32_t *obj, uint16_t value, uint32_t *out)
{
    *obj = 0u;
    bf_set_u16n(obj, value);
    *out = *obj;
}
static PROBE_NOINLINE void
probe_store_s64l(uint16_t *w, int64_t value, uint16_t *out)
{
    for (unsigned i = 0; i < 4; i++)
        w[i] = 0u;
    bf_set_s64l(w, value);
    for (unsigned i = 0; i < 4; i++)
        out[i] = w[i];
}
static PROBE_NOINLINE void
probe_store_u64n(double *obj, uint64_t value, double *out)
{
    *obj = 1.0;
    bf_set_u64n(obj, value);
    *out = *obj;
}
static PROBE_NOINLINE void
probe_store_f32b(uint16_t *w, float value, uint16_t *out)
{
    w[0] = 0x1234u;
    w[1] = 0x5678u;
    bf_set_f32b(w, value);
    out[0] = w[0];
    out[1] = w[1];
}
static PROBE_NOINLINE uint32_t
probe_reload_u32l(uint16_t *w, uint16_t lo, uint16_t hi, uint32_t *first)
{
    *first = bf_ref_u32l(w);
    w[0] = lo;
    w[1] = hi;
    return bf_ref_u32l(w);
}
static PROBE_NOINLINE uint64_t
probe_reload_u64b(uint32_t *w, uint32_t a, uint32_t b, uint64_t *first)
{
    *first = bf_ref_u64b(w);
    w[0] = a;
    w[1] = b;
    return bf_ref_u64b(w);
}
static PROBE_NOINLINE uint16_t
probe_reload_u16n(float *obj, float nv, uint16_t *first)
{
    *first = bf_ref_u16n(obj);
    *obj = nv;
    return bf_ref_u16n(obj);
}

static void
typed_memory_probe(uint64_t salt)
{
    /* expectations are built from octets (memcpy), never through another type */
    unsigned char oct[8];
    uint16_t w[4], out[4], ew[4];
    const uint32_t v32 = 0x11223344u ^ (uint32_t)(salt * 0x01010101u);
    oct[0] = (unsigned char)v32, oct[1] = (unsigned char)(v32 >> 8), oct[2] = (unsigned char)(v32 >> 16), oct[3] = (unsigned char)(v32 >> 24);
    memcpy(ew, oct, 4);
    probe_store_u32l(w, v32, out);
    if (out[0] != ew[0] || out[1] != ew[1])
        vh_fail("typed-memory", "part=set", "bf_set_u32l(%08x) into uint16_t[2], read back as words: %04x %04x expected %04x %04x", v32, out[0], out[1], ew[0], ew[1]);
    unsigned char rev[4] = { oct[3], oct[2], oct[1], oct[0] };
    memcpy(ew, rev, 4);
    probe_store_u32b(w, v32, out);
    if (out[0] != ew[0] || out[1] != ew[1])
        vh_fail("typed-memory", "part=set", "bf_set_u32b(%08x) into uint16_t[2], read back as words: %04x %04x expected %04x %04x", v32, out[0], out[1], ew[0], ew[1]);
    {
        uint32_t obj, got, exp = 0;
        uint16_t v16 = (uint16_t)(0xbeef ^ salt);
        memcpy(&exp, &v16, 2);
        probe_store_u16n(&obj, v16, &got);
        if (got != exp)
            vh_fail("typed-memory", "part=set", "bf_set_u16n(%04x) into a uint32_t, read back: %08x expected %08x", v16, got, exp);
    }
    {
        const int64_t v64 = (int64_t)(0x8122334455667788ull ^ (salt << 8));
        for (int i = 0; i < 8; i++)
            oct[i] = (unsigned char)((uint64_t)v64 >> (8 * i));
        memcpy(ew, oct, 8);
        probe_store_s64l(w, v64, out);
        if (memcmp(out, ew, 8) != 0)
            vh_fail("typed-memory", "part=set", "bf_set_s64l(%016" PRIx64 ") into uint16_t[4], read back as words: %s expected %s", (uint64_t)v64,
                    vh_hex(out, 8), vh_hex(ew, 8));
        double obj, got, exp;
        const uint64_t dv = 0x400921fb54442d18ull ^ (salt & 0xff);
        memcpy(&exp, &dv, 8);
        probe_store_u64n(&obj, dv, &got);
        if (memcmp(&got, &exp, 8) != 0)
            vh_fail("typed-memory", "part=set", "bf_set_u64n(%016" PRIx64 ") into a double, read back: %s", dv, vh_hex(&got, 8));
    }
    {
        const float fv = 1.5f + (float)(salt & 7);
        uint32_t fb;
        memcpy(&fb, &fv, 4);
        unsigned char fo[4] = { (unsigned char)(fb >> 24), (unsigned char)(fb >> 16), (unsigned char)(fb >> 8), (unsigned char)fb };
        memcpy(ew, fo, 4);
        probe_store_f32b(w, fv, out);
        if (out[0] != ew[0] || out[1] != ew[1])
            vh_fail("typed-memory", "part=set", "bf_set_f32b(%g) into uint16_t[2], read back as words: %04x %04x expected %04x %04x", (double)fv, out[0], out[1], ew[0], ew[1]);
    }
    {
        /* loads: the caller rewrites its object through its own type between two loads */
        uint16_t lw[2] = { 0x1111, 0x2222 };
        uint32_t first = 0, second = probe_reload_u32l(lw, (uint16_t)(0x3344 ^ salt), 0x5566, &first);
        unsigned char a[4], b[4];
        uint16_t old[2] = { 0x1111, 0x2222 }, nw[2] = { (uint16_t)(0x3344 ^ salt), 0x5566 };
        memcpy(a, old, 4);
        memcpy(b, nw, 4);
        uint32_t e1 = (uint32_t)a[0] | (uint32_t)a[1] << 8 | (uint32_t)a[2] << 16 | (uint32_t)a[3] << 24;
        uint32_t e2 = (uint32_t)b[0] | (uint32_t)b[1] << 8 | (uint32_t)b[2] << 16 | (uint32_t)b[3] << 24;
        if (first != e1 || second != e2)
            vh_fail("typed-memory", "part=ref", "bf_ref_u32l on uint16_t[2] before/after the caller rewrote it: %08x %08x expected %08x %08x", first, second, e1, e2);
        uint32_t qw[2] = { 0x01020304u, 0x05060708u };
        uint64_t f64 = 0, s64 = probe_reload_u64b(qw, 0xa1a2a3a4u ^ (uint32_t)salt, 0xb1b2b3b4u, &f64);
        uint32_t oldq[2] = { 0x01020304u, 0x05060708u }, nq[2] = { 0xa1a2a3a4u ^ (uint32_t)salt, 0xb1b2b3b4u };
        unsigned char qa[8], qb[8];
        memcpy(qa, oldq, 8);
        memcpy(qb, nq, 8);
        uint64_t x1 = 0, x2 = 0;
        for (int i = 0; i < 8; i++) {
            x1 = x1 << 8 | qa[i];
            x2 = x2 << 8 | qb[i];
        }
        if (f64 != x1 || s64 != x2)
            vh_fail("typed-memory", "part=ref", "bf_ref_u64b on uint32_t[2] before/after the caller rewrote it: %016" PRIx64 " %016" PRIx64 " expected %016" PRIx64 " %016" PRIx64,
                    f64, s64, x1, x2);
        float fo = 2.5f;
        uint16_t h1 = 0, h2 = probe_reload_u16n(&fo, -7.25f - (float)(salt & 3), &h1), g1, g2;
        float f1 = 2.5f, f2 = -7.25f - (float)(salt & 3);
        memcpy(&g1, &f1, 2);
        memcpy(&g2, &f2, 2);
        if (h1 != g1 || h2 != g2)
            vh_fail("typed-memory", "part=ref", "bf_ref_u16n on a float before/after the caller rewrote it: %04x %04x expected %04x %04x", h1, h2, g1, g2);
    }
    VH_COUNT("stores and loads on caller objects that are not character arrays");
}

/* ---- data that lie across a page boundary, and data that touch the first or last octet of mapped memory. Two
 * mapped pages between two inaccessible ones: an access outside the datum at the outer edges faults in every
 * configuration (with or without a sanitizer), and a load or store that treats the part behind a page boundary
 * differently shows in the values. Called from every codec unit. ---- */
#include <sys/mman.h>
#include <unistd.h>

static void
page_probe(const struct codec *c, uint64_t idx)
{
    static unsigned char *pg;
    static size_t psz;
    if (pg == NULL) {
        psz = (size_t)sysconf(_SC_PAGESIZE);
        unsigned char *m = mmap(NULL, 4 * psz, PROT_NONE, MAP_PRIVATE | MAP_ANONYMOUS, -1, 0);
        if (m == MAP_FAILED || mprotect(m + psz, 2 * psz, PROT_READ | PROT_WRITE) != 0)
            vh_broken("cannot map four pages");
        pg = m + psz; /* two accessible pages */
    }
    const int n = c->width / 8;
    const uint64_t pats[] = { 0x0123456789abcdefull, 0xfedcba9876543210ull, ~0ull, 1ull << (c->width - 1), (1ull << (c->width - 1)) - 1,
                              0x8000000000000080ull, 0x00000000000000ffull, 0xff00ff00ff00ff00ull, idx * 0x9e3779b97f4a7c15ull + 1 };
    /* positions: first octet of the mapping, every straddle of the inner boundary (and its neighbours), last octets */
    for (int pos = -1; pos <= 2 * n + 2; pos++) {
        size_t off;
        if (pos == -1)
            off = 0;
        else if (pos == 2 * n + 2)
            off = 2 * psz - (size_t)n;
        else
            off = psz - (size_t)n - 1 + (size_t)pos;
        for (size_t k = 0; k < sizeof pats / sizeof pats[0]; k++) {
            uint64_t bits = pats[k] & wmask(c->width), v = api_value(c, bits);
            /* 12 octets around the datum, as far as they are mapped */
            size_t lo = off >= 12 ? off - 12 : 0, hi = off + (size_t)n + 12 <= 2 * psz ? off + (size_t)n + 12 : 2 * psz;
            unsigned char exp[40];
            for (size_t i = lo; i < hi; i++)
                pg[i] = exp[i - lo] = (unsigned char)(0x3Cu ^ (unsigned)(i * 37u));
            for (int i = 0; i < n; i++)
                exp[off - lo + (size_t)i] = (unsigned char)(bits >> ((c->order == 'b') ? 8 * (n - 1 - i) : 8 * i));
            void *ret = c->set(pg + off, v);
            if (ret != pg + off + n || memcmp(pg + lo, exp, hi - lo) != 0)
                vh_fail("set-octets-across-pages", "part=set", "%s value=%016" PRIx64 " at page offset %zu of two %zu-octet pages: memory %s expected %s (return offset %td)",
                        c->name, v, off, psz, vh_hex(pg + lo, hi - lo), vh_hex(exp, hi - lo), (unsigned char *)ret - (pg + off));
            memcpy(pg + lo, exp, hi - lo);
            uint64_t got = c->ref(pg + off);
            if (got != v)
                vh_fail("ref-value-across-pages", "part=ref", "%s octets=%s at page offset %zu of two %zu-octet pages: got=%016" PRIx64 " expected=%016" PRIx64,
                        c->name, vh_hex(pg + off, (size_t)n), off, psz, got, v);
            cases_local++;
        }
    }
    VH_COUNT("stores and loads across a page boundary and at the edges of mapped memory");
}

static void
u_codec(uint64_t idx, void *arg)
{
    typed_memory_probe(idx);
    const struct codec *c = &codecs[((struct job *)arg)->codec];
    const int w = c->width;
    vh_rng r;
    char gen[32];
    snprintf(gen, sizeof gen, "codec-%s", c->name);
    vh_unit_rng(&r, gen, idx);
    vh_case_tag(c->name);
    for (int n = 2; n <= 8; n++)
        exact[n] = vh_arena((size_t)n);
    unsigned rot = (unsigned)idx;
    cases_local = 0;
    page_probe(c, idx);

    if (w <= 24 || (w == 32 && vh_tier)) {
        /* full enumeration, chunked: 16 -> 1 chunk, 24 -> 16 chunks, 32 -> 4096 chunks */
        uint64_t total = 1ull << w;
        uint64_t nchunks = w == 16 ? 1 : (w == 24 ? 16 : 4096);
        uint64_t lo = total / nchunks * idx, hi = lo + total / nchunks;
        /* the secondary build configurations of the thorough tier stride through the 32-bit values */
        uint64_t step = (w == 32 && vh_light) ? 61 : 1;
        for (uint64_t b = lo + (step > 1 ? idx % step : 0); b < hi; b += step) {
            vh_cur[0] = b;
            run_value(c, b, &rot);
        }
        if (w == 16) /* every alignment for every value */
            for (uint64_t b = 0; b < total; b++)
                for (unsigned a = 0; a < 8; a++) {
                    vh_cur[0] = b;
                    vh_cur[1] = a;
                    one(c, b, a);
                    cases_local++;
                }
        for (uint64_t b = lo; b < hi; b += 4099) {
            one_exact(c, b);
            cases_local++;
        }
        vh_countf("enumerated chunk w=%d", w);
    } else if (w == 32) {
        /* quick: stride through 2^32: 16 chunks, ~1.3e6 values each */
        uint64_t lo = (1ull << 28) * idx;
        uint64_t off = vh_below(&r, 211);
        for (uint64_t b = lo + off; b < lo + (1ull << 28); b += 211) {
            vh_cur[0] = b;
            run_value(c, b, &rot);
        }
        vh_countf("strided chunk w=%d", w);
    }
    if (idx == 0) {
        /* structured values for every width: lanes x octet values, single
         * bits, pairs of bits, boundaries; all at every alignment */
        const int n = w / 8;
        for (int lane = 0; lane < n; lane++)
            for (unsigned o = 0; o < 256; o++)
                for (unsigned fill = 0; fill < 3; fill++) {
                    uint64_t base = fill == 0 ? 0 : fill == 1 ? wmask(w) : 0x0123456789abcdefull & wmask(w);
                    uint64_t b = (base & ~(0xffull << (8 * lane))) | ((uint64_t)o << (8 * lane));
                    for (unsigned a = 0; a < 8; a++) {
                        VH_SUB(0, b);
                        one(c, b, a);
                        cases_local++;
                    }
                    one_exact(c, b);
                }
        for (int i = 0; i < w; i++)
            for (int j = i; j < w; j++)
                for (unsigned a = 0; a < 8; a++) {
                    uint64_t b = (1ull << i) | (1ull << j);
                    VH_SUB(0, b);
                    one(c, b, a);
                    one(c, ~b, a);
                    cases_local += 2;
                }
        const uint64_t bnd[] = { 0, 1, 2, wmask(w), wmask(w) - 1, wmask(w) >> 1, (wmask(w) >> 1) + 1,
                                 (wmask(w) >> 1) + 2, (wmask(w) >> 1) - 1, 0x8000, 0x7fff, 0xffff, 0x10000,
                                 0x800000, 0x7fffff, 0xffffff, 0x1000000, 0x80000000ull, 0x7fffffffull,
                                 0xffffffffull, 0x100000000ull };
        for (size_t k = 0; k < sizeof bnd / sizeof bnd[0]; k++)
            for (unsigned a = 0; a < 8; a++) {
                one(c, bnd[k], a);
                cases_local++;
            }
        if (c->kind == 'f') {
            /* float classes as bit patterns incl. NaN payloads */
            static const uint32_t f32[] = { 0x00000000, 0x80000000, 0x00000001, 0x007fffff, 0x00800000, 0x7f7fffff,
                                            0x7f800000, 0xff800000, 0x7fc00000, 0x7fc00001, 0x7fa00000, 0x7f800001,
                                            0xffc12345, 0xff812345, 0x3f800000, 0xbf800000 };
            static const uint64_t f64[] = { 0x0ull, 0x8000000000000000ull, 0x1ull, 0x000fffffffffffffull,
                                            0x0010000000000000ull, 0x7fefffffffffffffull, 0x7ff0000000000000ull,
                                            0xfff0000000000000ull, 0x7ff8000000000000ull, 0x7ff8000000000001ull,
                                            0x7ff4000000000000ull, 0x7ff0000000000001ull, 0xfff8123456789abcull,
                                            0xfff0123456789abcull, 0x3ff0000000000000ull, 0xbff0000000000000ull };
            for (size_t k = 0; k < 16; k++)
                for (unsigned a = 0; a < 8; a++) {
                    one(c, w == 32 ? f32[k] : f64[k], a);
                    cases_local++;
                }
            vh_countf("float classes incl. NaN payloads (%s)", c->name);
        }
        vh_countf("structured values w=%d", w);
    }
    /* random values */
    uint64_t nrand = vh_tier ? 600000 : 40000;
    if (w <= 24)
        nrand = 2000;
    for (uint64_t k = 0; k < nrand; k++) {
        uint64_t b = vh_rand(&r);
        vh_cur[0] = b;
        run_value(c, b, &rot);
        if ((k & 63) == 0)
            one_exact(c, b);
    }
    VH_COUNTN("store/load cases compared", cases_local);
    *vh_ncases += cases_local;
    vh_sig(vh_hash(c->name, strlen(c->name)) ^ idx);
    if (idx == 0) {
        unsigned char tmp[8];
        uint64_t b = 0x1122334455667788ull & wmask(w);
        c->set(tmp, api_value(c, b));
        vh_sample(c->name, "%s: value %016" PRIx64 " -> octets %s -> loaded %016" PRIx64, c->name, api_value(c, b),
                  vh_hex(tmp, (size_t)w / 8), c->ref(tmp));
    }
}

/* ---- swaps and range predicates ---- */

static uint64_t
ref_swap(uint64_t v, int w)
{
    uint64_t r = 0;
    for (int i = 0; i < w / 8; i++)
        r |= ((v >> (8 * i)) & 0xff) << (8 * (w / 8 - 1 - i));
    return r;
}

static uint64_t
do_swap(int w, uint64_t v)
{
    switch (w) {
    case 16: return bf_swap16((uint16_t)v);
    case 24: return bf_swap24((uint32_t)v);
    case 32: return bf_swap32((uint32_t)v);
    case 40: return bf_swap40(v);
    case 48: return bf_swap48(v);
    case 56: return bf_swap56(v);
    default: return bf_swap64(v);
    }
}

static void
swap_one(int w, uint64_t v)
{
    v &= wmask(w);
    uint64_t got = do_swap(w, v), exp = ref_swap(v, w);
    if (got != exp)
        vh_fail("swap", "part=swap", "bf_swap%d(%016" PRIx64 ")=%016" PRIx64 " expected %016" PRIx64, w, v, got, exp);
    uint64_t back = do_swap(w, got);
    if (back != v)
        vh_fail("swap-involution", "part=swap", "bf_swap%d twice on %016" PRIx64 " gives %016" PRIx64, w, v, back);
}

static void
u_swap(uint64_t idx, void *arg)
{
    (void)arg;
    static const int widths[] = { 16, 24, 32, 40, 48, 56, 64 };
    int w = widths[idx % 7];
    uint64_t chunk = idx / 7; /* 0..15 */
    vh_rng r;
    vh_unit_rng(&r, "swap", idx);
    uint64_t n = 0;
    if (w <= 24) {
        uint64_t total = 1ull << w, lo = total / 16 * chunk, hi = lo + total / 16;
        for (uint64_t v = lo; v < hi; v++, n++) {
            VH_SUB(0, v);
            swap_one(w, v);
        }
    } else if (w == 32) {
        uint64_t lo = (1ull << 28) * chunk, step = vh_tier ? (vh_light ? 31 : 1) : 257;
        for (uint64_t v = lo; v < lo + (1ull << 28); v += step, n++) {
            VH_SUB(0, v);
            swap_one(w, v);
        }
    }
    if (chunk == 0) {
        for (int lane = 0; lane < w / 8; lane++)
            for (unsigned o = 0; o < 256; o++, n += 2) {
                swap_one(w, (uint64_t)o << (8 * lane));
                swap_one(w, ~((uint64_t)o << (8 * lane)));
            }
        for (int i = 0; i < w; i++, n++)
            swap_one(w, 1ull << i);
    }
    if (chunk == 0 && w == 16) {
        /* the helpers called the way a table of constants calls them: with constant expressions whose top-level
         * operator binds weaker than & (should a helper ever turn into a macro, its parameter needs parentheses) */
        const struct { uint64_t got, want; const char *text; } ce[] = {
            { bf_swap16(0x12u << 8 | 0x34u), 0x3412u, "bf_swap16(0x12u << 8 | 0x34u)" },
            { bf_swap16(0x1200u ^ 0x0034u), 0x3412u, "bf_swap16(0x1200u ^ 0x0034u)" },
            { bf_swap32(0x1122ul << 16 | 0x3344ul), 0x44332211ul, "bf_swap32(0x1122ul << 16 | 0x3344ul)" },
            { bf_swap32(0x11000000ul ^ 0x00223344ul), 0x44332211ul, "bf_swap32(0x11000000ul ^ 0x00223344ul)" },
            { bf_swap32(1 ? 0x11223344ul : 0ul), 0x44332211ul, "bf_swap32(1 ? 0x11223344ul : 0ul)" },
            { bf_swap64(0x11223344ull << 32 | 0x55667788ull), 0x8877665544332211ull, "bf_swap64(0x11223344ull << 32 | 0x55667788ull)" },
            { bf_swap64(0x1122334400000000ull ^ 0x55667788ull), 0x8877665544332211ull, "bf_swap64(0x1122334400000000ull ^ 0x55667788ull)" },
            { bf_swap24(0x11ul << 16 | 0x2233ul), 0x332211ul, "bf_swap24(0x11ul << 16 | 0x2233ul)" },
            { bf_swap40(0x11ull << 32 | 0x22334455ull), 0x5544332211ull, "bf_swap40(0x11ull << 32 | 0x22334455ull)" },
            { bf_swap48(0x1122ull << 32 | 0x33445566ull), 0x665544332211ull, "bf_swap48(0x1122ull << 32 | 0x33445566ull)" },
            { bf_swap56(0x112233ull << 32 | 0x44556677ull), 0x77665544332211ull, "bf_swap56(0x112233ull << 32 | 0x44556677ull)" },
        };
        for (size_t i = 0; i < sizeof ce / sizeof ce[0]; i++, n++)
            if (ce[i].got != ce[i].want)
                vh_fail("swap-constant-expression", "part=swap", "%s = %016" PRIx64 ", expected %016" PRIx64, ce[i].text, ce[i].got, ce[i].want);
        VH_COUNT("swap helpers called with constant expressions");
    }
    for (int k = 0; k < (vh_tier ? 500000 : 50000); k++, n++)
        swap_one(w, vh_rand(&r));
    VH_COUNTN("swap values compared", n);
    *vh_ncases += n;
    vh_sig(0x5a5a0000u + idx);
    if (chunk == 0)
        vh_sample("swap", "bf_swap%d(%016" PRIx64 ") = %016" PRIx64, w, 0x0102030405060708ull & wmask(w),
                  do_swap(w, 0x0102030405060708ull & wmask(w)));
}

static void
range_one(int w, uint64_t v)
{
    /* unsigned: representable iff v <= mask; signed: iff -2^(w-1) <= v < 2^(w-1) */
    bool eu = v <= wmask(w);
    int64_t sv = (int64_t)v;
    bool es = sv >= -((int64_t)1 << (w - 1)) && sv < ((int64_t)1 << (w - 1));
    bool gu, gs;
    switch (w) {
    case 24:
        if (v > 0xffffffffull) { /* 32-bit parameter: only 32-bit values can be passed */
            v &= 0xffffffffull;
            eu = v <= wmask(w);
        }
        sv = (int32_t)(uint32_t)v;
        es = sv >= -((int64_t)1 << 23) && sv < ((int64_t)1 << 23);
        gu = bf_inrange_u24((uint32_t)v);
        gs = bf_inrange_s24((int32_t)(uint32_t)v);
        break;
    case 40: gu = bf_inrange_u40(v); gs = bf_inrange_s40(sv); break;
    case 48: gu = bf_inrange_u48(v); gs = bf_inrange_s48(sv); break;
    default: gu = bf_inrange_u56(v); gs = bf_inrange_s56(sv); break;
    }
    if (gu != eu)
        vh_fail("inrange", "part=inrange kind=u", "bf_inrange_u%d(%016" PRIx64 ")=%d expected %d", w, v, gu, eu);
    if (gs != es)
        vh_fail("inrange", "part=inrange kind=s", "bf_inrange_s%d(%" PRId64 ")=%d expected %d", w, sv, gs, es);
}

static void
u_range(uint64_t idx, void *arg)
{
    (void)arg;
    static const int widths[] = { 24, 40, 48, 56 };
    int w = widths[idx % 4];
    vh_rng r;
    vh_unit_rng(&r, "range", idx);
    uint64_t n = 0;
    for (int i = 0; i < 64; i++)
        for (int d = -3; d <= 3; d++, n += 2) {
            range_one(w, (1ull << i) + (uint64_t)(int64_t)d);
            range_one(w, 0 - ((1ull << i) + (uint64_t)(int64_t)d));
        }
    for (int d = -4; d <= 4; d++, n += 3) {
        range_one(w, (uint64_t)(int64_t)d);
        range_one(w, (uint64_t)INT64_MAX + (uint64_t)(int64_t)d);
        range_one(w, (uint64_t)UINT32_MAX + (uint64_t)(int64_t)d);
    }
    for (int k = 0; k < (vh_tier ? 2000000 : 200000); k++, n++) {
        uint64_t v = vh_rand(&r);
        int sh = (int)vh_below(&r, 64);
        v >>= sh;
        if (vh_chance(&r, 1, 2))
            v = 0 - v;
        VH_SUB(0, v);
        range_one(w, v);
    }
    if (w == 24) {
        /* the 32-bit predicates: every value in the thorough tier, strided otherwise */
        for (uint64_t v = idx / 4; v <= 0xffffffffull; v += vh_tier ? 4 : 1021, n++)
            range_one(24, v);
    }
    VH_COUNTN("range predicate values compared", n);
    *vh_ncases += n;
    vh_sig(0x7a7a0000u + idx);
    if (idx < 4)
        vh_sample("inrange", "bf_inrange_s%d(-2^%d)=%d bf_inrange_s%d(2^%d)=%d bf_inrange_u%d(2^%d)=%d", w, w - 1, 1,
                  w, w - 1, 0, w, w, 0);
}

void
harness_run(void)
{
    static struct job jobs[NCODECS];
    for (size_t i = 0; i < NCODECS; i++) {
        jobs[i].codec = (int)i;
        int w = codecs[i].width;
        uint64_t nchunks = w == 16 ? 1 : w == 24 ? 16 : w == 32 ? (vh_tier ? 4096 : 16) : (vh_tier ? 16 : 2);
        char gen[32];
        snprintf(gen, sizeof gen, "codec-%s", codecs[i].name);
        for (uint64_t c = 0; c < nchunks; c++)
            vh_unit(gen, c, u_codec, &jobs[i]);
    }
    for (uint64_t i = 0; i < 7 * 16; i++)
        vh_unit("swap", i, u_swap, NULL);
    for (uint64_t i = 0; i < 16; i++)
        vh_unit("range", i, u_range, NULL);
    vh_require("store/load cases compared");
    vh_require("swap values compared");
    vh_require("stores and loads on caller objects that are not character arrays");
    vh_require("range predicate values compared");
    vh_require("stores and loads across a page boundary and at the edges of mapped memory");
    vh_require("enumerated chunk w=16");
    vh_require("enumerated chunk w=24");
    vh_require("structured values w=64");
    vh_require("float classes incl. NaN payloads (f32b)");
    vh_require("float classes incl. NaN payloads (f64l)");
}
