/* C07 - corrupted frames are never executed nor acknowledged.
 *
 * Corpus frames from the reference encoder are mutated on the raw frame
 * (bit flips, two-bit flips, bursts, truncation, extension), then SLIP
 * encoded and fed to a server RegP. Oracles: backend call log must stay
 * empty and no ACK may be emitted; the receiver's error id must equal the
 * reference decoder's verdict; the reply must be the prescribed meta
 * message / error response. Second part: option-bit combinations and
 * arbitrary octet strings on both transports. Third part: damage behind
 * the SLIP encoder in a session served by the documented receive loop. */
#include "rp_common.h"

const char *harness_name = "c07_regp_corrupt";

static struct rp_h H;
static struct rp_split SP;
static unsigned ncase_since_reset;

static const char *
verdict_name(int v)
{
    return v == 0 ? "valid" : v == EBADMSG ? "header-encoding" : v == EILSEQ ? "header-checksum"
           : v == EFAULT ? "payload-size" : v == EPROTO ? "payload-checksum" : "other";
}

/* feed one raw frame (already mutated) and judge. listed: the mutation is one the statement lists
 * (=> must not be executed whatever the reference thinks) */
static void
judge(const unsigned char *raw, size_t n, int serial, int listed, const char *mut, const char *origin)
{
    static unsigned char wire[900];
    if (++ncase_since_reset >= 12) {
        vh_arena_reset();
        H.nblk = 0;
        ncase_since_reset = 0;
    }
    size_t wn = rp_wire(serial, raw, n, wire);
    rp_feed(&H, wire, wn);
    (*vh_ncases)++;
    H.out_n = 0;
    H.ncalls = 0;
    H.verdict = (RPBlockAccess){ .status = RP_RESP_ACK, .address = 0 };
    /* every seventh frame meets a reply channel that is down: what the receiver concluded about the frame and what
     * it does with it must not depend on whether its reply got out */
    static unsigned judged;
    const int reply_channel_down = (++judged % 7u) == 0;
    H.out_calls = 0;
    H.out_failed = 0;
    H.out_fail_from = reply_channel_down ? 0 : SIZE_MAX;
    RPMaybeFrame mf;
    int rc1 = regp_recv(&H.p, &mf);
    int rc2 = regp_process(&H.p, &mf);
    regp_free(&H.p, mf.frame);
    H.out_fail_from = SIZE_MAX;
    (void)rc1;
    (void)rc2;
    if (reply_channel_down)
        VH_COUNT("frame judged with the reply channel down");
    struct rframe f;
    int v = rp_decode_raw(raw, n, &f);
    char key[96], ctx[300];
    snprintf(key, sizeof key, "mutation=%s verdict=%s transport=%s", mut, verdict_name(v), serial ? "serial" : "tcp");
    snprintf(ctx, sizeof ctx, "%s: frame %s (%zu octets)", origin, vh_hex(raw, n > 60 ? 60 : n), n);
    switch (v) {
    case 0: VH_COUNT("verdict: valid"); break;
    case EBADMSG: VH_COUNT("verdict: header-encoding"); break;
    case EILSEQ: VH_COUNT("verdict: header-checksum"); break;
    case EFAULT: VH_COUNT("verdict: payload-size"); break;
    default: VH_COUNT("verdict: payload-checksum"); break;
    }
    if (H.in_runaway) {
        vh_fail("no-progress", key, "%s", ctx);
        return;
    }
    if (rp_live_blocks(&H) || H.bad_free) {
        vh_fail("block-ledger", key, "%s: %d live blocks, bad free %d", ctx, rp_live_blocks(&H), H.bad_free);
        H.bad_free = 0;
        for (int i = 0; i < H.nblk; i++)
            H.blk[i].live = 0;
    }
    int nf = rp_unframe(serial, H.out, H.out_n, &SP);
    struct rframe r[4];
    int rerr[4] = { 0, 0, 0, 0 };
    int acked = 0;
    for (int i = 0; i < nf && i < 4; i++) {
        rerr[i] = rp_decode_raw(SP.raw[i], SP.len[i], &r[i]);
        if (!rerr[i] && (r[i].type == RT_READ_RESP || r[i].type == RT_WRITE_RESP) && r[i].meta == 0)
            acked = 1;
    }
    /* (i) never executed, never acknowledged */
    if (v != 0 || listed) {
        if (H.ncalls != 0)
            vh_fail("corrupted-frame-executed", key, "%s: %d backend calls (first: %s addr=%08x n=%zu)", ctx, H.ncalls,
                    H.call[0].write ? "write" : "read", H.call[0].addr, H.call[0].n);
        if (acked)
            vh_fail("corrupted-frame-acknowledged", key, "%s: reply %s", ctx, vh_hex(H.out, H.out_n > 40 ? 40 : H.out_n));
    }
    /* a frame that does not fit the frame block was never parsed: it is reported as too large, answered with a
     * receive-overflow response, and nothing of what the block may still hold from an earlier frame is acted on */
    if (n > H.blocksize - sizeof(RPFrame)) {
        VH_COUNT("verdict: too large for the frame block");
        if (H.ncalls != 0)
            vh_fail("corrupted-frame-executed", key, "%s: too large for the block, yet %d backend calls (first: %s addr=%08x n=%zu)", ctx,
                    H.ncalls, H.call[0].write ? "write" : "read", H.call[0].addr, H.call[0].n);
        if (acked)
            vh_fail("corrupted-frame-acknowledged", key, "%s: too large for the block, yet acknowledged: %s", ctx,
                    vh_hex(H.out, H.out_n > 40 ? 40 : H.out_n));
        if (mf.error.id != ENOMEM)
            vh_fail("classification", key, "%s: error.id=%d for a frame larger than the block (expected ENOMEM)", ctx, mf.error.id);
        /* what the peer is told: the header octets are all the receiver has looked at - a header that does not
         * decode or whose checksum does not match gets the meta message for that, a request with a sound header the
         * receive-overflow response, anything else nothing */
        if (!reply_channel_down) {
            if (v == EBADMSG || v == EILSEQ) {
                unsigned want = v == EBADMSG ? 1u : 2u;
                if (nf != 1 || rerr[0] || r[0].type != RT_META || r[0].meta != want)
                    vh_fail("meta-reply", key, "%s: too large for the block and its header is damaged: expected one meta message %u, got %d frames: %s",
                            ctx, want, nf, vh_hex(H.out, H.out_n > 40 ? 40 : H.out_n));
                VH_COUNT("oversized frame with a damaged header");
            } else if (f.type == RT_READ_REQ || f.type == RT_WRITE_REQ) {
                if (nf != 1 || rerr[0] || r[0].type != f.type + 1 || r[0].meta != 4u || r[0].seq != f.seq || r[0].addr != f.addr)
                    vh_fail("error-response", key, "%s: too large for the block: expected one receive-overflow response, got %d frames: %s", ctx,
                            nf, vh_hex(H.out, H.out_n > 40 ? 40 : H.out_n));
            } else if (H.out_n != 0) {
                vh_fail("reply-to-non-request", key, "%s: too large for the block: %zu reply octets", ctx, H.out_n);
            }
        }
        return;
    }
    /* (ii) the receiver's classification */
    if (mf.error.id != v) {
        vh_fail("classification", key, "%s: error.id=%d, the reference reading says %d (%s)", ctx, mf.error.id, v,
                verdict_name(v));
        return;
    }
    /* (iii) the reply */
    if (reply_channel_down)
        return; /* nothing got out; which replies were attempted is not judged */
    int is_req = v != EBADMSG && (f.type == RT_READ_REQ || f.type == RT_WRITE_REQ);
    if (v == EBADMSG || v == EILSEQ) {
        unsigned want = v == EBADMSG ? 1u : 2u;
        if (nf != 1 || rerr[0] || r[0].type != RT_META || r[0].meta != want)
            vh_fail("meta-reply", key, "%s: expected one meta message %u, got %d frames: %s", ctx, want, nf,
                    vh_hex(H.out, H.out_n > 40 ? 40 : H.out_n));
    } else if (v == EFAULT || v == EPROTO) {
        unsigned want = v == EFAULT ? 3u : 2u;
        if (is_req) {
            if (nf != 1 || rerr[0] || r[0].type != f.type + 1 || r[0].meta != want || r[0].seq != f.seq
                || r[0].addr != f.addr || r[0].plen != 0)
                vh_fail("error-response", key, "%s: expected one %s response, got %d frames: %s", ctx,
                        rp_respname[want], nf, vh_hex(H.out, H.out_n > 40 ? 40 : H.out_n));
        } else if (H.out_n != 0) {
            vh_fail("reply-to-non-request", key, "%s: %zu reply octets", ctx, H.out_n);
        }
    } else if (v == 0) {
        /* a frame the reference accepts: requests are executed exactly once (the details are C06's business) */
        /* a frame the reference accepts: whether and how a request is executed is C06's and C09's business
         * (capacity); here only: nothing but a request with the right word size may reach the backend */
        int wsok = ((f.options & ROPT_W16) != 0) == (H.mem16 != 0);
        if (listed)
            VH_COUNT("listed mutation that leaves a frame the reference accepts");
        if ((!is_req || !wsok) && H.ncalls != 0)
            vh_fail("non-request-executed", key, "%s: %d backend calls", ctx, H.ncalls);
    }
}

/* ---- corpus ---- */
struct corpus {
    unsigned char raw[128];
    size_t n;
    char name[48];
};

static size_t
make_corpus_frame(struct corpus *c, int type, int w16, size_t words, unsigned code, uint16_t seq, uint32_t addr,
                  vh_rng *rg)
{
    struct rframe f;
    unsigned char pl[96];
    memset(&f, 0, sizeof f);
    f.type = (unsigned)type;
    f.seq = seq;
    f.addr = addr;
    f.meta = code;
    size_t ws = w16 ? 2 : 1;
    f.options = (w16 ? ROPT_W16 : 0) | ROPT_HDCRC;
    if (type == RT_READ_REQ) {
        f.bsize = (uint32_t)words;
    } else if (type == RT_WRITE_REQ || (type == RT_READ_RESP && code == 0)) {
        f.bsize = (uint32_t)words;
        f.plen = words * ws;
    } else if ((type == RT_READ_RESP || type == RT_WRITE_RESP) && rp_code_has_payload(code)) {
        f.options &= ~ROPT_W16;
        f.bsize = 4;
        f.plen = 4;
    } else if (type == RT_META) {
        f.options &= ~ROPT_W16;
        f.seq = 0;
        f.addr = 0;
    }
    for (size_t i = 0; i < f.plen; i++)
        pl[i] = (unsigned char)vh_rand(rg);
    f.payload = pl;
    if (f.plen)
        f.options |= ROPT_PLCRC;
    c->n = rp_encode_raw(&f, c->raw);
    snprintf(c->name, sizeof c->name, "type=%d w16=%d words=%zu code=%u", type, w16, words, code);
    return c->n;
}

static int
build_corpus(struct corpus *c, int max, vh_rng *rg, int small)
{
    int n = 0;
    static const size_t sizes_small[] = { 0, 1, 2, 5 };
    static const size_t sizes_all[] = { 0, 1, 2, 3, 4, 7, 8, 15, 16, 17, 31, 40 };
    const size_t *sz = small ? sizes_small : sizes_all;
    size_t nsz = small ? 4 : 12;
    for (int w16 = 0; w16 < 2; w16++)
        for (size_t s = 0; s < nsz && n + 4 < max; s++) {
            size_t words = sz[s];
            if (w16 && words > 20)
                continue;
            make_corpus_frame(&c[n++], RT_READ_REQ, w16, words, 0, (uint16_t)vh_rand(rg), (uint32_t)vh_rand(rg), rg);
            make_corpus_frame(&c[n++], RT_WRITE_REQ, w16, words, 0, (uint16_t)vh_rand(rg), (uint32_t)vh_rand(rg), rg);
            make_corpus_frame(&c[n++], RT_READ_RESP, w16, words, 0, (uint16_t)vh_rand(rg), (uint32_t)vh_rand(rg), rg);
        }
    for (unsigned code = 0; code < 12 && n + 2 < max; code++) {
        make_corpus_frame(&c[n++], RT_WRITE_RESP, 0, 0, code, (uint16_t)vh_rand(rg), (uint32_t)vh_rand(rg), rg);
        if (code)
            make_corpus_frame(&c[n++], RT_READ_RESP, 0, 0, code, (uint16_t)vh_rand(rg), (uint32_t)vh_rand(rg), rg);
    }
    make_corpus_frame(&c[n++], RT_META, 0, 0, 1, 0, 0, rg);
    make_corpus_frame(&c[n++], RT_META, 0, 0, 2, 0, 0, rg);
    /* one longer payload: 32 sixteen-bit words (a round number of words for whatever the checksum routine unrolls) */
    make_corpus_frame(&c[n++], RT_WRITE_REQ, 1, 32, 0, (uint16_t)vh_rand(rg), (uint32_t)vh_rand(rg), rg);
    /* frames whose checksum fields hold remarkable values: payload checksum 0x0000 (all-zero payload; payload
     * that ends in its own checksum), payload checksum 0xffff, header checksum 0x0000 and 0xffff, header
     * checksum equal to the payload checksum */
    for (int sp = 0; sp < 6 && n + 1 < max; sp++) {
        struct rframe f;
        unsigned char pl[16];
        memset(&f, 0, sizeof f);
        f.type = sp == 4 ? RT_READ_REQ : RT_WRITE_REQ;
        int w16 = sp & 1;
        f.options = (w16 ? ROPT_W16 : 0) | ROPT_HDCRC | (f.type == RT_WRITE_REQ ? ROPT_PLCRC : 0);
        f.addr = (uint32_t)vh_rand(rg);
        f.plen = f.type == RT_WRITE_REQ ? 8 : 0;
        f.bsize = f.type == RT_WRITE_REQ ? (uint32_t)(f.plen / (w16 ? 2 : 1)) : 3;
        f.payload = pl;
        uint16_t want_pl = 0, want_hd = 0;
        int fix_pl = 0, fix_hd = 0, hd_eq_pl = 0;
        const char *what;
        switch (sp) {
        case 0: memset(pl, 0, sizeof pl); what = "all-zero payload (payload checksum 0000)"; break;
        case 1: fix_pl = 1; want_pl = 0x0000; what = "payload ending in its own checksum (payload checksum 0000)"; break;
        case 2: fix_pl = 1; want_pl = 0xffff; what = "payload checksum ffff"; break;
        case 3: fix_hd = 1; want_hd = 0x0000; what = "header checksum 0000"; break;
        case 4: fix_hd = 1; want_hd = 0xffff; what = "header checksum ffff (read request)"; break;
        default: hd_eq_pl = 1; what = "header checksum equal to payload checksum"; break;
        }
        if (sp != 0)
            for (size_t i = 0; i < f.plen; i++)
                pl[i] = (unsigned char)vh_rand(rg);
        if (fix_pl) {
            /* the last two payload octets are free: search them */
            int found = 0;
            for (unsigned v = 0; v < 65536 && !found; v++) {
                pl[6] = (unsigned char)v;
                pl[7] = (unsigned char)(v >> 8);
                found = rp_crc(0, pl, 8) == want_pl;
            }
            if (!found)
                continue;
        }
        int ok = 0;
        for (unsigned sq = 0; sq < 65536 && !ok; sq++) {
            f.seq = (uint16_t)sq;
            c[n].n = rp_encode_raw(&f, c[n].raw);
            uint16_t hd = (uint16_t)(c[n].raw[12] << 8 | c[n].raw[13]);
            uint16_t plc = f.plen ? (uint16_t)(c[n].raw[14] << 8 | c[n].raw[15]) : 0;
            ok = fix_hd ? hd == want_hd : hd_eq_pl ? hd == plc : 1;
        }
        if (!ok)
            continue;
        snprintf(c[n].name, sizeof c[n].name, "%.47s", what);
        n++;
        vh_countf("corpus frame with %s", what);
    }
    return n;
}

/* bit numbering: 0 = most significant bit first within each octet (as the header diagrams read),
 * 1 = least significant bit first (as a UART shifts the octets out) */
static int lsb_first;
static inline void
flip(unsigned char *m, size_t bit)
{
    m[bit >> 3] ^= lsb_first ? (unsigned char)(1u << (bit & 7)) : (unsigned char)(0x80u >> (bit & 7));
}

/* all listed mutations of corpus frame c (a slice of them, selected by part/nparts) */
static void
mutate_frame(const struct corpus *c, vh_rng *rg, unsigned part, unsigned nparts, int all_pairs)
{
    unsigned char m[140];
    const size_t nbits = c->n * 8;
    uint64_t k = 0;
    /* the frame as it is: the receiver's verdict on the undamaged frame must be the reference's too (a receiver
     * that rejects everything classifies every damaged frame "correctly") */
    if (part == 0) {
        VH_SUB(1, 0);
        judge(c->raw, c->n, 1, 0, "undamaged", c->name);
    }
    /* single-bit flips, everywhere */
    for (size_t b = 0; b < nbits; b++, k++) {
        if (k % nparts != part)
            continue;
        memcpy(m, c->raw, c->n);
        flip(m, b);
        VH_SUB(1, 1);
        VH_SUB(2, b);
        judge(m, c->n, 1, 1, b < 16 ? "single-bit-first-word" : "single-bit", c->name);
    }
    VH_COUNT("mutation class: single-bit flip");
    /* two-bit flips inside the protected fields (everything behind the first header word) */
    for (size_t a = 16; a < nbits; a++)
        for (size_t b = a + 1; b < nbits; b++, k++) {
            if (k % nparts != part)
                continue;
            if (!all_pairs && !(b - a <= 17 || vh_chance(rg, 1, 24)))
                continue;
            memcpy(m, c->raw, c->n);
            flip(m, a);
            flip(m, b);
            VH_SUB(1, 2);
            VH_SUB(2, a);
            VH_SUB(3, b);
            judge(m, c->n, 1, 1, "two-bit", c->name);
        }
    VH_COUNT("mutation class: two-bit flip");
    /* bursts of length 2..16: first and last bit flipped, interior all patterns (<= 6) or random;
     * in both bit numberings */
    for (lsb_first = 0; lsb_first < 2; lsb_first++)
    for (size_t len = 2; len <= 16; len++)
        for (size_t a = 16; a + len <= nbits; a++) {
            unsigned npat = len <= 6 ? 1u << (len - 2) : 3u;
            for (unsigned p = 0; p < npat; p++, k++) {
                if (k % nparts != part)
                    continue;
                uint32_t interior = len <= 6 ? p : (uint32_t)vh_rand(rg);
                memcpy(m, c->raw, c->n);
                flip(m, a);
                flip(m, a + len - 1);
                for (size_t i = 1; i + 1 < len; i++)
                    if ((interior >> (i - 1)) & 1u)
                        flip(m, a + i);
                VH_SUB(1, 3);
                VH_SUB(2, a);
                VH_SUB(3, len);
                /* does the burst reach from the protected words into a checksum field (or across both)? */
                {
                    size_t hdrbits = 96, crcend = c->n >= 14 ? (c->raw[0] & 4 ? 128 : 112) : 96;
                    int across = a < crcend && a + len > hdrbits && !(a >= hdrbits && a + len <= crcend);
                    /* A burst is a run of consecutive bits on the channel. The serial links the document names
                     * (UART, RS232, RS485, USB) shift octets out least significant bit first, so only the
                     * LSB-first numbering describes bursts; runs that are consecutive in the MSB-first numbering
                     * are exercised as well, but as ordinary mutations: if the reference decoder still accepts
                     * the frame, executing it is no violation of the statement. */
                    judge(m, c->n, 1, lsb_first,
                          across ? (lsb_first ? "burst-lsb-first-into-checksum-field" : "burst-msb-first-into-checksum-field")
                                 : (lsb_first ? "burst-lsb-first" : "burst-msb-first"),
                          c->name);
                }
            }
        }
    lsb_first = 0;
    VH_COUNT("mutation class: burst of 2..16 bits");
    /* truncation at every length, small extensions */
    for (size_t n = 0; n < c->n; n++, k++) {
        if (k % nparts != part)
            continue;
        VH_SUB(1, 4);
        VH_SUB(2, n);
        judge(c->raw, n, 1, 1, n == 0 ? "truncated-to-nothing" : n < 12 ? "truncated-below-header" : "truncated", c->name);
    }
    VH_COUNT("mutation class: truncation");
    for (size_t e = 1; e <= 4; e++, k++) {
        if (k % nparts != part)
            continue;
        memcpy(m, c->raw, c->n);
        for (size_t i = 0; i < e; i++)
            m[c->n + i] = (unsigned char)vh_rand(rg);
        VH_SUB(1, 5);
        VH_SUB(2, e);
        judge(m, c->n + e, 1, 1, "extended", c->name);
    }
    /* extended beyond what the frame block can take: behind a request that was just served, on allocators that hand
     * the same block out again, the block still holds that request */
    {
        static unsigned char big[400];
        const size_t cap = H.blocksize - sizeof(RPFrame);
        for (size_t e = 1; e <= 3 && cap + 20 < sizeof big; e++, k++) {
            if (k % nparts != part)
                continue;
            /* serve the undamaged frame first, then its oversized twin */
            VH_SUB(1, 6);
            VH_SUB(2, e);
            judge(c->raw, c->n, 1, 0, "undamaged", c->name);
            memcpy(big, c->raw, c->n);
            for (size_t i = c->n; i < cap + e * 7; i++)
                big[i] = (unsigned char)vh_rand(rg);
            judge(big, cap + e * 7, 1, 1, "extended-beyond-block", c->name);
            /* ... and the same with a damaged header on top: a flipped bit in the address (the header checksum no
             * longer matches), a wrong version nibble (the header does not decode) */
            big[5] ^= (unsigned char)(1u << (e & 7));
            judge(big, cap + e * 7, 1, 1, "extended-beyond-block-header-damaged", c->name);
            big[5] ^= (unsigned char)(1u << (e & 7));
            big[0] ^= 0x40;
            judge(big, cap + e * 7, 1, 1, "extended-beyond-block-header-damaged", c->name);
        }
    }
    VH_COUNT("mutation class: extension");
}

static struct corpus CORPUS[128];

static void
u_mutate(uint64_t idx, void *arg)
{
    (void)arg;
    vh_rng rg, crg;
    vh_unit_rng(&rg, "mutate", idx);
    /* the corpus depends on the seed only, not on the unit */
    vh_unit_rng(&crg, "corpus", 0);
    int nc = build_corpus(CORPUS, 128, &crg, !vh_tier);
    unsigned nparts = vh_tier ? 8 : 2;
    uint64_t ci = idx / nparts;
    if (ci >= (uint64_t)nc)
        return;
    vh_arena_reset();
    rp_setup(&H, 1, (int)(ci & 1), 256);
    ncase_since_reset = 0;
    VH_CASE4(idx, ci, 0, 0);
    mutate_frame(&CORPUS[ci], &rg, (unsigned)(idx % nparts), nparts, vh_tier || CORPUS[ci].n <= 16);
    /* same frame against the other memory word size: single-bit flips only */
    vh_sig(0x07000000ull ^ idx);
    if (idx == 3)
        vh_sample("mutation", "corpus frame %s (%s): every single-bit flip, two-bit flips behind the first header "
                              "word, bursts of 2..16 bits at every offset, every truncation, extensions by 1..4 octets",
                  CORPUS[ci].name, vh_hex(CORPUS[ci].raw, CORPUS[ci].n > 24 ? 24 : CORPUS[ci].n));
}

/* ---- frames that fill the frame block to its last octet, and their twins with stray octets behind: on the TCP
 * transport, from octet sources and from chunk sources that expose a transfer window (the frame then reaches the
 * block in chunks, some of which fit only in part) ---- */
static void
u_fill(uint64_t idx, void *arg)
{
    (void)arg;
    vh_rng rg;
    vh_unit_rng(&rg, "fill", idx);
    static const size_t wins[] = { 0, 2, 3, 7, 16, 40, 64 };
    static const size_t blocks[] = { 96, 128, 129, 200 };
    const int mem16 = (int)(idx & 1);
    const size_t win = wins[(idx >> 1) % 7], bs = blocks[(idx / 14) % 4];
    vh_arena_reset();
    rp_next_window = win;
    rp_setup(&H, 0, mem16, bs);
    ncase_since_reset = 0;
    const size_t cap = bs - sizeof(RPFrame);
    static unsigned char raw[400], pl[400];
    for (int round = 0; round < 6; round++) {
        struct rframe f;
        memset(&f, 0, sizeof f);
        f.type = RT_WRITE_REQ;
        f.options = mem16 ? ROPT_W16 : 0;
        f.seq = (uint16_t)vh_rand(&rg);
        f.addr = (uint32_t)vh_rand(&rg);
        /* the longest payload the block can take (whole words), every second round one word less */
        size_t ws = mem16 ? 2 : 1, words = (cap - 12) / ws - (size_t)(round & 1);
        f.bsize = (uint32_t)words;
        f.plen = words * ws;
        for (size_t i = 0; i < f.plen; i++)
            pl[i] = (unsigned char)vh_rand(&rg);
        f.payload = pl;
        size_t n = rp_encode_raw(&f, raw);
        VH_CASE4(idx, round, win, bs);
        judge(raw, n, 0, 0, "undamaged", "block-filling write request");
        for (size_t e = 1; e <= 5; e++) {
            for (size_t i = 0; i < e; i++)
                raw[n + i] = (unsigned char)vh_rand(&rg);
            VH_SUB(4, e);
            judge(raw, n + e, 0, 1, n + e > cap ? "extended-beyond-block" : "extended", "block-filling write request");
            if (n + e > cap) {
                raw[0] ^= 0x20; /* version nibble: the header does not decode */
                judge(raw, n + e, 0, 1, "extended-beyond-block-header-damaged", "block-filling write request");
                raw[0] ^= 0x20;
            }
        }
    }
    if (win)
        VH_COUNT("block-filling frames and oversized twins from a source with a transfer window");
    else
        VH_COUNT("block-filling frames and oversized twins from an octet source");
    vh_sig(0x07f00000ull ^ idx);
}

/* ---- part two: option-bit combinations and arbitrary octet strings, both transports ---- */
static void
u_options(uint64_t idx, void *arg)
{
    (void)arg;
    vh_rng rg;
    vh_unit_rng(&rg, "options", idx);
    int serial = (int)(idx & 1);
    vh_arena_reset();
    rp_setup(&H, serial, (int)(idx >> 1) & 1, 256);
    ncase_since_reset = 0;
    unsigned char raw[160], pl[64];
    for (int k = 0; k < 600; k++) {
        struct rframe f;
        memset(&f, 0, sizeof f);
        static const unsigned types[] = { 0, 1, 2, 3, 15, 0, 2 };
        f.type = types[vh_below(&rg, 7)];
        f.options = (unsigned)vh_below(&rg, 8);
        f.seq = (uint16_t)vh_rand(&rg);
        f.addr = (uint32_t)vh_rand(&rg);
        f.meta = f.type == 15 ? 1 + (unsigned)vh_below(&rg, 2) : (f.type & 1) ? (unsigned)vh_below(&rg, 12) : 0;
        size_t ws = (f.options & ROPT_W16) ? 2 : 1;
        size_t words = (size_t)vh_below(&rg, 20);
        f.bsize = (uint32_t)words;
        f.plen = (f.type == RT_READ_REQ || f.type == RT_META) ? 0 : words * ws;
        for (size_t i = 0; i < f.plen; i++)
            pl[i] = (unsigned char)vh_rand(&rg);
        f.payload = pl;
        size_t n = rp_encode_raw(&f, raw);
        /* now and then: wrong payload checksum, wrong header checksum, odd payload length, payload where none belongs */
        unsigned x = (unsigned)vh_below(&rg, 10);
        const char *what = "option-combination";
        size_t hs = 12 + ((f.options & ROPT_HDCRC) ? 2 : 0) + ((f.options & ROPT_PLCRC) ? 2 : 0);
        if (x == 0 && (f.options & ROPT_PLCRC) && f.plen) {
            /* damage the payload, keep the header (incl. its checksum over the declared payload checksum) intact */
            raw[hs + vh_below(&rg, f.plen)] ^= (unsigned char)(1u << vh_below(&rg, 8));
            what = "payload-damaged";
            VH_COUNT("declared payload checksum that does not match");
            if (!(f.options & ROPT_HDCRC))
                VH_COUNT("payload checksum declared without header checksum, payload damaged");
        } else if (x == 1 && (f.options & ROPT_HDCRC)) {
            raw[12] ^= 0x10;
            what = "header-checksum-damaged";
        } else if (x == 2) {
            raw[n++] = (unsigned char)vh_rand(&rg);
            what = "one-extra-octet";
            if (ws == 2)
                VH_COUNT("odd number of payload octets under 16-bit semantics");
        } else if (x == 3 && n > hs) {
            n--;
            what = "one-octet-short";
        }
        VH_CASE4(idx, k, f.type, f.options);
        judge(raw, n, serial, 0, what, "generated");
        if ((k & 7) == 3 && x >= 4) {
            /* every single-bit flip of this (intact) frame: without a header checksum nothing but the
             * field validation and the size/checksum checks stand between a flipped bit and the backend */
            unsigned char m[170];
            for (size_t b = 0; b < n * 8; b++) {
                memcpy(m, raw, n);
                m[b >> 3] ^= (unsigned char)(0x80u >> (b & 7));
                VH_SUB(4, b);
                judge(m, n, serial, 0, (f.options & ROPT_HDCRC) ? "option-combination-bit-flip" : "bit-flip-without-header-checksum",
                      "generated");
            }
            VH_COUNT("every single-bit flip of a generated frame (all option-bit combinations)");
        }
        if ((k & 7) == 5 && f.plen) {
            /* size field with high bits set while the low bits still match the payload */
            static const uint32_t hi[] = { 0x80000000u, 0x40000000u, 0xc0000000u, 0xffff0000u, 0x00010000u, 0x7fffff00u };
            unsigned char m[170];
            for (size_t h = 0; h < 6; h++) {
                struct rframe g = f;
                g.bsize = f.bsize | hi[h];
                size_t gn = rp_encode_raw(&g, m);
                VH_SUB(4, h);
                judge(m, gn, serial, 0, "size-field-high-bits", "generated");
            }
            VH_COUNT("size field with high bits set over a matching low part");
        }
        if ((k & 7) == 0) {
            /* every truncation length of this option combination (minimum-length checks per combination) */
            for (size_t t = 0; t < n; t++) {
                VH_SUB(4, t);
                judge(raw, t, serial, 0, "option-combination-truncated", "generated");
            }
            VH_COUNT("option-bit combination truncated at every length");
        }
    }
    /* arbitrary octet strings as frame content */
    for (int k = 0; k < 600; k++) {
        size_t n = (size_t)vh_below(&rg, 60);
        for (size_t i = 0; i < n; i++)
            raw[i] = (unsigned char)vh_rand(&rg);
        if (n >= 2 && vh_chance(&rg, 3, 4)) {
            /* plausible first word so that the parser gets further */
            static const unsigned char t[] = { 0x00, 0x10, 0x20, 0x30, 0xf0 };
            raw[1] = t[vh_below(&rg, 5)];
            raw[0] = (unsigned char)(vh_below(&rg, 8) | (raw[1] == 0xf0 ? 0x10 : (raw[1] & 0x10) ? vh_below(&rg, 12) << 4 : 0));
        }
        VH_CASE4(idx, 1000 + k, n, 0);
        judge(raw, n, serial, 0, "random-octets", "generated");
    }
    VH_COUNT("arbitrary octet strings judged");
    vh_sig(0x07100000ull ^ idx);
}

/* ---- part three: damage on the wire, i.e. behind the SLIP encoder ----
 * A bit error on a serial line hits the encoded octets: it can create or destroy a delimiter or an escape
 * octet, so the receiver sees a split, merged or undecodable frame. The server runs the loop from the
 * comment in regp_recv() - one RPMaybeFrame for the whole session, regp_process() and regp_free() after
 * every regp_recv(), failed or not. Session: a valid request A, then the damaged request B', then a valid
 * request C. Oracle: every backend access and every acknowledgement seen while B' and C are served must
 * belong to a frame an independent reading finds intact in those octets (segments between delimiters without
 * an illegal escape, and - generously - whatever follows an illegal escape inside a segment). */
struct wcand {
    int write;
    uint32_t addr, n;
    uint16_t seq;
    int used_call, used_ack;
};

static int
wire_candidates(const unsigned char *w, size_t wn, int mem16, struct wcand *cand, int max)
{
    int nc = 0;
    size_t i = 0;
    while (i < wn) {
        size_t e = i;
        while (e < wn && w[e] != 0xc0)
            e++;
        if (e >= wn)
            break; /* unterminated rest: never a frame */
        /* starts: the segment itself and the octets behind each illegal escape */
        size_t starts[40];
        int ns = 0;
        starts[ns++] = i;
        for (size_t k = i; k < e; k++)
            if (w[k] == 0xdb && (k + 1 >= e || (w[k + 1] != 0xdc && w[k + 1] != 0xdd))) {
                if (ns + 2 < 40) {
                    starts[ns++] = k + 1;
                    starts[ns++] = k + 2 <= e ? k + 2 : e;
                }
            } else if (w[k] == 0xdb)
                k++;
        for (int si = 0; si < ns; si++) {
            unsigned char raw[200];
            size_t o = 0;
            int bad = 0;
            for (size_t k = starts[si]; k < e && o < sizeof raw; k++) {
                unsigned char c = w[k];
                if (c == 0xdb) {
                    if (k + 1 < e && (w[k + 1] == 0xdc || w[k + 1] == 0xdd))
                        c = w[++k] == 0xdc ? 0xc0 : 0xdb;
                    else {
                        bad = 1;
                        break;
                    }
                }
                raw[o++] = c;
            }
            struct rframe f;
            if (bad || rp_decode_raw(raw, o, &f) != 0)
                continue;
            if (f.type != RT_READ_REQ && f.type != RT_WRITE_REQ)
                continue;
            if (((f.options & ROPT_W16) != 0) != (mem16 != 0))
                continue;
            if (nc < max)
                cand[nc++] = (struct wcand){ f.type == RT_WRITE_REQ, f.addr, f.bsize, f.seq, 0, 0 };
        }
        i = e + 1;
    }
    return nc;
}

static RPMaybeFrame wire_mf; /* one for the whole session, as in the documented loop */

static void
wire_session(const unsigned char *awire, size_t an, const unsigned char *bwire, size_t bn, const unsigned char *cwire,
             size_t cn, const char *mut, const char *origin)
{
    static unsigned char w[600];
    if (++ncase_since_reset >= 6) {
        vh_arena_reset();
        H.nblk = 0;
        ncase_since_reset = 0;
    }
    (*vh_ncases)++;
    /* A: served normally */
    rp_feed(&H, awire, an);
    H.out_n = 0;
    H.ncalls = 0;
    H.bad_free = 0;
    regp_recv(&H.p, &wire_mf);
    regp_process(&H.p, &wire_mf);
    regp_free(&H.p, wire_mf.frame);
    int a_calls = H.ncalls;
    rp_ledger_gc(&H);
    /* B' and C */
    memcpy(w, bwire, bn);
    memcpy(w + bn, cwire, cn);
    rp_feed(&H, w, bn + cn);
    H.out_n = 0;
    H.ncalls = 0;
    int rounds = 0, recv_failed = 0;
    for (; rounds < 12; rounds++) {
        size_t before = H.in_pos;
        int rc = regp_recv(&H.p, &wire_mf);
        regp_process(&H.p, &wire_mf);
        regp_free(&H.p, wire_mf.frame);
        if (rc < 0 && H.in_pos < H.in_n)
            recv_failed++;
        if (H.in_runaway || (H.in_pos >= H.in_n && (rc < 0 || H.in_pos == before)))
            break;
    }
    char key[96], ctx[360];
    snprintf(key, sizeof key, "workload=wire-damage mutation=%s", mut);
    snprintf(ctx, sizeof ctx, "%s: after a valid request, wire octets %s", origin, vh_hex(w, bn + cn > 80 ? 80 : bn + cn));
    if (H.in_runaway) {
        vh_fail("no-progress", key, "%s", ctx);
        return;
    }
    if (a_calls != 1)
        VH_COUNT("wire damage: leading valid request not executed once (not judged here)");
    if (recv_failed)
        VH_COUNT("wire damage making regp_recv fail before the end of the input (illegal escape)");
    struct wcand cand[24];
    int nc = wire_candidates(w, bn + cn, H.mem16, cand, 24);
    if (nc >= 2)
        VH_COUNT("wire damage leaving two intact requests");
    else if (nc == 1)
        VH_COUNT("wire damage leaving one intact request");
    else
        VH_COUNT("wire damage leaving no intact request");
    for (int i = 0; i < H.ncalls && i < 8; i++) {
        const struct rp_becall *c = &H.call[i];
        int ok = 0;
        for (int k = 0; k < nc && !ok; k++)
            if (!cand[k].used_call && cand[k].write == c->write && cand[k].addr == c->addr && cand[k].n == c->n) {
                cand[k].used_call = 1;
                ok = 1;
            }
        if (!ok)
            vh_fail("corrupted-frame-executed", key, "%s: backend %s addr=%08x n=%zu belongs to no intact frame in them "
                    "(%d intact requests, %d backend calls)", ctx, c->write ? "write" : "read", c->addr, c->n, nc, H.ncalls);
    }
    if (H.ncalls > 8)
        vh_fail("corrupted-frame-executed", key, "%s: %d backend calls", ctx, H.ncalls);
    int nf = rp_unframe(1, H.out, H.out_n, &SP);
    if (nf < 0) {
        vh_fail("reply-malformed", key, "%s: replies %s", ctx, vh_hex(H.out, H.out_n > 40 ? 40 : H.out_n));
    } else {
        for (int i = 0; i < nf; i++) {
            struct rframe r;
            if (rp_decode_raw(SP.raw[i], SP.len[i], &r) != 0) {
                vh_fail("reply-malformed", key, "%s: reply %d %s", ctx, i, vh_hex(SP.raw[i], SP.len[i] > 40 ? 40 : SP.len[i]));
                continue;
            }
            if ((r.type != RT_READ_RESP && r.type != RT_WRITE_RESP) || r.meta != 0)
                continue;
            int ok = 0;
            for (int k = 0; k < nc && !ok; k++)
                if (!cand[k].used_ack && cand[k].write == (r.type == RT_WRITE_RESP) && cand[k].addr == r.addr
                    && cand[k].seq == r.seq) {
                    cand[k].used_ack = 1;
                    ok = 1;
                }
            if (!ok)
                vh_fail("corrupted-frame-acknowledged", key, "%s: acknowledgement seq=%u addr=%08x answers no intact frame",
                        ctx, r.seq, r.addr);
        }
    }
    if (rp_live_blocks(&H) || H.bad_free) {
        vh_fail("block-ledger", key, "%s: %d live blocks, bad free %d", ctx, rp_live_blocks(&H), H.bad_free);
        H.bad_free = 0;
        for (int i = 0; i < H.nblk; i++)
            H.blk[i].live = 0;
    }
    rp_ledger_gc(&H);
}

static void
u_wire(uint64_t idx, void *arg)
{
    (void)arg;
    vh_rng rg;
    vh_unit_rng(&rg, "wire", idx);
    const int mem16 = (int)(idx & 1);
    const int write = (int)((idx >> 1) & 1);
    const size_t words = (size_t)((idx >> 2) % 4) * 2 + (write ? 1 : 0);
    vh_arena_reset();
    rp_setup(&H, 1, mem16, 256);
    memset(&wire_mf, 0, sizeof wire_mf);
    ncase_since_reset = 0;
    /* the three frames; B carries octets that need escaping in several fields */
    unsigned char raw[3][80], wire[3][170], pl[3][16];
    size_t wn[3];
    for (int i = 0; i < 3; i++) {
        struct rframe f;
        memset(&f, 0, sizeof f);
        int wr = i == 1 ? write : (int)vh_below(&rg, 2);
        size_t nw = i == 1 ? words : (size_t)vh_below(&rg, 4);
        f.type = wr ? RT_WRITE_REQ : RT_READ_REQ;
        f.seq = (uint16_t)(i == 1 && vh_chance(&rg, 1, 2) ? 0xc000u | vh_below(&rg, 256) : vh_rand(&rg));
        f.addr = 0x10000000u * (uint32_t)(i + 1) + (uint32_t)vh_below(&rg, 0x10000) + (i == 1 && vh_chance(&rg, 1, 2) ? 0xdb0000u : 0);
        f.bsize = (uint32_t)nw;
        f.plen = wr ? nw * (mem16 ? 2u : 1u) : 0;
        for (size_t k = 0; k < f.plen; k++)
            pl[i][k] = vh_chance(&rg, 1, 3) ? (vh_chance(&rg, 1, 2) ? 0xc0 : 0xdb) : (unsigned char)vh_rand(&rg);
        f.payload = pl[i];
        f.options = (mem16 ? ROPT_W16 : 0) | ROPT_HDCRC | (f.plen ? ROPT_PLCRC : 0);
        size_t rn = rp_encode_raw(&f, raw[i]);
        wn[i] = rp_slip(raw[i], rn, wire[i]);
    }
    char origin[96];
    snprintf(origin, sizeof origin, "%s request of %zu words, mem%d", write ? "write" : "read", words, mem16 ? 16 : 8);
    VH_CASE4(idx, write, words, mem16);
    /* undamaged session first: all three served */
    wire_session(wire[0], wn[0], wire[1], wn[1], wire[2], wn[2], "none", origin);
    unsigned char m[170];
    const size_t nbits = wn[1] * 8;
    for (size_t b = 0; b < nbits; b++) {
        memcpy(m, wire[1], wn[1]);
        m[b >> 3] ^= (unsigned char)(1u << (b & 7));
        VH_SUB(1, 1);
        VH_SUB(2, b);
        wire_session(wire[0], wn[0], m, wn[1], wire[2], wn[2], "single-bit", origin);
    }
    VH_COUNT("wire damage class: single-bit flip at every wire bit");
    for (size_t a = 0; a < nbits; a++)
        for (size_t b = a + 1; b < nbits; b++) {
            if (!(b - a <= 9 || vh_chance(&rg, 1, vh_tier ? 16 : 160)))
                continue;
            memcpy(m, wire[1], wn[1]);
            m[a >> 3] ^= (unsigned char)(1u << (a & 7));
            m[b >> 3] ^= (unsigned char)(1u << (b & 7));
            VH_SUB(1, 2);
            VH_SUB(2, a);
            VH_SUB(3, b);
            wire_session(wire[0], wn[0], m, wn[1], wire[2], wn[2], "two-bit", origin);
        }
    VH_COUNT("wire damage class: two-bit flip");
    for (size_t len = 2; len <= 16; len++)
        for (size_t a = 0; a + len <= nbits; a++) {
            if (!vh_tier && !vh_chance(&rg, 1, 4))
                continue;
            uint32_t interior = (uint32_t)vh_rand(&rg);
            memcpy(m, wire[1], wn[1]);
            for (size_t i = 0; i < len; i++)
                if (i == 0 || i + 1 == len || ((interior >> i) & 1u))
                    m[(a + i) >> 3] ^= (unsigned char)(1u << ((a + i) & 7));
            VH_SUB(1, 3);
            VH_SUB(2, a);
            VH_SUB(3, len);
            wire_session(wire[0], wn[0], m, wn[1], wire[2], wn[2], "burst", origin);
        }
    VH_COUNT("wire damage class: burst of 2..16 bits");
    /* octets lost or duplicated on the line */
    for (size_t k = 0; k < wn[1]; k++) {
        memcpy(m, wire[1], k);
        memcpy(m + k, wire[1] + k + 1, wn[1] - k - 1);
        VH_SUB(1, 4);
        VH_SUB(2, k);
        wire_session(wire[0], wn[0], m, wn[1] - 1, wire[2], wn[2], "octet-lost", origin);
        memcpy(m, wire[1], k + 1);
        memcpy(m + k + 1, wire[1] + k, wn[1] - k);
        wire_session(wire[0], wn[0], m, wn[1] + 1, wire[2], wn[2], "octet-duplicated", origin);
    }
    VH_COUNT("wire damage class: octet lost or duplicated");
    vh_sig(0x07200000ull ^ idx);
    if (idx == 3)
        vh_sample("wire-damage", "session valid request, damaged %s, valid request; damage on the SLIP octets %s: every "
                                 "single-bit flip, two-bit flips, bursts, lost and duplicated octets; one RPMaybeFrame for "
                                 "the whole session", origin, vh_hex(wire[1], wn[1] > 40 ? 40 : wn[1]));
}

void
harness_run(void)
{
    for (uint64_t i = 0; i < (vh_tier ? 4000u : 32u); i++)
        vh_unit("wire", i, u_wire, NULL);
    for (uint64_t i = 0; i < 56; i++)
        vh_unit("fill", i, u_fill, NULL);
    vh_require("block-filling frames and oversized twins from a source with a transfer window");
    unsigned nparts = vh_tier ? 8 : 2;
    /* corpus size is bounded by 128; units beyond the corpus return at once */
    for (uint64_t i = 0; i < 128u * nparts; i++)
        vh_unit("mutate", i, u_mutate, NULL);
    for (uint64_t i = 0; i < (vh_tier ? 16000u : 200u); i++)
        vh_unit("options", i, u_options, NULL);
    static const char *req[] = { "mutation class: single-bit flip", "mutation class: two-bit flip",
                                 "mutation class: burst of 2..16 bits", "mutation class: truncation",
                                 "mutation class: extension", "verdict: header-encoding", "verdict: header-checksum",
                                 "verdict: payload-size", "verdict: payload-checksum", "verdict: valid",
                                 "declared payload checksum that does not match",
                                 "payload checksum declared without header checksum, payload damaged",
                                 "odd number of payload octets under 16-bit semantics",
                                 "arbitrary octet strings judged",
                                 "option-bit combination truncated at every length",
                                 "every single-bit flip of a generated frame (all option-bit combinations)",
                                 "size field with high bits set over a matching low part",
                                 "wire damage class: single-bit flip at every wire bit",
                                 "wire damage class: burst of 2..16 bits",
                                 "wire damage making regp_recv fail before the end of the input (illegal escape)",
                                 "wire damage leaving no intact request", "wire damage leaving one intact request",
                                 "wire damage leaving two intact requests", "frame judged with the reply channel down",
                                 "verdict: too large for the frame block",
                                 "corpus frame with all-zero payload (payload checksum 0000)",
                                 "corpus frame with payload ending in its own checksum (payload checksum 0000)",
                                 "corpus frame with header checksum 0000" };
    for (size_t i = 0; i < sizeof req / sizeof req[0]; i++)
        vh_require(req[i]);
}
