/* vh.h - common layer of the ufw verification harnesses.
 *
 * A harness is a program that enumerates *units* (small, independently
 * replayable slices of its workload). Every unit runs in a forked child so
 * that a sanitizer abort, an assert or a signal costs exactly that unit and
 * is attributed to the *case* the child had announced in shared memory.
 * Oracle failures, counters (what the monitors observed), case signatures
 * and samples travel to the driver as JSON lines on stdout.
 */
#ifndef VH_H
#define VH_H

#include <stddef.h>
#include <stdint.h>
#include <stdio.h>
#include <stdlib.h>
#include <string.h>
#include <stdarg.h>
#include <inttypes.h>

/* ---- configuration (set by vh_main from argv/env) ---- */
extern int      vh_tier;      /* 0 = quick, 1 = thorough */
extern uint64_t vh_seed0;     /* VERIF_SEED */
extern int      vh_shard, vh_nshards;
extern int      vh_verbose;   /* set in replay mode */
extern uint64_t vh_unit_salt; /* differs from unit to unit: for choices that must not be the same in every forked unit */
extern int      vh_slice;     /* >1: run only every vh_slice-th unit (coverage builds) */
extern int      vh_light;     /* secondary build configuration of the thorough tier: the very large enumerations may be thinned */

/* ---- PRNG: xoshiro256** ---- */
typedef struct { uint64_t s[4]; } vh_rng;
void     vh_rng_seed(vh_rng *r, uint64_t a, uint64_t b);
uint64_t vh_rand(vh_rng *r);
void     vh_rng_stream(vh_rng *r, const unsigned char *p, size_t n); /* draws come from these octets (8 per draw, then 0) */
size_t   vh_rng_stream_left(void);
static inline uint64_t vh_below(vh_rng *r, uint64_t n) { return n ? vh_rand(r) % n : 0; }
static inline int vh_chance(vh_rng *r, unsigned num, unsigned den) { return vh_below(r, den) < num; }
uint64_t vh_mix(uint64_t x);            /* splitmix finaliser, for hashing */

/* ---- units ---- */
typedef void (*vh_unit_fn)(uint64_t idx, void *arg);
/* Run fn(idx,arg) as unit "<gen>:<idx>" in a forked child, if this shard owns
 * it (and it passes the --unit filter). */
void vh_unit(const char *gen, uint64_t idx, vh_unit_fn fn, void *arg);
/* seed derived from VERIF_SEED, generator name and index */
void vh_unit_rng(vh_rng *r, const char *gen, uint64_t idx);

/* ---- case announcement (cheap; lives in shared memory) ---- */
typedef struct vh_shared vh_shared;
extern vh_shared *vh;
void vh_case_tag(const char *tag);              /* optional short tag */
#define VH_NCUR 8
extern volatile uint64_t *vh_cur;               /* VH_NCUR case fields */
extern volatile uint64_t *vh_ncases;
#define VH_CASE2(a,b)       do { vh_cur[0]=(uint64_t)(a); vh_cur[1]=(uint64_t)(b); (*vh_ncases)++; } while (0)
#define VH_CASE4(a,b,c,d)   do { vh_cur[0]=(uint64_t)(a); vh_cur[1]=(uint64_t)(b); vh_cur[2]=(uint64_t)(c); vh_cur[3]=(uint64_t)(d); (*vh_ncases)++; } while (0)
#define VH_SUB(i,v)         do { vh_cur[i]=(uint64_t)(v); } while (0)

/* ---- observations ---- */
int  vh_counter_id(const char *name);
extern volatile uint64_t *vh_counters;
#define VH_COUNT(name) do { static int vh__id = -1; if (vh__id < 0) vh__id = vh_counter_id(name); vh_counters[vh__id]++; } while (0)
#define VH_COUNTN(name,n) do { static int vh__id = -1; if (vh__id < 0) vh__id = vh_counter_id(name); vh_counters[vh__id] += (uint64_t)(n); } while (0)
void vh_countf(const char *fmt, ...) __attribute__((format(printf,1,2)));
void vh_sig(uint64_t signature);                /* distinct non-trivial case signature */
/* emit a sample for class cls unless two were already emitted */
int  vh_sample_wanted(const char *cls);
void vh_sample(const char *cls, const char *fmt, ...) __attribute__((format(printf,2,3)));
/* classes the merged run must have seen (>0) or the run is inconclusive */
void vh_require(const char *counter_name);

/* ---- verdicts ---- */
/* Oracle disagreement. check: short name of the assertion; key: flat
 * "field=value field=value" witness record used for known-findings matching;
 * the rest is a free-form message. Execution continues. */
void vh_fail(const char *check, const char *key, const char *fmt, ...) __attribute__((format(printf,3,4)));
extern volatile uint64_t *vh_nfail;
/* harness-internal inconsistency: inconclusive, not a violation */
void vh_broken(const char *fmt, ...) __attribute__((format(printf,1,2)));

/* ---- poisoned arena ---- */
/* Objects are carved 8-aligned out of one big poisoned block; only
 * [p, p+n) is addressable, so any access outside - at whatever distance
 * inside the arena - is an ASan use-after-poison report. */
void *vh_arena(size_t n);                       /* contents 0xA5 */
void *vh_arena_copy(const void *src, size_t n);
void  vh_arena_reset(void);
void  vh_poison(const void *p, size_t n);
void  vh_unpoison(const void *p, size_t n);
void  vh_mark_uninit(const void *p, size_t n); /* MSan: content is uninitialised; elsewhere: nothing */
int   vh_have_asan(void);

/* ---- misc ---- */
const char *vh_hex(const void *p, size_t n);    /* rotating static buffers */
uint64_t vh_hash(const void *p, size_t n);

/* harness entry: defined by each harness */
void harness_run(void);
extern const char *harness_name;

#endif
