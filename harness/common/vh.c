/* vh.c - common layer of the ufw verification harnesses (see vh.h). */
#define _GNU_SOURCE
#include "vh.h"

#include <errno.h>
#include <fcntl.h>
#include <signal.h>
#include <sys/mman.h>
#include <sys/stat.h>
#include <sys/types.h>
#include <sys/wait.h>
#include <time.h>
#include <unistd.h>

#if defined(__SANITIZE_ADDRESS__)
#define VH_ASAN 1
#elif defined(__has_feature)
#if __has_feature(address_sanitizer)
#define VH_ASAN 1
#endif
#endif

#if defined(__has_feature)
#if __has_feature(memory_sanitizer)
#define VH_MSAN 1
void __msan_poison(const volatile void *a, size_t size);
void __msan_unpoison(const volatile void *a, size_t size);
#endif
#endif

#ifdef VH_GCOV
void __gcov_dump(void);
#endif

#if !defined(VH_ASAN) && !defined(VH_MSAN)
/* builds without a sanitizer runtime (coverage build): the allocation ledger is not available */
size_t __sanitizer_get_current_allocated_bytes(void);
size_t
__sanitizer_get_current_allocated_bytes(void)
{
    return 0;
}
#endif

#ifdef VH_ASAN
void __asan_poison_memory_region(void const volatile *addr, size_t size);
void __asan_unpoison_memory_region(void const volatile *addr, size_t size);
#endif

#define VH_MAXCOUNTERS 4096
#define VH_NAMELEN 96
#define VH_SIGCAP (1u << 19)
#define VH_MAXVIOL 512
#define VH_MAXSAMPLECLS 256
#define VH_MAXREQ 256

struct vh_shared {
    uint64_t cur[VH_NCUR];
    char tag[96];
    uint64_t ncases;
    uint64_t nfail;
    uint64_t nbroken;
    uint64_t counters[VH_MAXCOUNTERS];
    char cname[VH_MAXCOUNTERS][VH_NAMELEN];
    int ncounters;
    uint64_t nsig;
    int sig_overflow;
    uint64_t sigtab[VH_SIGCAP];
    struct {
        char check[48];
        char key[208];
        uint64_t count;
    } viol[VH_MAXVIOL];
    int nviol;
    struct {
        char cls[VH_NAMELEN];
        int n;
    } samp[VH_MAXSAMPLECLS];
    int nsamp;
    char req[VH_MAXREQ][VH_NAMELEN];
    int nreq;
};

vh_shared *vh;
volatile uint64_t *vh_cur;
volatile uint64_t *vh_ncases;
volatile uint64_t *vh_counters;
volatile uint64_t *vh_nfail;

int vh_tier = 0;
uint64_t vh_seed0 = 1;
int vh_shard = 0, vh_nshards = 1;
int vh_verbose = 0;
int vh_slice = 1;
uint64_t vh_unit_salt;
int vh_light = 0;

static const char *opt_out = ".";
static const char *opt_unit = NULL; /* "gen:idx" filter */
static int opt_unit_timeout = 300;
static int opt_nofork = 0;
static uint64_t unit_seq = 0;
static uint64_t units_run = 0;
static char cur_unit[160];

/* ------------------------------------------------------------------ */

static void
emit(const char *fmt, ...)
{
    char buf[4000];
    va_list ap;
    va_start(ap, fmt);
    int n = vsnprintf(buf, sizeof(buf) - 2, fmt, ap);
    va_end(ap);
    if (n < 0)
        return;
    if ((size_t)n > sizeof(buf) - 2)
        n = sizeof(buf) - 2;
    buf[n++] = '\n';
    ssize_t w = write(1, buf, (size_t)n);
    (void)w;
}

static const char *
jesc(const char *s, char *out, size_t outsz)
{
    size_t o = 0;
    for (; *s && o + 8 < outsz; s++) {
        unsigned char c = (unsigned char)*s;
        if (c == '"' || c == '\\') {
            out[o++] = '\\';
            out[o++] = (char)c;
        } else if (c < 0x20 || c >= 0x7f) {
            o += (size_t)snprintf(out + o, outsz - o, "\\u%04x", c);
        } else {
            out[o++] = (char)c;
        }
    }
    out[o] = 0;
    return out;
}

/* ------------------------------------------------------------------ */

uint64_t
vh_mix(uint64_t x)
{
    x += 0x9e3779b97f4a7c15ull;
    x = (x ^ (x >> 30)) * 0xbf58476d1ce4e5b9ull;
    x = (x ^ (x >> 27)) * 0x94d049bb133111ebull;
    return x ^ (x >> 31);
}

void
vh_rng_seed(vh_rng *r, uint64_t a, uint64_t b)
{
    uint64_t x = vh_mix(a) ^ vh_mix(b * 0x2545f4914f6cdd1dull + 1);
    for (int i = 0; i < 4; i++) {
        x = vh_mix(x + (uint64_t)i);
        r->s[i] = x;
    }
    if (!(r->s[0] | r->s[1] | r->s[2] | r->s[3]))
        r->s[0] = 1;
}

static inline uint64_t
rotl(uint64_t x, int k)
{
    return (x << k) | (x >> (64 - k));
}

/* A generator can be bound to an octet string instead of a seed: every draw then consumes the next eight
 * octets (zero once the string is used up). Coverage-guided targets use this to let the fuzzer mutate the
 * "random" choices of an existing workload. */
#define VH_STREAM_MAGIC 0x53545245414d2121ull
static const unsigned char *stream_p;
static size_t stream_n, stream_pos;

void
vh_rng_stream(vh_rng *r, const unsigned char *p, size_t n)
{
    r->s[0] = VH_STREAM_MAGIC;
    r->s[1] = ~VH_STREAM_MAGIC;
    r->s[2] = r->s[3] = 0;
    stream_p = p;
    stream_n = n;
    stream_pos = 0;
}

size_t
vh_rng_stream_left(void)
{
    return stream_n - stream_pos;
}

uint64_t
vh_rand(vh_rng *r)
{
    if (r->s[0] == VH_STREAM_MAGIC && r->s[1] == ~VH_STREAM_MAGIC) {
        uint64_t v = 0;
        for (int i = 0; i < 8 && stream_pos < stream_n; i++)
            v |= (uint64_t)stream_p[stream_pos++] << (8 * i);
        return v;
    }
    uint64_t *s = r->s;
    const uint64_t result = rotl(s[1] * 5, 7) * 9;
    const uint64_t t = s[1] << 17;
    s[2] ^= s[0];
    s[3] ^= s[1];
    s[1] ^= s[2];
    s[0] ^= s[3];
    s[2] ^= t;
    s[3] = rotl(s[3], 45);
    return result;
}

uint64_t
vh_hash(const void *p, size_t n)
{
    const unsigned char *c = p;
    uint64_t h = 0xcbf29ce484222325ull;
    for (size_t i = 0; i < n; i++) {
        h ^= c[i];
        h *= 0x100000001b3ull;
    }
    return vh_mix(h);
}

void
vh_unit_rng(vh_rng *r, const char *gen, uint64_t idx)
{
    vh_rng_seed(r, vh_seed0 ^ vh_hash(gen, strlen(gen)), idx);
}

const char *
vh_hex(const void *p, size_t n)
{
    static char bufs[6][520];
    static int rot = 0;
    char *b = bufs[rot];
    rot = (rot + 1) % 6;
    const unsigned char *c = p;
    size_t o = 0;
    size_t lim = n > 250 ? 250 : n;
    for (size_t i = 0; i < lim; i++)
        o += (size_t)snprintf(b + o, 520 - o, "%02x", c[i]);
    if (lim < n)
        snprintf(b + o, 520 - o, "...");
    if (n == 0)
        b[0] = 0;
    return b;
}

/* ------------------------------------------------------------------ */

int
vh_counter_id(const char *name)
{
    for (int i = 0; i < vh->ncounters; i++)
        if (strncmp(vh->cname[i], name, VH_NAMELEN - 1) == 0)
            return i;
    if (vh->ncounters >= VH_MAXCOUNTERS - 1) {
        /* overflow bucket */
        return VH_MAXCOUNTERS - 1;
    }
    int id = vh->ncounters++;
    snprintf(vh->cname[id], VH_NAMELEN, "%s", name);
    return id;
}

void
vh_countf(const char *fmt, ...)
{
    char name[VH_NAMELEN];
    va_list ap;
    va_start(ap, fmt);
    vsnprintf(name, sizeof name, fmt, ap);
    va_end(ap);
    vh_counters[vh_counter_id(name)]++;
}

void
vh_sig(uint64_t sig)
{
    uint64_t h = vh_mix(sig) | 1; /* never 0 */
    uint32_t i = (uint32_t)(h >> 20) & (VH_SIGCAP - 1);
    for (unsigned probe = 0; probe < VH_SIGCAP; probe++) {
        uint64_t v = vh->sigtab[i];
        if (v == h)
            return;
        if (v == 0) {
            if (vh->nsig >= (VH_SIGCAP / 4) * 3) {
                vh->sig_overflow = 1;
                return;
            }
            vh->sigtab[i] = h;
            vh->nsig++;
            return;
        }
        i = (i + 1) & (VH_SIGCAP - 1);
    }
}

int
vh_sample_wanted(const char *cls)
{
    for (int i = 0; i < vh->nsamp; i++)
        if (strncmp(vh->samp[i].cls, cls, VH_NAMELEN - 1) == 0)
            return vh->samp[i].n < 2;
    return vh->nsamp < VH_MAXSAMPLECLS;
}

void
vh_sample(const char *cls, const char *fmt, ...)
{
    int i;
    for (i = 0; i < vh->nsamp; i++)
        if (strncmp(vh->samp[i].cls, cls, VH_NAMELEN - 1) == 0)
            break;
    if (i == vh->nsamp) {
        if (vh->nsamp >= VH_MAXSAMPLECLS)
            return;
        snprintf(vh->samp[i].cls, VH_NAMELEN, "%s", cls);
        vh->samp[i].n = 0;
        vh->nsamp++;
    }
    if (vh->samp[i].n >= 2)
        return;
    vh->samp[i].n++;
    char msg[1500], e1[3200], e2[300];
    va_list ap;
    va_start(ap, fmt);
    vsnprintf(msg, sizeof msg, fmt, ap);
    va_end(ap);
    emit("{\"t\":\"sample\",\"cls\":\"%s\",\"unit\":\"%s\",\"s\":\"%s\"}",
         jesc(cls, e2, sizeof e2), cur_unit, jesc(msg, e1, sizeof e1));
}

void
vh_require(const char *name)
{
    for (int i = 0; i < vh->nreq; i++)
        if (strcmp(vh->req[i], name) == 0)
            return;
    if (vh->nreq < VH_MAXREQ)
        snprintf(vh->req[vh->nreq++], VH_NAMELEN, "%s", name);
}

void
vh_case_tag(const char *tag)
{
    snprintf(vh->tag, sizeof vh->tag, "%s", tag);
}

#ifdef VH_FUZZ
/* libFuzzer mode: an oracle disagreement is a crash with the witness record on stderr */
void
vh_fail(const char *check, const char *key, const char *fmt, ...)
{
    char msg[1800];
    va_list ap;
    va_start(ap, fmt);
    vsnprintf(msg, sizeof msg, fmt, ap);
    va_end(ap);
    fprintf(stderr, "VH-VIOLATION check=%s key=%s msg=%s\n", check, key, msg);
    fflush(stderr);
    abort();
}
#else
void
vh_fail(const char *check, const char *key, const char *fmt, ...)
{
    vh->nfail++;
    int i;
    for (i = 0; i < vh->nviol; i++)
        if (strcmp(vh->viol[i].check, check) == 0
            && strncmp(vh->viol[i].key, key, sizeof(vh->viol[i].key) - 1) == 0)
            break;
    if (i == vh->nviol) {
        if (vh->nviol >= VH_MAXVIOL) {
            i = VH_MAXVIOL - 1;
        } else {
            snprintf(vh->viol[i].check, sizeof vh->viol[i].check, "%s", check);
            snprintf(vh->viol[i].key, sizeof vh->viol[i].key, "%s", key);
            vh->viol[i].count = 0;
            vh->nviol++;
        }
    }
    vh->viol[i].count++;
    if (vh->viol[i].count > 3 && !vh_verbose)
        return;
    char msg[1800], e1[3000], e2[500], e3[200], e4[300];
    va_list ap;
    va_start(ap, fmt);
    vsnprintf(msg, sizeof msg, fmt, ap);
    va_end(ap);
    emit("{\"t\":\"viol\",\"check\":\"%s\",\"key\":\"%s\",\"unit\":\"%s\","
         "\"case\":[%" PRIu64 ",%" PRIu64 ",%" PRIu64 ",%" PRIu64 ",%" PRIu64 ",%" PRIu64 ",%" PRIu64 ",%" PRIu64 "],"
         "\"tag\":\"%s\",\"msg\":\"%s\"}",
         jesc(check, e3, sizeof e3), jesc(key, e2, sizeof e2), cur_unit,
         vh->cur[0], vh->cur[1], vh->cur[2], vh->cur[3], vh->cur[4], vh->cur[5], vh->cur[6], vh->cur[7],
         jesc(vh->tag, e4, sizeof e4), jesc(msg, e1, sizeof e1));
}

#endif /* VH_FUZZ */

void
vh_broken(const char *fmt, ...)
{
    vh->nbroken++;
    char msg[1500], e1[3200];
    va_list ap;
    va_start(ap, fmt);
    vsnprintf(msg, sizeof msg, fmt, ap);
    va_end(ap);
    emit("{\"t\":\"broken\",\"unit\":\"%s\",\"msg\":\"%s\"}", cur_unit, jesc(msg, e1, sizeof e1));
}

/* ------------------------------------------------------------------ */
/* poisoned arena */

#define ARENA_SIZE (8u << 20)
#define ARENA_GAP 32u
static unsigned char *arena;
static size_t arena_pos;

int
vh_have_asan(void)
{
#ifdef VH_ASAN
    return 1;
#else
    return 0;
#endif
}

void
vh_poison(const void *p, size_t n)
{
#ifdef VH_ASAN
    __asan_poison_memory_region(p, n);
#elif defined(VH_MSAN)
    __msan_poison(p, n);
#else
    (void)p;
    (void)n;
#endif
}

/* memory that is accessible but whose content nobody has written yet: MemorySanitizer is told so, the other
 * builds leave it as it is */
void
vh_mark_uninit(const void *p, size_t n)
{
#ifdef VH_MSAN
    __msan_poison(p, n);
#else
    (void)p;
    (void)n;
#endif
}

void
vh_unpoison(const void *p, size_t n)
{
#ifdef VH_ASAN
    __asan_unpoison_memory_region(p, n);
#elif defined(VH_MSAN)
    __msan_unpoison(p, n);
#else
    (void)p;
    (void)n;
#endif
}

static void
arena_init(void)
{
    void *p = NULL;
    if (posix_memalign(&p, 4096, ARENA_SIZE) != 0 || p == NULL) {
        emit("{\"t\":\"broken\",\"msg\":\"arena allocation failed\"}");
        _exit(3);
    }
    arena = p;
    memset(arena, 0xEE, ARENA_SIZE);
    vh_poison(arena, ARENA_SIZE);
    arena_pos = ARENA_GAP;
}

void
vh_arena_reset(void)
{
    if (arena == NULL)
        arena_init();
    if (arena_pos > ARENA_GAP) {
        vh_unpoison(arena, arena_pos);
        memset(arena, 0xEE, arena_pos);
        vh_poison(arena, arena_pos);
    }
    arena_pos = ARENA_GAP;
}

void *
vh_arena(size_t n)
{
    if (arena == NULL)
        arena_init();
    size_t start = (arena_pos + 7u) & ~(size_t)7u;
    size_t end = start + n;
    if (end + ARENA_GAP > ARENA_SIZE) {
        vh_broken("arena exhausted (%zu requested at %zu)", n, start);
        _exit(3);
    }
    arena_pos = ((end + 7u) & ~(size_t)7u) + ARENA_GAP;
    vh_unpoison(arena + start, n);
    memset(arena + start, 0xA5, n);
    return arena + start;
}

void *
vh_arena_copy(const void *src, size_t n)
{
    void *p = vh_arena(n);
    if (n)
        memcpy(p, src, n);
    return p;
}

/* ------------------------------------------------------------------ */

#ifdef VH_ASAN
void __asan_on_error(void);
void
__asan_on_error(void)
{
    char buf[400];
    int n = snprintf(buf, sizeof buf,
                     "VH-WITNESS unit=%s case=%" PRIu64 ",%" PRIu64 ",%" PRIu64 ",%" PRIu64 ",%" PRIu64 ",%" PRIu64 " tag=%s\n",
                     cur_unit, vh->cur[0], vh->cur[1], vh->cur[2], vh->cur[3], vh->cur[4], vh->cur[5], vh->tag);
    ssize_t w = write(2, buf, (size_t)n);
    (void)w;
}
#endif

static int
owns(uint64_t seq)
{
    /* slices are picked by hash so that they do not line up with how a harness encodes options in the index */
    if (vh_slice > 1 && (vh_mix(seq * 0x9e3779b97f4a7c15ull) % (uint64_t)vh_slice) != 0)
        return 0;
    return (int)(seq % (uint64_t)vh_nshards) == vh_shard;
}

void
vh_unit(const char *gen, uint64_t idx, vh_unit_fn fn, void *arg)
{
    uint64_t seq = unit_seq++;
    char name[160];
    snprintf(name, sizeof name, "%s:%" PRIu64, gen, idx);
    if (opt_unit) {
        if (strcmp(opt_unit, name) != 0)
            return;
    } else if (!owns(seq)) {
        return;
    }
    snprintf(cur_unit, sizeof cur_unit, "%s", name);
    /* (seq and idx are often equal - one generator enumerated in order - so they must not simply cancel out) */
    vh_unit_salt = vh_mix(vh_mix(seq + 0x51edull) ^ vh_seed0 ^ (idx * 0x9e3779b97f4a7c15ull));
    memset(vh->cur, 0, sizeof vh->cur);
    vh->tag[0] = 0;
    units_run++;

    if (opt_nofork) {
        fn(idx, arg);
        return;
    }

    char errpath[512];
    snprintf(errpath, sizeof errpath, "%s/err.%d.%" PRIu64, opt_out, vh_shard, seq);
    pid_t pid = fork();
    if (pid < 0) {
        emit("{\"t\":\"broken\",\"msg\":\"fork failed: %s\"}", strerror(errno));
        _exit(3);
    }
    if (pid == 0) {
        int fd = open(errpath, O_WRONLY | O_CREAT | O_TRUNC, 0644);
        if (fd >= 0) {
            dup2(fd, 2);
            close(fd);
        }
        alarm((unsigned)opt_unit_timeout);
        fn(idx, arg);
#ifdef VH_GCOV
        __gcov_dump();
#endif
        _exit(0);
    }
    int st = 0;
    while (waitpid(pid, &st, 0) < 0 && errno == EINTR) {
    }
    if (WIFEXITED(st) && WEXITSTATUS(st) == 0) {
        struct stat sb;
        if (stat(errpath, &sb) == 0 && sb.st_size == 0)
            unlink(errpath);
        return;
    }
    char e4[300];
    int sig = WIFSIGNALED(st) ? WTERMSIG(st) : 0;
    int code = WIFEXITED(st) ? WEXITSTATUS(st) : -1;
    emit("{\"t\":\"%s\",\"unit\":\"%s\",\"sig\":%d,\"exit\":%d,"
         "\"case\":[%" PRIu64 ",%" PRIu64 ",%" PRIu64 ",%" PRIu64 ",%" PRIu64 ",%" PRIu64 ",%" PRIu64 ",%" PRIu64 "],"
         "\"tag\":\"%s\",\"errfile\":\"%s\"}",
         sig == SIGALRM ? "timeout" : (code == 3 ? "broken" : "crash"), name, sig, code,
         vh->cur[0], vh->cur[1], vh->cur[2], vh->cur[3], vh->cur[4], vh->cur[5], vh->cur[6], vh->cur[7],
         jesc(vh->tag, e4, sizeof e4), errpath);
}

#ifdef VH_FUZZ
__attribute__((constructor)) static void
vh_fuzz_init(void)
{
    vh = mmap(NULL, sizeof(*vh), PROT_READ | PROT_WRITE, MAP_PRIVATE | MAP_ANONYMOUS, -1, 0);
    if (vh == MAP_FAILED)
        abort();
    vh_cur = vh->cur;
    vh_ncases = &vh->ncases;
    vh_counters = vh->counters;
    vh_nfail = &vh->nfail;
}
#else
static void
usage(void)
{
    fprintf(stderr, "usage: harness [--tier quick|thorough] [--shard i/n] [--out dir] [--unit gen:idx]\n"
                    "               [--verbose] [--slice k] [--unit-timeout s] [--nofork] [--seed n]\n");
    exit(3);
}

int
main(int argc, char **argv)
{
    const char *es = getenv("VERIF_SEED");
    if (es && *es)
        vh_seed0 = strtoull(es, NULL, 0);
    for (int i = 1; i < argc; i++) {
        if (!strcmp(argv[i], "--tier") && i + 1 < argc) {
            i++;
            vh_tier = !strcmp(argv[i], "thorough");
        } else if (!strcmp(argv[i], "--shard") && i + 1 < argc) {
            i++;
            if (sscanf(argv[i], "%d/%d", &vh_shard, &vh_nshards) != 2 || vh_nshards < 1 || vh_shard < 0
                || vh_shard >= vh_nshards)
                usage();
        } else if (!strcmp(argv[i], "--out") && i + 1 < argc) {
            opt_out = argv[++i];
        } else if (!strcmp(argv[i], "--unit") && i + 1 < argc) {
            opt_unit = argv[++i];
        } else if (!strcmp(argv[i], "--verbose")) {
            vh_verbose = 1;
        } else if (!strcmp(argv[i], "--light")) {
            vh_light = 1;
        } else if (!strcmp(argv[i], "--nofork")) {
            opt_nofork = 1;
        } else if (!strcmp(argv[i], "--slice") && i + 1 < argc) {
            vh_slice = atoi(argv[++i]);
            if (vh_slice < 1)
                usage();
        } else if (!strcmp(argv[i], "--unit-timeout") && i + 1 < argc) {
            opt_unit_timeout = atoi(argv[++i]);
        } else if (!strcmp(argv[i], "--seed") && i + 1 < argc) {
            vh_seed0 = strtoull(argv[++i], NULL, 0);
        } else {
            usage();
        }
    }
    vh = mmap(NULL, sizeof(*vh), PROT_READ | PROT_WRITE, MAP_SHARED | MAP_ANONYMOUS, -1, 0);
    if (vh == MAP_FAILED) {
        perror("mmap");
        return 3;
    }
    vh_cur = vh->cur;
    vh_ncases = &vh->ncases;
    vh_counters = vh->counters;
    vh_nfail = &vh->nfail;
    snprintf(vh->cname[VH_MAXCOUNTERS - 1], VH_NAMELEN, "(counter table overflow)");

    struct timespec t0, t1;
    clock_gettime(CLOCK_MONOTONIC, &t0);
    emit("{\"t\":\"start\",\"harness\":\"%s\",\"tier\":\"%s\",\"seed\":%" PRIu64 ",\"shard\":%d,\"nshards\":%d,\"asan\":%d}",
         harness_name, vh_tier ? "thorough" : "quick", vh_seed0, vh_shard, vh_nshards, vh_have_asan());

    harness_run();

    clock_gettime(CLOCK_MONOTONIC, &t1);
    char e1[300], e2[500];
    for (int i = 0; i < vh->ncounters; i++)
        if (vh->counters[i])
            emit("{\"t\":\"count\",\"name\":\"%s\",\"n\":%" PRIu64 "}", jesc(vh->cname[i], e1, sizeof e1),
                 vh->counters[i]);
    if (vh->counters[VH_MAXCOUNTERS - 1])
        emit("{\"t\":\"broken\",\"msg\":\"counter table overflow\"}");
    for (int i = 0; i < vh->nreq; i++)
        emit("{\"t\":\"require\",\"name\":\"%s\"}", jesc(vh->req[i], e1, sizeof e1));
    for (int i = 0; i < vh->nviol; i++)
        emit("{\"t\":\"violsum\",\"check\":\"%s\",\"key\":\"%s\",\"n\":%" PRIu64 "}",
             jesc(vh->viol[i].check, e1, sizeof e1), jesc(vh->viol[i].key, e2, sizeof e2), vh->viol[i].count);
    /* signatures */
    char sp[512];
    snprintf(sp, sizeof sp, "%s/sig.%d", opt_out, vh_shard);
    FILE *f = fopen(sp, "wb");
    if (f) {
        for (uint32_t i = 0; i < VH_SIGCAP; i++)
            if (vh->sigtab[i])
                fwrite(&vh->sigtab[i], 8, 1, f);
        fclose(f);
    }
    emit("{\"t\":\"done\",\"units\":%" PRIu64 ",\"cases\":%" PRIu64 ",\"fails\":%" PRIu64 ",\"broken\":%" PRIu64
         ",\"nsig\":%" PRIu64 ",\"sig_overflow\":%d,\"sigfile\":\"%s\",\"wall_s\":%.3f}",
         units_run, vh->ncases, vh->nfail, vh->nbroken, vh->nsig, vh->sig_overflow, sp,
         (double)(t1.tv_sec - t0.tv_sec) + (double)(t1.tv_nsec - t0.tv_nsec) / 1e9);
    return 0;
}
#endif /* VH_FUZZ */
