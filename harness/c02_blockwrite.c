/* C02 - block writes are validated as a whole and are all-or-nothing.
 *
 * For generated tables: every (address, length) window around the areas,
 * with word patterns aimed at each overlapped register's constraint
 * boundary, issued in sequence so that content evolves. Oracle: the flat
 * model of rt_common.h computes the set of applicable failures (class +
 * first address) and the exact post-image. */
#include "rt_common.h"

const char *harness_name = "c02_blockwrite";

static struct rt_inst inst;
static RegisterAtom *bufs[64];
static uint64_t nwrites;

struct fail {
    int code;
    uint32_t addr;
};

static const char *
shape_of(const struct rt_reg *r, uint32_t addr, uint32_t n)
{
    uint32_t rend = r->addr + rt_tsize[r->type]; /* exclusive */
    uint32_t bend = addr + n;
    int starts_inside = addr > r->addr, ends_inside = bend < rend;
    return starts_inside && ends_inside ? "interior" : starts_inside ? "tail" : ends_inside ? "head" : "full";
}

/* out-of-band: give every register a value that satisfies its constraint (its default) */
static void
make_content_valid(void)
{
    for (int i = 0; i < inst.d.nregs; i++) {
        const struct rt_reg *r = &inst.d.reg[i];
        unsigned char *mw = rt_model_word(&inst, r->addr);
        rt_encode(r->type, inst.d.bigendian, rt_bits(r->type, r->def), mw);
    }
    for (int a = 0; a < inst.d.nareas; a++)
        memcpy(inst.store[a], inst.model[a], 2 * (size_t)inst.d.area[a].size);
}

static void
one_write(uint32_t addr, uint32_t n, const unsigned char *words, const char *pat)
{
    const struct rt_desc *d = &inst.d;
    struct fail app[8];
    int napp = 0;
    const struct rt_reg *firstbad = NULL;
    /* unmapped / read-only: first address each */
    int seen_unmapped = 0, seen_ro = 0;
    /* the whole table spans far less than 200 words: whatever a longer request adds is unmapped */
    for (uint32_t k = 0; k < n && k < 200 && (uint64_t)addr + k <= 0xffffffffull; k++) {
        int ai = rt_area_of(d, addr + k);
        if (ai < 0) {
            if (!seen_unmapped) {
                app[napp++] = (struct fail){ REG_ACCESS_NOENTRY, addr + k };
                seen_unmapped = 1;
            }
        } else if (!rt_area_writable(&d->area[ai])) {
            if (!seen_ro) {
                app[napp++] = (struct fail){ REG_ACCESS_READONLY, addr + k };
                seen_ro = 1;
            }
        }
    }
    /* registers in ascending order: overlay and judge; only the first failing one counts */
    int overl[RT_MAXREGS], nover = 0;
    int unknowable = 0; /* a register in an area without read callback is overlaid only in part: what it would hold cannot be told */
    for (int i = 0; i < d->nregs && n > 0; i++) {
        const struct rt_reg *r = &d->reg[i];
        uint32_t rsz = rt_tsize[r->type];
        if ((uint64_t)r->addr + rsz <= addr || (uint64_t)addr + n <= r->addr)
            continue;
        overl[nover++] = i;
        if (firstbad)
            continue;
        {
            int rai = rt_area_of(d, r->addr);
            if (rai >= 0 && d->area[rai].noread && (r->addr < addr || (uint64_t)r->addr + rsz > (uint64_t)addr + n)) {
                app[napp++] = (struct fail){ REG_ACCESS_FAILURE, r->addr };
                firstbad = r;
                unknowable = 1;
                continue;
            }
        }
        unsigned char tmp[8];
        memcpy(tmp, rt_model_word(&inst, r->addr), 2 * rsz);
        for (uint32_t w = 0; w < rsz; w++) {
            uint32_t a = r->addr + w;
            if (a >= addr && a < (uint64_t)addr + n)
                memcpy(tmp + 2 * w, words + 2 * (a - addr), 2);
        }
        uint64_t bits = rt_decode(r->type, d->bigendian, tmp);
        uint32_t fa = r->addr > addr ? r->addr : addr;
        if (!rt_bits_valid(r->type, bits)) {
            app[napp++] = (struct fail){ REG_ACCESS_INVALID, fa };
            firstbad = r;
        } else if (!rt_satisfies(r, rt_from_bits(r->type, bits), 0)) {
            app[napp++] = (struct fail){ REG_ACCESS_RANGE, fa };
            firstbad = r;
        }
    }
    static RegisterAtom *bigbuf;
    RegisterAtom *buf;
    /* octets of the caller's buffer that exist: all of it, except for requests so long that they cannot be
     * backed by memory - those get an exact-size arena block of 256 words and must be refused (the table is
     * far shorter) without the library reading further */
    const size_t bn = n > 0x100000u ? 256 : n;
    if (n < 64) {
        buf = bufs[n];
    } else if (n > 0x100000u) {
        buf = vh_arena(2 * bn);
    } else {
        /* long requests: an ordinary heap buffer of exactly n words */
        free(bigbuf);
        bigbuf = malloc(2 * (size_t)n);
        buf = bigbuf;
    }
    memcpy(buf, words, 2 * bn);
    /* touched marks are sticky: on every other write they are taken back first, or a register marked by an earlier
     * write of the same unit would hide a mark this write fails to set (round 29) */
    if (nwrites & 1) {
        for (int i = 0; i < d->nregs; i++) {
            register_untouch(&inst.t, (RegisterHandle)i);
            inst.touched[i] = 0;
        }
        VH_COUNT("write after all touched marks were taken back");
    }
    const unsigned wcalls_before = inst.cb_writes;
    RegisterAccess a = register_block_write(&inst.t, addr, n, buf);
    nwrites++;
    char key[96], ctx[200];
    snprintf(ctx, sizeof ctx, "table{%.90s} write(addr=%u,n=%u,pattern=%s) words=%s", rt_describe(d), addr, n, pat,
             vh_hex(words, 2 * bn > 24 ? 24 : 2 * bn));
    if (memcmp(buf, words, 2 * bn) != 0)
        vh_fail("caller-buffer-modified", "part=buffer", "%s", ctx);
    if (napp == 0) {
        VH_COUNT("outcome: success");
        for (int k = 0; k < nover; k++)
            vh_countf("success overlap: %s", shape_of(&d->reg[overl[k]], addr, n));
        snprintf(key, sizeof key, "expected=success");
        if (a.code != REG_ACCESS_SUCCESS) {
            vh_fail("valid-write-refused", key, "%s: code=%d address=%u", ctx, a.code, a.address);
        } else {
            for (uint32_t k = 0; k < n; k++)
                memcpy(rt_model_word(&inst, addr + k), words + 2 * k, 2);
            for (int k = 0; k < nover; k++)
                inst.touched[overl[k]] = 1;
        }
    } else {
        int matched = 0;
        for (int k = 0; k < napp; k++)
            if ((int)a.code == app[k].code && a.address == app[k].addr)
                matched = 1;
        if (unknowable && a.code != REG_ACCESS_SUCCESS) {
            matched = 1; /* which class and address such a refusal carries is not stated */
            VH_COUNT("partial overlay of a register whose area cannot be read (refused)");
        }
        const char *cls = app[0].code == REG_ACCESS_NOENTRY ? "unmapped" : app[0].code == REG_ACCESS_READONLY
                          ? "read-only" : app[0].code == REG_ACCESS_INVALID ? "invalid" : "out-of-range";
        vh_countf("outcome: %s", napp > 1 ? "several failure classes apply" : cls);
        if (firstbad)
            vh_countf("failing register overlap: %s %s", shape_of(firstbad, addr, n),
                      app[napp - 1].code == REG_ACCESS_INVALID ? "invalid" : "out-of-range");
        snprintf(key, sizeof key, "expected=%s%s%s", cls, firstbad ? " overlap=" : "",
                 firstbad ? shape_of(firstbad, addr, n) : "");
        if (a.code == REG_ACCESS_SUCCESS) {
            vh_fail("invalid-write-accepted", key, "%s: first applicable failure code=%d address=%u", ctx, app[0].code,
                    app[0].addr);
        } else if (!matched) {
            char exp[120];
            size_t o = 0;
            for (int k = 0; k < napp; k++)
                o += (size_t)snprintf(exp + o, sizeof exp - o, " (%d,%u)", app[k].code, app[k].addr);
            vh_fail("wrong-class-or-address", key, "%s: code=%d address=%u, applicable:%s", ctx, a.code, a.address, exp);
        }
    }
    if (!rt_compare_storage(&inst, napp ? "refused-write-changes-table" : "write-image", key, ctx))
        rt_sync_model_from_storage(&inst);
    /* a refused block write has not written any device behind a callback, not even words it would take back */
    if (a.code != REG_ACCESS_SUCCESS && inst.cb_writes != wcalls_before)
        vh_fail("refused-write-writes-device", key, "%s: code=%d, yet write callbacks were called %u times", ctx, a.code,
                inst.cb_writes - wcalls_before);
    for (int i = 0; i < d->nregs; i++)
        if ((int)register_was_touched(&inst.t, (RegisterHandle)i) != inst.touched[i]) {
            vh_fail("touched-mark", key, "%s: register %d touched=%d model=%d", ctx, i,
                    (int)register_was_touched(&inst.t, (RegisterHandle)i), inst.touched[i]);
            inst.touched[i] = register_was_touched(&inst.t, (RegisterHandle)i);
        }
}

/* build the words of a request according to a pattern */
static void
make_words(vh_rng *rg, uint32_t addr, uint32_t n, int pattern, unsigned char *words)
{
    const struct rt_desc *d = &inst.d;
    /* start from current content (identity) or from random/ones/zeros */
    for (uint32_t k = 0; k < n; k++) {
        unsigned char *mw = rt_model_word(&inst, addr + k);
        if (pattern == 5)
            memset(words + 2 * k, 0xff, 2);
        else if (pattern == 6)
            memset(words + 2 * k, 0x00, 2);
        else if (pattern == 4 || mw == NULL) {
            words[2 * k] = (unsigned char)vh_rand(rg);
            words[2 * k + 1] = (unsigned char)vh_rand(rg);
        } else
            memcpy(words + 2 * k, mw, 2);
    }
    if (pattern == 0 || pattern >= 4)
        return;
    for (int i = 0; i < d->nregs; i++) {
        const struct rt_reg *r = &d->reg[i];
        uint32_t rsz = rt_tsize[r->type];
        if (r->addr + rsz <= addr || addr + n <= r->addr)
            continue;
        RegisterValueU target;
        uint64_t bits;
        if (pattern == 1) {
            /* a value the constraint accepts: a bound, the default */
            unsigned x = (unsigned)vh_below(rg, 3);
            target = x == 0 ? r->def : (r->ck == REGV_TYPE_MAX || (r->ck == REGV_TYPE_RANGE && x == 1)) ? r->hi : r->lo;
            if (r->ck == REGV_TYPE_TRIVIAL || r->ck == REGV_TYPE_CALLBACK || r->ck == REGV_TYPE_FAIL)
                target = x == 0 ? r->def : rt_pick_value(rg, r->type);
            bits = rt_bits(r->type, target);
        } else if (pattern == 2) {
            /* just beyond a bound */
            int up = r->ck == REGV_TYPE_MAX || (r->ck == REGV_TYPE_RANGE && vh_chance(rg, 1, 2));
            target = rt_neighbour(r->type, up ? r->hi : r->lo, up ? +1 : -1);
            if (r->ck == REGV_TYPE_CALLBACK)
                target = rt_from_bits(r->type, rt_bits(r->type, r->def) | 1u);
            bits = rt_bits(r->type, target);
        } else {
            /* an encoding floats refuse (for integers: random) */
            static const uint64_t bad32[] = { 0x7f800000, 0xff800000, 0x7fc00001, 0x00000001, 0x807fffff };
            static const uint64_t bad64[] = { 0x7ff0000000000000ull, 0xfff0000000000000ull, 0x7ff8000000000001ull,
                                              0x0000000000000001ull, 0x800fffffffffffffull };
            bits = r->type == REG_TYPE_FLOAT32 ? bad32[vh_below(rg, 5)] : r->type == REG_TYPE_FLOAT64
                   ? bad64[vh_below(rg, 5)] : vh_rand(rg);
        }
        unsigned char enc[8];
        rt_encode(r->type, d->bigendian, bits, enc);
        for (uint32_t w = 0; w < rsz; w++) {
            uint32_t a = r->addr + w;
            if (a >= addr && a < addr + n)
                memcpy(words + 2 * (a - addr), enc + 2 * w, 2);
        }
    }
}

static const char *patname[] = { "identity", "acceptable", "beyond-bound", "bad-float", "random", "ones", "zeros" };

static const struct rt_desc *forced_table; /* a description handed in by another unit */

static void
u_table(uint64_t idx, void *arg)
{
    (void)arg;
    vh_rng rg;
    vh_unit_rng(&rg, "table", idx);
    vh_arena_reset();
    struct rt_desc d;
    if (forced_table)
        d = *forced_table;
    else if (!rt_gen_curated(&rg, (unsigned)idx, &d, 1))
        rt_gen_wellformed(&rg, &d, 1);
    else
        VH_COUNT("curated layout");
    rt_build(&inst, &d);
    for (uint32_t n = 0; n < 64; n++)
        bufs[n] = vh_arena(2 * (size_t)n);
    VH_CASE4(idx, 0, 0, 0);
    RegisterInit ri = register_init(&inst.t);
    if (ri.code != REG_INIT_SUCCESS) {
        vh_fail("init-wellformed", "part=init", "table{%s}: code=%d pos=%u", rt_describe(&d), ri.code, ri.pos.entry);
        return;
    }
    rt_model_init(&inst);
    make_content_valid();
    if (idx & 1) {
        /* the table has a past: its storage was damaged out of band and sanitised (the outcome of that call is
         * not this property's business - on tables with always-fail registers or areas that cannot be written it
         * stops with an error), then put right out of band; block writes must be judged as on any other table */
        for (int i = 0; i < d.nregs; i++) {
            const struct rt_reg *r = &d.reg[i];
            if (!vh_chance(&rg, 2, 3))
                continue;
            /* just outside the constraint where there is one, anything otherwise */
            uint64_t bits = r->ck == REGV_TYPE_RANGE || r->ck == REGV_TYPE_MAX ? rt_bits(r->type, rt_neighbour(r->type, r->hi, +1))
                            : r->ck == REGV_TYPE_MIN ? rt_bits(r->type, rt_neighbour(r->type, r->lo, -1))
                            : vh_chance(&rg, 1, 2) ? ~0ull : vh_rand(&rg);
            rt_encode(r->type, d.bigendian, bits, rt_model_word(&inst, r->addr));
        }
        for (int a = 0; a < d.nareas; a++)
            memcpy(inst.store[a], inst.model[a], 2 * (size_t)d.area[a].size);
        RegisterAccess sa = register_sanitise(&inst.t);
        if (sa.code == REG_ACCESS_SUCCESS)
            VH_COUNT("table with a past: damaged, sanitise succeeded");
        else
            VH_COUNT("table with a past: damaged, sanitise stopped with an error");
        rt_sync_model_from_storage(&inst);
        make_content_valid();
        for (int i = 0; i < d.nregs; i++)
            inst.touched[i] = register_was_touched(&inst.t, (RegisterHandle)i);
    }
    uint32_t lo = d.area[0].base, hi = d.area[d.nareas - 1].base + d.area[d.nareas - 1].size;
    uint32_t span = hi - lo;
    uint32_t a0 = lo >= 2 ? lo - 2 : 0;
    nwrites = 0;
    static unsigned char words[128];
    for (uint32_t addr = a0; addr <= hi + 2; addr++) {
        /* now and then a float register holds something that does not decode (a device that reads back ffff, words
         * planted by the unchecked calls): what counts for a block that replaces part of it is the content AFTER
         * the overlay - such a write may be exactly what repairs the register */
        if ((addr & 3u) == 1u)
            for (int i = 0; i < d.nregs; i++) {
                const struct rt_reg *r = &d.reg[i];
                if (r->type < REG_TYPE_FLOAT32 || ((uint32_t)i + addr) % 3u)
                    continue;
                int ai = rt_area_of(&d, r->addr);
                if (ai < 0 || d.area[ai].noread)
                    continue;
                static const uint64_t bad32[] = { 0x7fc00000u, 0xff800000u, 0x00000001u, 0xffffffffu };
                static const uint64_t bad64[] = { 0x7ff8000000000000ull, 0xfff0000000000000ull, 0x0000000000000001ull, 0xffffffffffffffffull };
                uint64_t bits = r->type == REG_TYPE_FLOAT32 ? bad32[(addr >> 2) & 3u] : bad64[(addr >> 2) & 3u];
                rt_encode(r->type, d.bigendian, bits, rt_model_word(&inst, r->addr));
                memcpy(inst.store[ai] + (r->addr - d.area[ai].base), rt_model_word(&inst, r->addr), 2 * (size_t)rt_tsize[r->type]);
                VH_COUNT("float register holding undecodable content before a block write");
            }
        for (uint32_t n = 0; n <= span + 3 && n < 64; n++) {
            if (!vh_tier && n > 9 && !(addr + n >= hi) && !vh_chance(&rg, 1, 4))
                continue;
            for (int pat = 0; pat < 7; pat++) {
                if (n == 0 && pat > 0)
                    break;
                if (pat >= 4 && !vh_chance(&rg, 1, 3))
                    continue;
                VH_CASE4(idx, addr, n, pat);
                make_words(&rg, addr, n, pat, words);
                one_write(addr, n, words, patname[pat]);
            }
        }
    }
    /* requests much longer than the table (lengths beyond 255 and 65535 words): they leave the mapped range, so
     * they must be refused without any effect - at the first unmapped address, or for another applicable reason */
    {
        static const uint32_t longn[] = { 255, 256, 65535, 65536, 65537, 0x100000 };
        static unsigned char *lw;
        if (!lw)
            lw = calloc(0x100000, 2);
        for (size_t li = 0; li < 6; li++)
            for (int k = 0; k < 3; k++) {
                uint32_t addr = k == 0 ? lo : k == 1 ? (a0 + (uint32_t)vh_below(&rg, hi - a0 + 1)) : (d.nregs ? d.reg[d.nregs - 1].addr : lo);
                if ((uint64_t)addr + longn[li] > 0xffffffffull)
                    continue;
                for (uint32_t w = 0; w < 64; w++) {
                    unsigned char *mw = rt_model_word(&inst, addr + w);
                    if (mw)
                        memcpy(lw + 2 * w, mw, 2);
                    else
                        memset(lw + 2 * w, 0, 2);
                }
                VH_CASE4(idx, addr, longn[li], 9);
                one_write(addr, longn[li], lw, "long-request");
                VH_COUNT("block write much longer than the table");
            }
    }
    /* lengths that cannot be backed by memory, among them those for which address + length passes 2^32: the
     * first unmapped address at or above the start decides (skipped when the table is mapped all the way up
     * to the top of the address space from there, where the statement says nothing) */
    {
        static unsigned char *hw;
        if (!hw)
            hw = calloc(256, 2);
        for (int k = 0; k < 3; k++) {
            uint32_t addr = k == 0 ? lo : k == 1 ? (a0 + (uint32_t)vh_below(&rg, hi - a0 + 1)) : (d.nregs ? d.reg[d.nregs - 1].addr : lo);
            int hole = 0;
            for (uint32_t w = 0; w < 200 && (uint64_t)addr + w <= 0xffffffffull; w++)
                if (rt_area_of(&d, addr + w) < 0)
                    hole = 1;
            if (!hole)
                continue;
            const uint32_t hugen[] = { 0x100001u, 0x7fffffffu, 0x80000000u, 0xfffffff0u, 0xffffffffu,
                                       (uint32_t)(0u - addr), (uint32_t)(0u - addr) + 1u, (uint32_t)(0u - addr) - 1u,
                                       (uint32_t)(0u - addr) + 0x10000u };
            for (size_t li = 0; li < sizeof hugen / sizeof hugen[0]; li++) {
                if (hugen[li] <= 0x100000u)
                    continue;
                for (uint32_t w = 0; w < 256; w++) {
                    unsigned char *mw = (uint64_t)addr + w <= 0xffffffffull ? rt_model_word(&inst, addr + w) : NULL;
                    if (mw)
                        memcpy(hw + 2 * w, mw, 2);
                    else
                        memset(hw + 2 * w, 0, 2);
                }
                VH_CASE4(idx, addr, hugen[li], 10);
                one_write(addr, hugen[li], hw, "huge-request");
                if ((uint64_t)addr + hugen[li] > 0xffffffffull)
                    VH_COUNT("block write whose address + length passes 2^32");
                else
                    VH_COUNT("block write longer than any buffer");
            }
        }
    }
    vh_sig(0x02000000ull ^ idx);
    vh_countf("tables with %d areas", d.nareas);
    if (idx < 3)
        vh_sample("table", "table %" PRIu64 ": %s; %" PRIu64 " block writes over every (address,length) window",
                  idx, rt_describe(&d), nwrites);
}

/* a device area that can only be written (no read callback) with registers in it, next to a memory area: blocks that
 * replace such registers completely are judged like any other, blocks that would leave part of one as it is cannot
 * be validated and are refused */
static void
u_noread(uint64_t idx, void *arg)
{
    struct rt_desc d;
    vh_rng rg;
    vh_unit_rng(&rg, "noread", idx);
    memset(&d, 0, sizeof d);
    d.bigendian = (int)(idx & 1);
    d.nareas = 2;
    const int dev_first = (int)(idx >> 1) & 1;
    struct rt_area *mem = &d.area[dev_first ? 1 : 0], *dev = &d.area[dev_first ? 0 : 1];
    d.area[0].base = 0x200;
    d.area[0].size = dev_first ? 9 : 4;
    d.area[1].base = d.area[0].base + d.area[0].size;
    d.area[1].size = dev_first ? 4 : 9;
    mem->readable = mem->writeable = mem->has_write = 1;
    dev->readable = dev->writeable = dev->has_write = 1;
    dev->custom = 1;
    dev->noread = 1;
    /* registers: the device area gets u16, u32 with a minimum, u64, u16; the memory area u32, u16 */
    struct { int dev; int type; uint32_t off; int ck; } lay[] = {
        { 0, REG_TYPE_UINT32, 0, REGV_TYPE_TRIVIAL }, { 0, REG_TYPE_UINT16, 3, REGV_TYPE_TRIVIAL },
        { 1, REG_TYPE_UINT16, 0, REGV_TYPE_TRIVIAL }, { 1, REG_TYPE_UINT32, 1, REGV_TYPE_MIN },
        { 1, REG_TYPE_UINT64, 3, REGV_TYPE_TRIVIAL }, { 1, REG_TYPE_SINT16, 8, REGV_TYPE_MAX },
    };
    for (int pass = 0; pass < 2; pass++)
        for (size_t i = 0; i < sizeof lay / sizeof lay[0]; i++) {
            /* ascending addresses: the area that comes first goes first */
            if ((lay[i].dev == dev_first) != (pass == 0))
                continue;
            struct rt_reg *g = &d.reg[d.nregs++];
            memset(g, 0, sizeof *g);
            g->type = lay[i].type;
            g->addr = (lay[i].dev ? dev->base : mem->base) + lay[i].off;
            g->ck = lay[i].ck;
            if (g->ck == REGV_TYPE_MIN) {
                g->lo.u32 = 0x00010000u;
                g->def.u32 = 0x00020003u;
            } else if (g->ck == REGV_TYPE_MAX) {
                g->hi.s16 = 100;
                g->def.s16 = -5;
            } else {
                g->def = rt_from_bits(g->type, 0x1122334455667788ull);
            }
        }
    forced_table = &d;
    u_table(idx * 2, arg); /* even: no sanitise past (sanitise reads) */
    forced_table = NULL;
    VH_COUNT("table with a write-only device area");
}

void
harness_run(void)
{
    for (uint64_t i = 0; i < 4; i++)
        vh_unit("noread", i, u_noread, NULL);
    vh_require("table with a write-only device area");
    vh_require("partial overlay of a register whose area cannot be read (refused)");
    uint64_t ntables = vh_tier ? 60000 : 400;
    for (uint64_t i = 0; i < ntables; i++)
        vh_unit("table", i, u_table, NULL);
    static const char *req[] = { "outcome: success", "outcome: unmapped", "outcome: read-only", "outcome: invalid",
                                 "outcome: out-of-range", "outcome: several failure classes apply",
                                 "success overlap: full", "success overlap: head", "success overlap: tail",
                                 "success overlap: interior", "failing register overlap: full out-of-range",
                                 "failing register overlap: head out-of-range",
                                 "failing register overlap: tail out-of-range",
                                 "failing register overlap: interior out-of-range",
                                 "failing register overlap: head invalid", "failing register overlap: tail invalid",
                                 "failing register overlap: interior invalid",
                                 "tables with 1 areas", "tables with 2 areas", "tables with 3 areas",
                                 "block write much longer than the table",
                                 "block write whose address + length passes 2^32",
                                 "table with a past: damaged, sanitise stopped with an error" };
    for (size_t i = 0; i < sizeof req / sizeof req[0]; i++)
        vh_require(req[i]);
}
