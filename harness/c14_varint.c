/* C14 - varint coding is canonical, lossless and bounded.
 *
 * Oracle: reference LEB128 codec written here. Decoder inputs live in
 * exact-size poisoned-arena blocks so that the buffer ends at every
 * truncation point and any over-read is an ASan report. */
#include "common/vh.h"

#include <errno.h>
#include <sys/types.h>
#include <ufw/byte-buffer.h>
#include <ufw/endpoints.h>
#include <ufw/variable-length-integer.h>

const char *harness_name = "c14_varint";

/* ---- reference ---- */
static int
ref_encode(uint64_t v, unsigned char *out)
{
    int n = 0;
    do {
        unsigned char o = v & 0x7f;
        v >>= 7;
        if (v)
            o |= 0x80;
        out[n++] = o;
    } while (v);
    return n;
}

enum { R_OK, R_ILLEGAL, R_TRUNCATED };
/* verdict, value (mod 2^64), consumed count, and whether bits beyond `bits` were present */
static int
ref_decode(const unsigned char *s, size_t n, size_t max, int bits, uint64_t *val, size_t *used, int *overflow)
{
    uint64_t v = 0;
    *overflow = 0;
    for (size_t i = 0; i < max; i++) {
        if (i >= n)
            return R_TRUNCATED;
        uint64_t d = s[i] & 0x7f;
        if (7 * i < 64)
            v |= d << (7 * i);
        /* payload bits that do not fit the target width */
        for (int k = 0; k < 7; k++)
            if (((d >> k) & 1) && (int)(7 * i) + k >= bits)
                *overflow = 1;
        if (!(s[i] & 0x80)) {
            *val = bits == 32 ? (v & 0xffffffffull) : v;
            *used = i + 1;
            return R_OK;
        }
    }
    return R_ILLEGAL;
}

/* ---- harness-side source / sink ---- */
struct osrc {
    const unsigned char *p;
    size_t n, pos;
    unsigned calls;
    unsigned hiccup_at; /* > 0: the hiccup_at-th driver call (1-based) moves nothing and reports hiccup_code */
    int hiccup_code;
};

static int
osrc_get(void *drv, void *out)
{
    struct osrc *s = drv;
    s->calls++;
    if (s->hiccup_at && s->calls == s->hiccup_at)
        return s->hiccup_code;
    if (s->pos >= s->n)
        return -ENODATA;
    *(unsigned char *)out = s->p[s->pos++];
    return 1;
}

struct csink {
    unsigned char buf[64];
    size_t n;
    size_t maxper;      /* takes at most this many octets per call (0: all) */
    struct csink *wrap; /* set: every chunk is forwarded as [varint length][octets] to this one through the library */
    Sink *wrapsink;
};

static int api_to_sink(int t, Sink *s, uint64_t v);

static ssize_t
csink_put(void *drv, const void *p, size_t n)
{
    struct csink *s = drv;
    if (s->maxper && n > s->maxper)
        n = s->maxper;
    if (s->wrap) {
        /* a nested encoder call while the outer one is still at work */
        int rc = api_to_sink((int)(n & 3), s->wrapsink, (uint64_t)n);
        if (rc < 0)
            return rc;
        ssize_t w = sink_put_chunk(s->wrapsink, p, n);
        return w < 0 ? w : (ssize_t)n;
    }
    if (s->n + n > sizeof s->buf)
        return -ENOMEM;
    memcpy(s->buf + s->n, p, n);
    s->n += n;
    return (ssize_t)n;
}

/* ---- the four API flavours behind one signature ---- */
enum { T_U32, T_S32, T_U64, T_S64 };
static const char *tname[] = { "u32", "s32", "u64", "s64" };

static int
api_encode(int t, ByteBuffer *b, uint64_t v)
{
    switch (t) {
    case T_U32: return varint_encode_u32(b, (uint32_t)v);
    case T_S32: return varint_encode_s32(b, (int32_t)(uint32_t)v);
    case T_U64: return varint_encode_u64(b, v);
    default: return varint_encode_s64(b, (int64_t)v);
    }
}

static size_t
api_length(int t, uint64_t v)
{
    switch (t) {
    case T_U32: return varint_u32_length((uint32_t)v);
    case T_S32: return varint_s32_length((int32_t)(uint32_t)v);
    case T_U64: return varint_u64_length(v);
    default: return varint_s64_length((int64_t)v);
    }
}

static int
api_to_sink(int t, Sink *s, uint64_t v)
{
    switch (t) {
    case T_U32: return varint_u32_to_sink(s, (uint32_t)v);
    case T_S32: return varint_s32_to_sink(s, (int32_t)(uint32_t)v);
    case T_U64: return varint_u64_to_sink(s, v);
    default: return varint_s64_to_sink(s, (int64_t)v);
    }
}

/* decoded value is returned as the unsigned bit pattern of the type's width */
static int
api_decode(int t, ByteBuffer *b, uint64_t *v)
{
    int rc;
    switch (t) {
    case T_U32: { uint32_t x = 0xdeadbeef; rc = varint_decode_u32(b, &x); *v = x; break; }
    case T_S32: { int32_t x = 0x5eadbeef; rc = varint_decode_s32(b, &x); *v = (uint32_t)x; break; }
    case T_U64: { uint64_t x = 0xdeadbeefdeadbeefull; rc = varint_decode_u64(b, &x); *v = x; break; }
    default: { int64_t x = 0x5eadbeefdeadbeefll; rc = varint_decode_s64(b, &x); *v = (uint64_t)x; break; }
    }
    return rc;
}

static int
api_from_source(int t, Source *s, uint64_t *v)
{
    int rc;
    switch (t) {
    case T_U32: { uint32_t x = 0xdeadbeef; rc = varint_u32_from_source(s, &x); *v = x; break; }
    case T_S32: { int32_t x = 0x5eadbeef; rc = varint_s32_from_source(s, &x); *v = (uint32_t)x; break; }
    case T_U64: { uint64_t x = 0xdeadbeefdeadbeefull; rc = varint_u64_from_source(s, &x); *v = x; break; }
    default: { int64_t x = 0x5eadbeefdeadbeefll; rc = varint_s64_from_source(s, &x); *v = (uint64_t)x; break; }
    }
    return rc;
}

static inline int
is32(int t)
{
    return t == T_U32 || t == T_S32;
}

/* ---- part A: value round trip ---- */
static unsigned char *encblk[2]; /* exact blocks of 5 and 10 octets */
static unsigned char *encoff[2][8]; /* exact blocks of lead + 5 / lead + 10 octets: encodings into drained buffers */
static unsigned char *blk2[24];  /* exact blocks for encodings at an offset, carved on demand */
static unsigned char *decblk[12]; /* exact blocks of 1..11 octets */
static const size_t offlead[3] = { 1, 9, 12 };
static unsigned char *offblk[3][12]; /* exact blocks of lead + 0..11 octets: strings decoded behind consumed octets */

static void
roundtrip(int t, uint64_t v)
{
    const size_t max = is32(t) ? 5 : 10;
    if (is32(t))
        v &= 0xffffffffull;
    char key[32];
    unsigned char ref[10];
    int rn = ref_encode(v, ref);
    ByteBuffer b;
    unsigned char *blk = encblk[is32(t) ? 0 : 1];
    memset(blk, 0xEE, max);
    byte_buffer_space(&b, blk, max);
    int rc = api_encode(t, &b, v);
    snprintf(key, sizeof key, "type=%s", tname[t]);
    if (rc != rn || b.used != (size_t)rn || b.offset != 0 || memcmp(blk, ref, (size_t)rn) != 0) {
        vh_fail("encode", key, "value=%016" PRIx64 " rc=%d used=%zu octets=%s expected %s", v, rc, b.used,
                vh_hex(blk, max), vh_hex(ref, (size_t)rn));
        return;
    }
    size_t len = api_length(t, v);
    if (len != (size_t)rn || len > max)
        vh_fail("length", key, "value=%016" PRIx64 " length query=%zu encoded=%d", v, len, rn);
    /* the same into a buffer that was used and drained before (offset = used = k > 0, exactly the maximum length
     * free behind it): the unread rest of the buffer is the encoding, nothing else is touched, and both decoders
     * get the value back from that very buffer */
    {
        const size_t lead = 1 + (size_t)((v ^ (v >> 7)) % 7), tot = lead + max;
        unsigned char **slot = &encoff[is32(t) ? 0 : 1][lead];
        if (*slot == NULL)
            *slot = vh_arena(tot);
        unsigned char *ob = *slot, img[32];
        memset(ob, 0xEE, tot);
        for (size_t i = 0; i < lead; i++)
            ob[i] = (unsigned char)(0x80 | i); /* consumed octets: continuation bits */
        memcpy(img, ob, tot);
        memcpy(img + lead, ref, (size_t)rn);
        ByteBuffer ub;
        byte_buffer_set(&ub, ob, tot, lead, lead);
        rc = api_encode(t, &ub, v);
        if (rc != rn || ub.offset != lead || ub.used != lead + (size_t)rn || ub.size != tot || memcmp(ob, img, tot) != 0)
            vh_fail("encode-into-drained-buffer", key, "value=%016" PRIx64 " buffer offset=used=%zu size=%zu: rc=%d offset=%zu used=%zu memory %s expected %s",
                    v, lead, tot, rc, ub.offset, ub.used, vh_hex(ob, tot), vh_hex(img, tot));
        else {
            ByteBuffer copy = ub;
            Source bs;
            source_from_buffer(&bs, &copy);
            uint64_t gv = 0;
            int r2 = api_from_source(t, &bs, &gv);
            if (r2 != rn || gv != v || byte_buffer_rest(&copy) != 0)
                vh_fail("encode-into-drained-buffer", key, "value=%016" PRIx64 " read back through a buffer source: rc=%d value=%016" PRIx64 " rest=%zu",
                        v, r2, gv, byte_buffer_rest(&copy));
            gv = 0;
            r2 = api_decode(t, &ub, &gv);
            if (r2 != rn || gv != v || ub.offset != ub.used)
                vh_fail("encode-into-drained-buffer", key, "value=%016" PRIx64 " read back with the buffer decoder: rc=%d value=%016" PRIx64 " offset=%zu used=%zu",
                        v, r2, gv, ub.offset, ub.used);
        }
    }
    /* sink variant */
    struct csink cs = { .n = 0 };
    Sink sink;
    chunk_sink_init(&sink, csink_put, &cs);
    rc = api_to_sink(t, &sink, v);
    if (rc < 0 || cs.n != (size_t)rn || memcmp(cs.buf, ref, (size_t)rn) != 0)
        vh_fail("to-sink", key, "value=%016" PRIx64 " rc=%d sink=%s expected %s", v, rc, vh_hex(cs.buf, cs.n),
                vh_hex(ref, (size_t)rn));
    /* the same into a sink that takes a few octets per call, and into one that frames what it is handed with a
     * varint of its own (nested encoder call) */
    {
        static unsigned rot;
        struct csink part = { .n = 0, .maxper = 1 + rot++ % 3 };
        chunk_sink_init(&sink, csink_put, &part);
        rc = api_to_sink(t, &sink, v);
        if (rc < 0 || part.n != (size_t)rn || memcmp(part.buf, ref, (size_t)rn) != 0)
            vh_fail("to-sink", key, "value=%016" PRIx64 " into a sink taking %zu octets per call: rc=%d sink=%s expected %s", v, part.maxper,
                    rc, vh_hex(part.buf, part.n), vh_hex(ref, (size_t)rn));
        struct csink lower = { .n = 0 }, tun = { .n = 0, .maxper = rot % 4 };
        Sink lowersink;
        chunk_sink_init(&lowersink, csink_put, &lower);
        tun.wrap = &lower;
        tun.wrapsink = &lowersink;
        chunk_sink_init(&sink, csink_put, &tun);
        rc = api_to_sink(t, &sink, v);
        /* unwrap: [one-octet varint n][n octets]... */
        unsigned char un[32];
        size_t ul = 0, pos = 0;
        int bad = rc < 0;
        while (!bad && pos < lower.n) {
            size_t fl = lower.buf[pos++];
            if (fl > 10 || fl > lower.n - pos || ul + fl > sizeof un)
                bad = 1;
            else {
                memcpy(un + ul, lower.buf + pos, fl);
                ul += fl;
                pos += fl;
            }
        }
        if (bad || ul != (size_t)rn || memcmp(un, ref, (size_t)rn) != 0)
            vh_fail("to-sink-nested", key, "value=%016" PRIx64 " through a sink that frames its input with varints: rc=%d lower stream %s, "
                    "expected the pieces of %s", v, rc, vh_hex(lower.buf, lower.n), vh_hex(ref, (size_t)rn));
    }
    /* decode from an exact-size buffer holding just the encoding */
    unsigned char *d = decblk[rn];
    memcpy(d, ref, (size_t)rn);
    byte_buffer_use(&b, d, (size_t)rn);
    uint64_t got = 0;
    rc = api_decode(t, &b, &got);
    if (rc != rn || got != v || b.offset != (size_t)rn)
        vh_fail("decode-buffer", key, "octets=%s rc=%d value=%016" PRIx64 " offset=%zu expected value %016" PRIx64,
                vh_hex(ref, (size_t)rn), rc, got, b.offset, v);
    /* the same encoding behind already consumed octets and in front of further data: offset k, used beyond it */
    {
        size_t lead = (size_t)(v % 5), tail = (size_t)((v >> 3) % 3), tot = lead + (size_t)rn + tail;
        if (blk2[tot] == NULL)
            blk2[tot] = vh_arena(tot);
        memset(blk2[tot], 0xff, tot); /* continuation bits everywhere around it */
        memcpy(blk2[tot] + lead, ref, (size_t)rn);
        byte_buffer_set(&b, blk2[tot], tot, tot, lead);
        got = 0;
        rc = api_decode(t, &b, &got);
        if (rc != rn || got != v || b.offset != lead + (size_t)rn || b.used != tot)
            vh_fail("decode-buffer-at-offset", key, "octets=%s at offset %zu of %zu: rc=%d value=%016" PRIx64 " offset=%zu",
                    vh_hex(ref, (size_t)rn), lead, tot, rc, got, b.offset);
    }
    /* a buffer whose fill mark lies inside the encoding (set up by hand over memory that holds more than the mark
     * says, or left there by an earlier encode into the same object): the bound of the buffer decoder is the
     * buffer's memory - the suite itself decodes from buffers with fill mark zero - so the value comes back */
    if (rn >= 2) {
        size_t lead = (size_t)((v >> 2) % 4), tot = lead + (size_t)rn;
        size_t mark = lead + 1 + (size_t)((v ^ (v >> 9)) % (uint64_t)(rn - 1));
        if (blk2[tot] == NULL)
            blk2[tot] = vh_arena(tot);
        memset(blk2[tot], 0x80, tot);
        memcpy(blk2[tot] + lead, ref, (size_t)rn);
        if (byte_buffer_set(&b, blk2[tot], tot, mark, lead) != 0)
            vh_broken("byte_buffer_set refused size=%zu used=%zu offset=%zu", tot, mark, lead);
        got = 0;
        rc = api_decode(t, &b, &got);
        VH_COUNT("decodes from a buffer whose fill mark lies inside the encoding");
        if (rc != rn || got != v || b.offset != lead + (size_t)rn)
            vh_fail("decode-buffer-mark-inside", key, "octets=%s at offset %zu, fill mark %zu, size %zu: rc=%d value=%016" PRIx64 " offset=%zu",
                    vh_hex(ref, (size_t)rn), lead, mark, tot, rc, got, b.offset);
    }
    /* decoding in place: the result variable is the memory the encoding lies in (a cell that first holds the
     * received octets and then the number); nothing in the prototypes forbids it */
    {
        union { uint64_t u64; int64_t s64; uint32_t u32; int32_t s32; unsigned char o[16]; } cell;
        memset(&cell, 0xEE, sizeof cell);
        memcpy(cell.o, ref, (size_t)rn);
        ByteBuffer ib;
        byte_buffer_use(&ib, cell.o, (size_t)rn);
        int irc;
        uint64_t iv;
        switch (t) {
        case T_U32: irc = varint_decode_u32(&ib, &cell.u32); iv = cell.u32; break;
        case T_S32: irc = varint_decode_s32(&ib, &cell.s32); iv = (uint32_t)cell.s32; break;
        case T_U64: irc = varint_decode_u64(&ib, &cell.u64); iv = cell.u64; break;
        default: irc = varint_decode_s64(&ib, &cell.s64); iv = (uint64_t)cell.s64; break;
        }
        if (irc != rn || iv != v || ib.offset != (size_t)rn)
            vh_fail("decode-in-place", key, "octets=%s decoded into the cell they lie in: rc=%d value=%016" PRIx64 " offset=%zu expected value %016" PRIx64,
                    vh_hex(ref, (size_t)rn), irc, iv, ib.offset, v);
    }
    struct osrc os = { .p = d, .n = (size_t)rn, .pos = 0 };
    Source src;
    octet_source_init(&src, osrc_get, &os);
    got = 0;
    rc = api_from_source(t, &src, &got);
    if (rc != rn || got != v || os.pos != (size_t)rn)
        vh_fail("decode-source", key, "octets=%s rc=%d value=%016" PRIx64 " consumed=%zu expected value %016" PRIx64,
                vh_hex(ref, (size_t)rn), rc, got, os.pos, v);
    /* a driver that is interrupted once (EINTR / EAGAIN, nothing moved) while the varint is read: what the decoder
     * makes of that is not stated - it may hand the interruption to its caller or try again - but when it reports
     * success, value, count and consumed octets are those of the encoding */
    {
        struct osrc hs = { .p = d, .n = (size_t)rn, .pos = 0, .hiccup_at = 1 + (unsigned)((v ^ (v >> 5)) % (uint64_t)rn),
                           .hiccup_code = (v >> 2) & 1 ? -EINTR : -EAGAIN };
        octet_source_init(&src, osrc_get, &hs);
        got = 0;
        rc = api_from_source(t, &src, &got);
        if (rc >= 0 && (rc != rn || got != v || hs.pos != (size_t)rn))
            vh_fail("decode-source-interrupted", key, "octets=%s, driver call %u reports %d once: rc=%d value=%016" PRIx64 " consumed=%zu expected value %016" PRIx64,
                    vh_hex(ref, (size_t)rn), hs.hiccup_at, hs.hiccup_code, rc, got, hs.pos, v);
        VH_COUNT("source interrupted once while a varint is read");
        if (rc >= 0)
            VH_COUNT("interrupted source: decoder carried on and succeeded");
        else
            VH_COUNT("interrupted source: interruption handed to the caller");
    }
}

static void
setup_blocks(void)
{
    encblk[0] = vh_arena(5);
    encblk[1] = vh_arena(10);
    for (int i = 0; i <= 11; i++)
        decblk[i] = vh_arena((size_t)i);
    for (int l = 0; l < 3; l++)
        for (int i = 0; i <= 11; i++)
            offblk[l][i] = vh_arena(offlead[l] + (size_t)i);
    memset(blk2, 0, sizeof blk2);
    memset(encoff, 0, sizeof encoff);
}

static void
u_values32(uint64_t idx, void *arg)
{
    int t = (int)(intptr_t)arg;
    setup_blocks();
    vh_case_tag(tname[t]);
    uint64_t n = 0;
    if (vh_tier) {
        uint64_t lo = idx << 20, hi = lo + (1u << 20);
        uint64_t step = vh_light ? 37 : 1;
        for (uint64_t v = lo + (step > 1 ? idx % step : 0); v < hi; v += step, n++) {
            vh_cur[0] = v;
            roundtrip(t, v);
        }
    } else {
        vh_rng r;
        vh_unit_rng(&r, "values32", idx);
        uint64_t lo = idx << 26, off = vh_below(&r, 211);
        for (uint64_t v = lo + off; v < lo + (1u << 26); v += 211, n++) {
            vh_cur[0] = v;
            roundtrip(t, v);
        }
    }
    if (idx == 0) {
        for (int k = 0; k <= 32; k++)
            for (int d = -2; d <= 2; d++, n++)
                roundtrip(t, ((k == 32) ? 0 : (1ull << k)) + (uint64_t)(int64_t)d);
        vh_countf("32-bit boundaries (%s)", tname[t]);
        unsigned char e[10];
        int l = ref_encode(300, e);
        vh_sample(tname[t], "%s value 300 -> %s (length query %zu)", tname[t], vh_hex(e, (size_t)l),
                  api_length(t, 300));
    }
    VH_COUNTN("value round trips (32-bit)", n);
    *vh_ncases += n;
    vh_sig(0x14000000ull ^ ((uint64_t)t << 40) ^ idx);
}

static void
u_values64(uint64_t idx, void *arg)
{
    int t = (int)(intptr_t)arg;
    setup_blocks();
    vh_case_tag(tname[t]);
    vh_rng r;
    vh_unit_rng(&r, "values64", idx * 4 + (uint64_t)t);
    uint64_t n = 0;
    if (idx == 0) {
        for (int k = 0; k <= 64; k++)
            for (int d = -3; d <= 3; d++, n++)
                roundtrip(t, ((k == 64) ? 0 : (1ull << k)) + (uint64_t)(int64_t)d);
        for (int i = 0; i < 64; i++)
            for (int j = i; j < 64; j++, n += 2) {
                roundtrip(t, (1ull << i) | (1ull << j));
                roundtrip(t, ~((1ull << i) | (1ull << j)));
            }
        vh_countf("64-bit 7-bit boundaries and single/double bits (%s)", tname[t]);
        unsigned char e[10];
        int l = ref_encode(~0ull, e);
        vh_sample(tname[t], "%s value ffffffffffffffff -> %s (length query %zu)", tname[t], vh_hex(e, (size_t)l),
                  api_length(t, ~0ull));
    }
    uint64_t nr = vh_tier ? 2000000 : 150000;
    for (uint64_t k = 0; k < nr; k++, n++) {
        uint64_t v = vh_rand(&r) >> vh_below(&r, 64);
        if (vh_chance(&r, 1, 4))
            v = ~v;
        vh_cur[0] = v;
        roundtrip(t, v);
    }
    VH_COUNTN("value round trips (64-bit)", n);
    *vh_ncases += n;
    vh_sig(0x14100000ull ^ ((uint64_t)t << 40) ^ idx);
}

/* ---- part B: arbitrary octet strings ---- */
static const unsigned char alpha[6] = { 0x00, 0x01, 0x7f, 0x80, 0x81, 0xff };

static void
decode_string(const unsigned char *s, size_t n)
{
    unsigned char *blk = decblk[n];
    memcpy(blk, s, n);
    for (int t = 0; t < 4; t++) {
        const size_t max = is32(t) ? 5 : 10;
        char key[48];
        uint64_t rv = 0;
        size_t rused = 0;
        int ovf = 0;
        int verdict = ref_decode(s, n, max, is32(t) ? 32 : 64, &rv, &rused, &ovf);
        if (verdict == R_OK)
            VH_COUNT("decoder input: well-formed");
        else if (verdict == R_ILLEGAL)
            VH_COUNT("decoder input: no terminator within maximum");
        else
            VH_COUNT("decoder input: cut off by the end of the buffer");
        uint64_t bv[2] = { 0, 0 };
        int brc[2];
        /* variant 0: size = used = n; variant 1: size = n, used = 0 (as the unit tests set it up) */
        for (int variant = 0; variant < 2; variant++) {
            ByteBuffer b;
            if (n == 0) {
                brc[variant] = -ENODATA; /* a buffer cannot have size 0 */
                continue;
            }
            if (variant == 0)
                byte_buffer_use(&b, blk, n);
            else
                byte_buffer_space(&b, blk, n);
            brc[variant] = api_decode(t, &b, &bv[variant]);
            snprintf(key, sizeof key, "type=%s variant=%s", tname[t], variant ? "space" : "use");
            if (verdict == R_OK) {
                if (brc[variant] != (int)rused || b.offset != rused)
                    vh_fail("buffer-decoder-ok", key, "input=%s rc=%d offset=%zu expected consumed %zu", vh_hex(s, n),
                            brc[variant], b.offset, rused);
                else if (!ovf && bv[variant] != rv)
                    vh_fail("buffer-decoder-value", key, "input=%s value=%016" PRIx64 " expected %016" PRIx64,
                            vh_hex(s, n), bv[variant], rv);
            } else {
                if (brc[variant] >= 0)
                    vh_fail("buffer-decoder-accepts", key, "input=%s (%s) rc=%d", vh_hex(s, n),
                            verdict == R_ILLEGAL ? "no terminator" : "cut off", brc[variant]);
                else if (verdict == R_ILLEGAL && brc[variant] != -EILSEQ)
                    vh_fail("buffer-decoder-code", key, "input=%s rc=%d expected -EILSEQ", vh_hex(s, n), brc[variant]);
                if (b.offset != 0)
                    vh_fail("buffer-decoder-consumes-on-error", key, "input=%s rc=%d offset=%zu", vh_hex(s, n),
                            brc[variant], b.offset);
            }
        }
        /* the same octets as the unread rest of a longer buffer: `lead` consumed octets in front, the block ends
         * with the string - a number cut off by the end of the memory must be refused here too */
        for (int l = 0; l < 3; l++) { /* n == 0: the buffer is used up - offset == size */
            const size_t lead = offlead[l];
            unsigned char *ob = offblk[l][n];
            memset(ob, 0x80, lead);
            memcpy(ob + lead, s, n);
            ByteBuffer b;
            byte_buffer_use(&b, ob, lead + n);
            b.offset = lead;
            uint64_t ov = 0;
            int orc = api_decode(t, &b, &ov);
            snprintf(key, sizeof key, "type=%s variant=offset", tname[t]);
            if (verdict == R_OK) {
                if (orc != (int)rused || b.offset != lead + rused)
                    vh_fail("buffer-decoder-ok", key, "input=%s behind %zu consumed octets: rc=%d offset=%zu expected consumed %zu",
                            vh_hex(s, n), lead, orc, b.offset, rused);
                else if (!ovf && ov != rv)
                    vh_fail("buffer-decoder-value", key, "input=%s behind %zu consumed octets: value=%016" PRIx64 " expected %016" PRIx64,
                            vh_hex(s, n), lead, ov, rv);
            } else {
                if (orc >= 0)
                    vh_fail("buffer-decoder-accepts", key, "input=%s (%s) behind %zu consumed octets: rc=%d", vh_hex(s, n),
                            verdict == R_ILLEGAL ? "no terminator" : "cut off", lead, orc);
                else if (verdict == R_ILLEGAL && orc != -EILSEQ)
                    vh_fail("buffer-decoder-code", key, "input=%s behind %zu consumed octets: rc=%d expected -EILSEQ", vh_hex(s, n), lead, orc);
                if (b.offset != lead)
                    vh_fail("buffer-decoder-consumes-on-error", key, "input=%s behind %zu consumed octets: rc=%d offset=%zu", vh_hex(s, n), lead,
                            orc, b.offset);
            }
            if (verdict != R_OK && verdict != R_ILLEGAL)
                VH_COUNT("decoder input behind consumed octets: cut off by the end of the buffer");
        }
        struct osrc os = { .p = blk, .n = n, .pos = 0 };
        Source src;
        octet_source_init(&src, osrc_get, &os);
        uint64_t sv = 0;
        int src_rc = api_from_source(t, &src, &sv);
        snprintf(key, sizeof key, "type=%s", tname[t]);
        if (os.calls > max)
            vh_fail("source-decoder-overreads", key, "input=%s: %u source calls, maximum %zu", vh_hex(s, n), os.calls,
                    max);
        if (verdict == R_OK) {
            if (src_rc != (int)rused || os.pos != rused)
                vh_fail("source-decoder-ok", key, "input=%s rc=%d consumed=%zu expected %zu", vh_hex(s, n), src_rc,
                        os.pos, rused);
            else if (!ovf && sv != rv)
                vh_fail("source-decoder-value", key, "input=%s value=%016" PRIx64 " expected %016" PRIx64,
                        vh_hex(s, n), sv, rv);
            else if (n > 0 && brc[0] == src_rc && bv[0] != sv)
                vh_fail("decoders-disagree-value", key, "input=%s buffer=%016" PRIx64 " source=%016" PRIx64,
                        vh_hex(s, n), bv[0], sv);
        } else {
            if (src_rc >= 0)
                vh_fail("source-decoder-accepts", key, "input=%s rc=%d", vh_hex(s, n), src_rc);
            else if (verdict == R_ILLEGAL && src_rc != -EILSEQ)
                vh_fail("source-decoder-code", key, "input=%s rc=%d expected -EILSEQ", vh_hex(s, n), src_rc);
        }
        if (n > 0 && (brc[0] >= 0) != (src_rc >= 0))
            vh_fail("decoders-disagree-verdict", key, "input=%s buffer rc=%d source rc=%d", vh_hex(s, n), brc[0],
                    src_rc);
    }
}

/* all strings of length n over the alphabet whose first two symbols are fixed by idx */
static void
u_strings(uint64_t idx, void *arg)
{
    size_t n = (size_t)(intptr_t)arg;
    setup_blocks();
    unsigned char s[12];
    uint64_t count = 0;
    size_t fixed = n < 2 ? n : 2;
    uint64_t free_syms = 1;
    for (size_t i = fixed; i < n; i++)
        free_syms *= 6;
    uint64_t pre = idx;
    for (size_t i = 0; i < fixed; i++) {
        s[i] = alpha[pre % 6];
        pre /= 6;
    }
    for (uint64_t k = 0; k < free_syms; k++) {
        uint64_t x = k;
        for (size_t i = fixed; i < n; i++) {
            s[i] = alpha[x % 6];
            x /= 6;
        }
        VH_CASE2(n, k);
        decode_string(s, n);
        count++;
    }
    VH_COUNTN("decoder input strings (enumerated)", count);
    vh_countf("enumerated strings of length %zu", n);
    vh_sig(0x14200000ull ^ ((uint64_t)n << 32) ^ idx);
    if (idx == 0 && n >= 1 && n <= 3) {
        vh_sample("strings", "length %zu: e.g. %s", n, vh_hex(s, n));
    }
}

static void
u_randstrings(uint64_t idx, void *arg)
{
    (void)arg;
    setup_blocks();
    vh_rng r;
    vh_unit_rng(&r, "randstr", idx);
    uint64_t cnt = vh_tier ? 400000 : 60000;
    unsigned char s[12];
    for (uint64_t k = 0; k < cnt; k++) {
        size_t n = (size_t)vh_below(&r, 12);
        int mode = (int)vh_below(&r, 3);
        for (size_t i = 0; i < n; i++) {
            unsigned char o = (unsigned char)vh_rand(&r);
            if (mode == 1)
                o |= 0x80; /* long continuation runs */
            if (mode == 2 && i + 1 < n)
                o |= 0x80;
            if (mode == 2 && i + 1 == n)
                o &= 0x7f; /* terminated exactly at the end */
            s[i] = o;
        }
        VH_CASE2(idx, k);
        decode_string(s, n);
        if (k == 7)
            vh_sample("random strings", "e.g. %s", vh_hex(s, n));
    }
    VH_COUNTN("decoder input strings (random)", cnt);
    vh_sig(0x14300000ull ^ idx);
}

void
harness_run(void)
{
    for (int t = T_U32; t <= T_S32; t++) {
        uint64_t nchunks = vh_tier ? 4096 : 64;
        for (uint64_t i = 0; i < nchunks; i++)
            vh_unit(t == T_U32 ? "values-u32" : "values-s32", i, u_values32, (void *)(intptr_t)t);
    }
    for (int t = T_U64; t <= T_S64; t++)
        for (uint64_t i = 0; i < (vh_tier ? 32u : 8u); i++)
            vh_unit(t == T_U64 ? "values-u64" : "values-s64", i, u_values64, (void *)(intptr_t)t);
    size_t maxlen = vh_tier ? 11 : 7;
    for (size_t n = 0; n <= maxlen; n++) {
        char gen[32];
        snprintf(gen, sizeof gen, "strings-%zu", n);
        uint64_t units = n == 0 ? 1 : n == 1 ? 6 : 36;
        for (uint64_t i = 0; i < units; i++)
            vh_unit(gen, i, u_strings, (void *)(intptr_t)n);
    }
    for (uint64_t i = 0; i < (vh_tier ? 64u : 16u); i++)
        vh_unit("randstr", i, u_randstrings, NULL);
    static const char *req[] = { "value round trips (32-bit)", "value round trips (64-bit)",
                                 "32-bit boundaries (u32)", "32-bit boundaries (s32)",
                                 "64-bit 7-bit boundaries and single/double bits (u64)",
                                 "64-bit 7-bit boundaries and single/double bits (s64)",
                                 "decoder input: well-formed", "decoder input: no terminator within maximum",
                                 "decoder input: cut off by the end of the buffer",
                                 "enumerated strings of length 7", "decoder input strings (random)",
                                 "decoder input behind consumed octets: cut off by the end of the buffer" };
    for (size_t i = 0; i < sizeof req / sizeof req[0]; i++)
        vh_require(req[i]);
    vh_require("source interrupted once while a varint is read");
    vh_require("decodes from a buffer whose fill mark lies inside the encoding");
}
