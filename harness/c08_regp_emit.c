/* C08 - every emitted frame is spec-conformant and round-trips through the
 * receiver.
 *
 * Every emit entry point x transport x memory word size; sink octets are
 * compared octet for octet with the reference encoder of rp_common.h, then
 * fed to a peer RegP whose regp_recv must return the same fields. */
#include "rp_common.h"

const char *harness_name = "c08_regp_emit";

static struct rp_h A, B; /* emitter, peer */
static unsigned char pay[150000], raw[150100], wire[300300];

enum { E_RD8, E_RD16, E_WR8, E_WR16, E_ACK, E_ACK_EMPTY, E_CODE1, /* ... E_CODE11 */ E_META = E_CODE1 + 11, NEMIT };

static const char *
ename(int e)
{
    static const char *n[] = { "regp_req_read8", "regp_req_read16", "regp_req_write8", "regp_req_write16",
                               "regp_resp_ack(payload)", "regp_resp_ack(empty)" };
    static char b[40];
    if (e < E_CODE1)
        return n[e];
    if (e == E_META)
        return "regp_resp_meta";
    snprintf(b, sizeof b, "regp_resp_%s", rp_respname[e - E_CODE1 + 1]);
    return b;
}

static void
one_emit(int e, int serial, int mem16, uint16_t seq, uint32_t addr, size_t n, int reqtype, uint32_t arg, vh_rng *rg)
{
    (void)rg;
    A.out_n = 0;
    A.p.session.sequence = seq;
    /* every fourth emission meets a sink driver that is interrupted once (EAGAIN / EINTR, nothing moved) at one of
     * its first calls */
    static unsigned nemit;
    A.out_calls = 0;
    A.out_hiccups = 0;
    A.out_hiccup_at = SIZE_MAX;
    if (++nemit % 4u == 0) {
        A.out_hiccup_at = (nemit / 4u * 7u + vh_unit_salt % 5u) % (A.out_octet ? 48u : 7u);
        A.out_hiccup_code = (nemit / 4u) & 1u ? -EAGAIN : -EINTR;
    }
    struct rframe x;
    memset(&x, 0, sizeof x);
    x.seq = seq;
    x.addr = addr;
    x.options = serial ? ROPT_HDCRC : 0;
    RPFrame f;
    memset(&f, 0, sizeof f);
    f.header.type = (RPFrameType)reqtype;
    f.header.sequence = seq;
    f.header.address = addr;
    /* the request a response answers may carry the other word size than the instance serves (regp_process()
     * refuses such requests, the public response functions can be called with them all the same): what goes out
     * follows the instance's memory, as for every other response */
    const int req16 = ((arg >> 5) & 3u) == 0 ? !mem16 : mem16;
    f.header.options = (uint_least8_t)(req16 ? RP_OPT_WORD_SIZE_16 : 0);
    if (req16 != mem16)
        VH_COUNT("response to a request of the other word size");
    unsigned char be[4];
    int rc;
    switch (e) {
    case E_RD8:
    case E_RD16:
        x.type = RT_READ_REQ;
        x.options |= e == E_RD16 ? ROPT_W16 : 0;
        x.bsize = (uint32_t)n;
        rc = e == E_RD8 ? regp_req_read8(&A.p, addr, n) : regp_req_read16(&A.p, addr, n);
        break;
    case E_WR8:
    case E_WR16: {
        size_t ws = e == E_WR16 ? 2 : 1;
        x.type = RT_WRITE_REQ;
        x.options |= (e == E_WR16 ? ROPT_W16 : 0) | (serial && n ? ROPT_PLCRC : 0);
        x.bsize = (uint32_t)n;
        x.payload = pay;
        x.plen = n * ws;
        unsigned char *buf = vh_arena_copy(pay, n * ws);
        rc = e == E_WR8 ? regp_req_write8(&A.p, addr, n, buf) : regp_req_write16(&A.p, addr, n, (uint16_t *)(void *)buf);
        break;
    }
    case E_ACK: {
        size_t ws = mem16 ? 2 : 1;
        x.type = (unsigned)reqtype + 1;
        x.options |= (mem16 ? ROPT_W16 : 0) | (serial && n ? ROPT_PLCRC : 0);
        x.bsize = (uint32_t)n;
        x.payload = pay;
        x.plen = n * ws;
        unsigned char *buf = vh_arena_copy(pay, n * ws);
        rc = regp_resp_ack(&A.p, &f, buf, n);
        break;
    }
    case E_ACK_EMPTY:
        x.type = (unsigned)reqtype + 1;
        x.options |= mem16 ? ROPT_W16 : 0;
        rc = regp_resp_ack(&A.p, &f, NULL, 0);
        break;
    case E_META:
        x.type = RT_META;
        x.meta = 1 + (arg & 1);
        x.seq = 0;
        x.addr = 0;
        rc = regp_resp_meta(&A.p, (uint_least8_t)x.meta);
        break;
    default: {
        unsigned code = (unsigned)(e - E_CODE1 + 1);
        x.type = (unsigned)reqtype + 1;
        x.meta = code;
        if (rp_code_has_payload(code)) {
            rp_be32(be, arg);
            x.payload = be;
            x.plen = 4;
            x.bsize = 4;
            x.options |= serial ? ROPT_PLCRC : 0;
        }
        switch (code) {
        case 1: rc = regp_resp_ewordsize(&A.p, &f); break;
        case 2: rc = regp_resp_epayloadcrc(&A.p, &f); break;
        case 3: rc = regp_resp_epayloadsize(&A.p, &f); break;
        case 4: rc = regp_resp_erxoverflow(&A.p, &f, arg); break;
        case 5: rc = regp_resp_etxoverflow(&A.p, &f, arg); break;
        case 6: rc = regp_resp_ebusy(&A.p, &f); break;
        case 7: rc = regp_resp_eunmapped(&A.p, &f, arg); break;
        case 8: rc = regp_resp_eaccess(&A.p, &f, arg); break;
        case 9: rc = regp_resp_erange(&A.p, &f, arg); break;
        case 10: rc = regp_resp_einvalid(&A.p, &f, arg); break;
        default: rc = regp_resp_eio(&A.p, &f); break;
        }
        break;
    }
    }
    char key[96], ctx[200];
    snprintf(key, sizeof key, "entry=%s transport=%s mem=%d", ename(e), serial ? "serial" : "tcp", mem16 ? 16 : 8);
    snprintf(ctx, sizeof ctx, "seq=%u addr=%08x n=%zu reqtype=%d arg=%08x", seq, addr, n, reqtype, arg);
    vh_countf("emitted: %s", ename(e));
    A.out_hiccup_at = SIZE_MAX;
    if (A.out_hiccups) {
        VH_COUNT(A.out_octet ? "emission that met an interrupted sink call (octet-style sink)"
                             : "emission that met an interrupted sink call (chunk-style sink)");
        if (rc < 0) {
            /* the interruption was handed to the caller: no frame was emitted as far as the caller knows */
            VH_COUNT("emission given up after an interrupted sink call");
            return;
        }
        VH_COUNT(A.out_octet ? "emission through an octet-style sink that was interrupted once"
                             : "emission through a chunk-style sink that was interrupted once");
    }
    if (rc < 0)
        vh_fail("emit-fails", key, "%s: rc=%d", ctx, rc);
    size_t rawn = rp_encode_raw(&x, raw);
    size_t wn = rp_wire(serial, raw, rawn, wire);
    if (wn == 128 + (serial ? 0 : 2) || rawn == 127 || rawn == 128)
        VH_COUNT("frame length at the one/two octet varint boundary");
    if (rawn == 16383 || rawn == 16384)
        VH_COUNT("frame length at the two/three octet varint boundary");
    if (A.out_n != wn || memcmp(A.out, wire, wn) != 0) {
        size_t d = 0;
        while (d < wn && d < A.out_n && A.out[d] == wire[d])
            d++;
        vh_fail("wire-octets", key, "%s: emitted %zu octets, reference %zu; first difference at %zu: emitted %s reference %s",
                ctx, A.out_n, wn, d, vh_hex(A.out + d, A.out_n - d > 12 ? 12 : A.out_n - d),
                vh_hex(wire + d, wn - d > 12 ? 12 : wn - d));
        return;
    }
    if (e <= E_WR16 && A.p.session.sequence != (uint16_t)(seq + 1))
        vh_fail("sequence", key, "%s: session sequence %u after a request", ctx, A.p.session.sequence);
    /* responses and meta messages are not requests: the next request of the session carries the next number */
    if (e > E_WR16 && A.p.session.sequence != seq)
        vh_fail("sequence", key, "%s: session sequence %u after a response (it was %u before): the next request would skip a number", ctx,
                A.p.session.sequence, seq);
    /* round trip through the peer's receiver; every third time the peer's line carried noise first that ended in
     * an illegal escape sequence with nothing behind it (the line dropped in the middle of a broken frame) - that
     * receive fails, the emission that follows must be taken as if nothing had happened */
    static unsigned emitted;
    if (serial && (++emitted % 3u) == 0) {
        static const unsigned char noise[] = { 0x21, 0x00, 0x7f, 0xdb, 0x41 };
        rp_feed(&B, noise, sizeof noise);
        B.out_n = 0;
        RPMaybeFrame nf;
        int nrc = regp_recv(&B.p, &nf);
        regp_process(&B.p, &nf);
        regp_free(&B.p, nf.frame);
        rp_ledger_gc(&B);
        if (nrc >= 0)
            vh_fail("noise-accepted", key, "%s: noise ending in an illegal escape: regp_recv rc=%d", ctx, nrc);
        VH_COUNT("emission received behind line noise that ended in an illegal escape");
    }
    rp_feed(&B, A.out, A.out_n);
    B.out_n = 0;
    RPMaybeFrame mf;
    int rrc = regp_recv(&B.p, &mf);
    if (rrc < 0 || mf.error.id != 0 || mf.frame == NULL) {
        vh_fail("own-frame-rejected", key, "%s: regp_recv rc=%d error.id=%d raw=%s", ctx, rrc, mf.error.id,
                vh_hex(raw, rawn > 24 ? 24 : rawn));
    } else {
        const RPFrame *g = mf.frame;
        if ((unsigned)g->header.type != x.type || g->header.options != x.options || g->header.meta.raw != x.meta
            || g->header.sequence != x.seq || g->header.address != x.addr || g->header.blocksize != x.bsize
            || g->payload.size != x.plen || (x.plen && memcmp(g->payload.data, x.payload, x.plen) != 0))
            vh_fail("roundtrip-fields", key, "%s: received type=%d options=%x code=%u seq=%u addr=%08x bsize=%u payload %zu",
                    ctx, g->header.type, g->header.options, g->header.meta.raw, g->header.sequence, g->header.address,
                    g->header.blocksize, g->payload.size);
    }
    if (B.out_n != 0)
        vh_fail("receiver-replies", key, "%s: the receiver sent %zu octets on receiving a valid frame", ctx, B.out_n);
    regp_free(&B.p, mf.frame);
    if (rp_live_blocks(&B) || B.bad_free)
        vh_fail("block-ledger", key, "%s: %d live blocks, bad free %d", ctx, rp_live_blocks(&B), B.bad_free);
    rp_ledger_gc(&B);
}

static void
fill_payload(vh_rng *rg, size_t n)
{
    int mode = (int)vh_below(rg, 4);
    for (size_t i = 0; i < n; i++)
        pay[i] = mode == 0 ? (unsigned char)vh_rand(rg) : mode == 1 ? (vh_chance(rg, 1, 2) ? 0xc0 : 0xdb)
                 : mode == 2 ? (unsigned char)(vh_chance(rg, 1, 3) ? 0xc0 + vh_below(rg, 0x20) : vh_rand(rg))
                             : (unsigned char)i;
}

static void
u_emit(uint64_t idx, void *arg)
{
    (void)arg;
    vh_rng rg;
    vh_unit_rng(&rg, "emit", idx);
    int serial = (int)(idx & 1), mem16 = (int)(idx >> 1) & 1;
    uint16_t seq = (idx & 4) ? 0xfffd : (uint16_t)vh_rand(&rg);
    for (int k = 0; k < 40; k++) {
        vh_arena_reset();
        rp_next_sink_octet = (int)((vh_unit_salt >> 7) & 1u);
        rp_setup(&A, serial, mem16, 256);
        rp_setup(&B, serial, mem16, 40000);
        for (int e = 0; e < NEMIT; e++) {
            static const uint32_t addrs[] = { 0, 0x64, 0xc0dbc0db, 0xdbdcdbdd, 0xffffffff, 0x00c000db };
            uint32_t addr = vh_chance(&rg, 1, 2) ? addrs[vh_below(&rg, 6)] : (uint32_t)vh_rand(&rg);
            size_t n = vh_chance(&rg, 1, 6) ? 0 : (size_t)vh_below(&rg, 140);
            if (e == E_WR8 || e == E_WR16 || e == E_ACK) {
                /* lengths around the varint boundaries now and then: raw length = header + payload */
                size_t ws = (e == E_WR16 || (e == E_ACK && mem16)) ? 2 : 1, hdr = serial ? 16 : 12;
                if (vh_chance(&rg, 1, 5)) {
                    size_t target = vh_chance(&rg, 1, 6) ? 16382 + (size_t)vh_below(&rg, 4) : 126 + (size_t)vh_below(&rg, 4);
                    n = (target - hdr) / ws;
                }
                fill_payload(&rg, n * ws);
            }
            if ((e == E_RD8 || e == E_RD16) && vh_chance(&rg, 1, 3)) {
                /* read requests carry no payload: the block size can be anything a 32-bit field holds */
                static const size_t big[] = { 0xff, 0x100, 0xffff, 0x10000, 0x10001, 0x12345, 0xffffff, 0x1000000,
                                              0x7fffffff, 0x80000000u, 0xfffffffeu, 0xffffffffu };
                n = big[vh_below(&rg, 12)];
                VH_COUNT("read request with a block size beyond 16 bits or at the field's extremes");
            }
            int reqtype = vh_chance(&rg, 1, 2) ? RT_READ_REQ : RT_WRITE_REQ;
            VH_CASE4(idx, k, e, n);
            one_emit(e, serial, mem16, seq, addr, n, reqtype, (uint32_t)vh_rand(&rg) ^ (vh_chance(&rg, 1, 4) ? 0xc0dbu : 0),
                     &rg);
            if (e <= E_WR16)
                seq++;
        }
        vh_sig(0x08000000ull ^ (idx << 8) ^ (uint64_t)k);
    }
    if (idx == 0)
        vh_sample("emit", "each of the %d emit entry points per round, e.g. regp_req_write16(addr=c0dbc0db, n words of "
                          "c0/db octets) on serial: reference = header BE + CRC-16/ARC header and payload checksums + "
                          "SLIP", NEMIT);
}

/* the two/three octet varint boundary needs big frames; dedicated unit */
static void
u_big(uint64_t idx, void *arg)
{
    (void)arg;
    vh_rng rg;
    vh_unit_rng(&rg, "big", idx);
    int serial = (int)(idx & 1), mem16 = (int)(idx >> 1) & 1;
    for (size_t target = 16380; target <= 16387; target++) {
        vh_arena_reset();
        rp_next_sink_octet = (int)((vh_unit_salt >> 7) & 1u);
        rp_setup(&A, serial, mem16, 256);
        rp_setup(&B, serial, mem16, 40000);
        size_t hdr = serial ? 16 : 12;
        fill_payload(&rg, 16500);
        VH_CASE4(idx, target, 0, 0);
        one_emit(E_WR8, serial, mem16, (uint16_t)target, 0xc0, target - hdr, RT_WRITE_REQ, 0, &rg);
        if (((target - hdr) & 1) == 0)
            one_emit(E_WR16, serial, mem16, (uint16_t)target, 0xdb, (target - hdr) / 2, RT_WRITE_REQ, 0, &rg);
        if (!mem16)
            one_emit(E_ACK, serial, mem16, (uint16_t)target, 1, target - hdr, RT_READ_REQ, 0, &rg);
    }
    vh_sig(0x08100000ull ^ idx);
}

/* every sequence number once per entry point on the serial link: the header checksum (and with it the payload
 * checksum word it covers) takes every 16-bit value about once - 0x0000, 0xffff, values that need SLIP escaping,
 * values equal to other header fields */
static void
u_seqsweep(uint64_t idx, void *arg)
{
    (void)arg;
    vh_rng rg;
    vh_unit_rng(&rg, "seqsweep", idx);
    const int e = (int)(idx % NEMIT), mem16 = (int)((idx / NEMIT) & 1);
    const unsigned part = 0, nparts = 1;
    const uint32_t addr = (uint32_t)vh_rand(&rg);
    const size_t n = (e == E_ACK_EMPTY || e >= E_CODE1) ? 0 : 1 + (size_t)vh_below(&rg, 6);
    const uint32_t arg32 = (uint32_t)vh_rand(&rg);
    fill_payload(&rg, 16);
    uint64_t hits = 0;
    for (unsigned sq = part; sq < 65536; sq += nparts) {
        if ((sq & 63) == part % 64 || sq < nparts) {
            vh_arena_reset();
            rp_setup(&A, 1, mem16, 256);
            rp_setup(&B, 1, mem16, 400);
        }
        VH_CASE4(idx, sq, e, n);
        one_emit(e, 1, mem16, (uint16_t)sq, addr, n, (sq & 1) ? RT_READ_REQ : RT_WRITE_REQ, arg32, &rg);
        /* raw[] holds the reference image of this emission */
        if (raw[12] == 0 && raw[13] == 0)
            hits++;
    }
    if (hits)
        VH_COUNTN("emission whose header checksum is 0000", hits);
    VH_COUNT("sequence-number sweep of an entry point");
    vh_sig(0x08300000ull ^ idx);
}

/* emissions that exactly fill the peer's frame block (and the two sizes below): the largest frame a receiver with
 * that block size can take must be accepted by it */
static void
u_fit(uint64_t idx, void *arg)
{
    (void)arg;
    vh_rng rg;
    vh_unit_rng(&rg, "fit", idx);
    static const size_t bss[] = { 128, 200, 300 };
    const int serial = (int)(idx & 1), mem16 = (int)((idx >> 1) & 1);
    const size_t bs = bss[(idx >> 2) % 3];
    const size_t cap = bs - sizeof(RPFrame), hdr = serial ? 16 : 12;
    for (size_t less = 0; less < 3; less++) {
        const size_t pl = cap - hdr - less;
        static const int entries[] = { E_WR8, E_WR16, E_ACK };
        for (int ei = 0; ei < 3; ei++) {
            const int e = entries[ei];
            const size_t ws = (e == E_WR16 || (e == E_ACK && mem16)) ? 2 : 1;
            if (pl % ws)
                continue;
            vh_arena_reset();
            rp_next_sink_octet = (int)((vh_unit_salt >> 7) & 1u);
        rp_setup(&A, serial, mem16, 256);
            rp_setup(&B, serial, mem16, bs);
            fill_payload(&rg, pl);
            VH_CASE4(idx, bs, less, e);
            one_emit(e, serial, mem16, (uint16_t)vh_rand(&rg), (uint32_t)vh_rand(&rg), pl / ws, RT_READ_REQ, 0, &rg);
            if (less == 0)
                VH_COUNT("emission that exactly fills the receiver's frame block");
        }
    }
    vh_sig(0x08400000ull ^ idx);
}

/* payloads of 2^16 octets and more, and of 2^16 words and more */
static void
u_huge(uint64_t idx, void *arg)
{
    (void)arg;
    vh_rng rg;
    vh_unit_rng(&rg, "huge", idx);
    int serial = (int)(idx & 1), mem16 = (int)(idx >> 1) & 1;
    static const size_t octets[] = { 65534, 65535, 65536, 65537, 65538, 131070, 131072, 140002 };
    size_t n = octets[(idx >> 2) % 8];
    vh_arena_reset();
    rp_next_sink_octet = (int)((vh_unit_salt >> 7) & 1u);
        rp_setup(&A, serial, mem16, 256);
    rp_setup(&B, serial, mem16, 300000);
    fill_payload(&rg, n);
    VH_CASE4(idx, n, 0, 0);
    one_emit(E_WR8, serial, mem16, (uint16_t)idx, 0xc0, n, RT_WRITE_REQ, 0, &rg);
    vh_arena_reset();
    B.nblk = 0;
    if ((n & 1) == 0)
        one_emit(E_WR16, serial, mem16, (uint16_t)idx, 0xdb, n / 2, RT_WRITE_REQ, 0, &rg);
    vh_arena_reset();
    B.nblk = 0;
    if (!mem16 || (n & 1) == 0)
        one_emit(E_ACK, serial, mem16, (uint16_t)idx, 1, mem16 ? n / 2 : n, RT_READ_REQ, 0, &rg);
    VH_COUNT("emission with 65534 or more payload octets");
    vh_sig(0x08200000ull ^ idx);
}

/* ---- a request issued from the transmit-complete hook of the previous one: the sink driver of the instance, handed
 * the last octet of a request frame, calls a request entry point of the same instance before it returns (an event
 * driven requester pipelining its requests). Both frames are complete on the wire, one after the other, with
 * successive sequence numbers, and the session has moved on by two. ---- */
static struct {
    int w16;
    uint32_t addr, n;
    int rc;
} nest;

static void
nest_emit(struct rp_h *h)
{
    nest.rc = nest.w16 ? regp_req_read16(&h->p, nest.addr, nest.n) : regp_req_read8(&h->p, nest.addr, nest.n);
}

static void
u_nested(uint64_t idx, void *arg)
{
    (void)arg;
    vh_rng rg;
    vh_unit_rng(&rg, "nested", idx);
    const int serial = (int)(idx & 1), mem16 = (int)(idx >> 1) & 1;
    static unsigned char rawA[700], rawB[64], wireA[1400], wireB[160];
    for (int k = 0; k < 30; k++) {
        vh_arena_reset();
        rp_next_sink_octet = (int)((vh_unit_salt >> 9) + (unsigned)k) & 1;
        rp_setup(&A, serial, mem16, 256);
        const uint16_t seq = k == 0 ? 0xfffe : k == 1 ? 0xffff : (uint16_t)vh_rand(&rg);
        A.p.session.sequence = seq;
        /* outer request: a write with a control-rich payload or a read */
        struct rframe a, b;
        memset(&a, 0, sizeof a);
        memset(&b, 0, sizeof b);
        const int outer_write = k & 1, ow16 = (int)vh_below(&rg, 2);
        const size_t words = 1 + (size_t)vh_below(&rg, 20), ws = ow16 ? 2 : 1;
        fill_payload(&rg, words * ws);
        a.type = outer_write ? RT_WRITE_REQ : RT_READ_REQ;
        a.seq = seq;
        a.addr = (uint32_t)vh_rand(&rg);
        a.bsize = (uint32_t)words;
        a.options = (ow16 ? ROPT_W16 : 0) | (serial ? ROPT_HDCRC : 0) | (serial && outer_write ? ROPT_PLCRC : 0);
        a.payload = pay;
        a.plen = outer_write ? words * ws : 0;
        size_t an = rp_encode_raw(&a, rawA), awn = rp_wire(serial, rawA, an, wireA);
        nest.w16 = (int)vh_below(&rg, 2);
        nest.addr = vh_chance(&rg, 1, 2) ? 0xc0dbc0dbu : (uint32_t)vh_rand(&rg);
        nest.n = (uint32_t)vh_below(&rg, 100);
        nest.rc = -9999;
        b.type = RT_READ_REQ;
        b.seq = (uint16_t)(seq + 1);
        b.addr = nest.addr;
        b.bsize = nest.n;
        b.options = (nest.w16 ? ROPT_W16 : 0) | (serial ? ROPT_HDCRC : 0);
        size_t bn = rp_encode_raw(&b, rawB), bwn = rp_wire(serial, rawB, bn, wireB);
        A.out_n = 0;
        A.nest_at = awn;
        A.nest_fn = nest_emit;
        VH_CASE4(idx, k, seq, outer_write);
        int rc;
        unsigned char *buf = vh_arena_copy(pay, words * ws);
        if (outer_write)
            rc = ow16 ? regp_req_write16(&A.p, a.addr, words, (uint16_t *)(void *)buf) : regp_req_write8(&A.p, a.addr, words, buf);
        else
            rc = ow16 ? regp_req_read16(&A.p, a.addr, words) : regp_req_read8(&A.p, a.addr, words);
        char key[96];
        snprintf(key, sizeof key, "entry=nested-request transport=%s outer=%s", serial ? "serial" : "tcp", outer_write ? "write" : "read");
        if (A.nest_fn != NULL) {
            vh_fail("nested-hook-not-reached", key, "seq=%u: the sink never held exactly %zu octets (it holds %zu)", seq, awn, A.out_n);
            A.nest_fn = NULL;
            continue;
        }
        if (rc < 0 || nest.rc < 0)
            vh_fail("emit-fails", key, "seq=%u: outer rc=%d nested rc=%d", seq, rc, nest.rc);
        else if (A.out_n != awn + bwn || memcmp(A.out, wireA, awn) != 0 || memcmp(A.out + awn, wireB, bwn) != 0)
            vh_fail("wire-octets", key, "seq=%u: %zu octets on the wire, expected %zu + %zu; second frame %s expected %s", seq, A.out_n, awn, bwn,
                    vh_hex(A.out + (A.out_n > awn ? awn : 0), A.out_n > awn ? (A.out_n - awn > 24 ? 24 : A.out_n - awn) : 0),
                    vh_hex(wireB, bwn > 24 ? 24 : bwn));
        else if (A.p.session.sequence != (uint16_t)(seq + 2))
            vh_fail("sequence", key, "seq=%u: session sequence %u after two requests", seq, A.p.session.sequence);
        (*vh_ncases)++;
        VH_COUNT("request issued from the transmit-complete hook of the previous one");
    }
    vh_sig(0x08e00000ull ^ idx);
}

/* ---- the replies the receiver sends on its own account: receive overflow for a request that does not fit the frame
 * block, busy for a request that found no block. They are frames the library emits like any other: the reference
 * octets on the wire, and accepted by the library's own receiver with the fields of the request they answer. ---- */
static void
u_early(uint64_t idx, void *arg)
{
    (void)arg;
    vh_rng rg;
    vh_unit_rng(&rg, "early", idx);
    const int serial = (int)(idx & 1), mem16 = (int)(idx >> 1) & 1, busy = (int)(idx >> 2) & 1;
    static unsigned char raw[700], wire[1500], rraw[64], rwire[160];
    for (int k = 0; k < 24; k++) {
        vh_arena_reset();
        rp_setup(&B, serial, mem16, 96); /* the responder: small blocks */
        rp_setup(&A, serial, mem16, 400); /* the requester that gets the reply */
        struct rframe q, r;
        memset(&q, 0, sizeof q);
        memset(&r, 0, sizeof r);
        const int w16 = (int)vh_below(&rg, 2), wr = k & 1;
        const size_t ws = w16 ? 2 : 1, words = busy ? 1 + (size_t)vh_below(&rg, 8) : (wr ? 60 + (size_t)vh_below(&rg, 100) : 1 + (size_t)vh_below(&rg, 8));
        if (!busy && !wr)
            continue; /* a read request never exceeds the block: only writes overflow */
        fill_payload(&rg, words * ws);
        q.type = wr ? RT_WRITE_REQ : RT_READ_REQ;
        q.seq = k < 2 ? (uint16_t)(0xfffe + k) : (uint16_t)vh_rand(&rg);
        q.addr = vh_chance(&rg, 1, 3) ? 0xc0dbc0dbu : (uint32_t)vh_rand(&rg);
        q.bsize = (uint32_t)words;
        q.options = (w16 ? ROPT_W16 : 0) | (serial ? ROPT_HDCRC : 0) | (serial && wr ? ROPT_PLCRC : 0);
        q.payload = pay;
        q.plen = wr ? words * ws : 0;
        size_t qn = rp_encode_raw(&q, raw), qwn = rp_wire(serial, raw, qn, wire);
        rp_feed(&B, wire, qwn);
        B.out_n = 0;
        B.ncalls = 0;
        if (busy)
            B.fail_alloc_at = (long)B.alloc_calls;
        RPMaybeFrame mf;
        regp_recv(&B.p, &mf);
        regp_process(&B.p, &mf);
        regp_free(&B.p, mf.frame);
        B.fail_alloc_at = -1;
        rp_ledger_gc(&B);
        char key[96], ctx[160];
        snprintf(key, sizeof key, "entry=early-%s transport=%s mem=%d", busy ? "busy" : "rxoverflow", serial ? "serial" : "tcp", mem16 ? 16 : 8);
        snprintf(ctx, sizeof ctx, "%s request seq=%u addr=%08x words=%zu (%zu raw octets)", wr ? "write" : "read", q.seq, q.addr, words, qn);
        VH_CASE4(idx, k, busy, words);
        /* the reference reply: response to that request, code 6 (busy) or 4 (receive overflow), no payload */
        r.type = q.type + 1;
        r.meta = busy ? 6u : 4u;
        r.seq = q.seq;
        r.addr = q.addr;
        r.options = serial ? ROPT_HDCRC : 0;
        size_t rn = rp_encode_raw(&r, rraw), rwn = rp_wire(serial, rraw, rn, rwire);
        if (B.ncalls != 0)
            vh_fail("early-reply-executed", key, "%s: %d backend calls", ctx, B.ncalls);
        if (B.out_n != rwn || memcmp(B.out, rwire, rwn) != 0) {
            vh_fail("wire-octets", key, "%s: replied %s, reference %s", ctx, vh_hex(B.out, B.out_n > 30 ? 30 : B.out_n), vh_hex(rwire, rwn > 30 ? 30 : rwn));
            continue;
        }
        rp_feed(&A, B.out, B.out_n);
        A.out_n = 0;
        RPMaybeFrame am;
        int rc = regp_recv(&A.p, &am);
        if (rc < 0 || am.error.id != 0 || am.frame == NULL)
            vh_fail("own-frame-rejected", key, "%s: the reply %s is not accepted by the library's receiver: rc=%d error.id=%d", ctx,
                    vh_hex(B.out, B.out_n > 30 ? 30 : B.out_n), rc, am.error.id);
        else if ((unsigned)am.frame->header.type != r.type || am.frame->header.meta.raw != r.meta || am.frame->header.sequence != r.seq
                 || am.frame->header.address != r.addr || am.frame->payload.size != 0)
            vh_fail("roundtrip-fields", key, "%s: received type=%d code=%u seq=%u addr=%08x payload %zu", ctx, am.frame->header.type,
                    am.frame->header.meta.raw, am.frame->header.sequence, am.frame->header.address, am.frame->payload.size);
        regp_free(&A.p, am.frame);
        rp_ledger_gc(&A);
        (*vh_ncases)++;
        VH_COUNT("reply sent by the receiver on its own account (busy / receive overflow)");
    }
    vh_sig(0x08f00000ull ^ idx);
}

void
harness_run(void)
{
    for (uint64_t i = 0; i < 8; i++)
        vh_unit("early", i, u_early, NULL);
    vh_require("reply sent by the receiver on its own account (busy / receive overflow)");
    for (uint64_t i = 0; i < 8; i++)
        vh_unit("nested", i, u_nested, NULL);
    vh_require("request issued from the transmit-complete hook of the previous one");
    for (uint64_t i = 0; i < 32; i++)
        if (vh_tier || (i >> 2) % 8 == 2 || (i >> 2) % 8 == 6 || i % 5 == 0)
            vh_unit("huge", i, u_huge, NULL);
    for (uint64_t i = 0; i < 2u * NEMIT; i++)
        vh_unit("seqsweep", i, u_seqsweep, NULL);
    for (uint64_t i = 0; i < 12; i++)
        vh_unit("fit", i, u_fit, NULL);
    vh_require("emission that exactly fills the receiver's frame block");
    vh_require("emission received behind line noise that ended in an illegal escape");
    vh_require("sequence-number sweep of an entry point");
    vh_require("emission whose header checksum is 0000");
    vh_require("emission with 65534 or more payload octets");
    for (uint64_t i = 0; i < (vh_tier ? 24000u : 160u); i++)
        vh_unit("emit", i, u_emit, NULL);
    for (uint64_t i = 0; i < (vh_tier ? 64u : 8u); i++)
        vh_unit("big", i, u_big, NULL);
    static char req[NEMIT][64];
    for (int e = 0; e < NEMIT; e++) {
        snprintf(req[e], sizeof req[e], "emitted: %s", ename(e));
        vh_require(req[e]);
    }
    vh_require("frame length at the one/two octet varint boundary");
    vh_require("frame length at the two/three octet varint boundary");
    vh_require("read request with a block size beyond 16 bits or at the field's extremes");
    vh_require("emission that met an interrupted sink call (octet-style sink)");
    vh_require("emission that met an interrupted sink call (chunk-style sink)");
}
