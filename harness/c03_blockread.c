/* C03 - block reads and range iteration follow the flat address-space model.
 *
 * Same generated tables as C02 (areas readable and write-only); every
 * (address, length) window for block reads; every window x callback script
 * for iteration. Oracle: flat model of rt_common.h. */
#include "rt_common.h"

const char *harness_name = "c03_blockread";

static struct rt_inst inst;
static RegisterAtom *bufs[64];

/* iteration callback script */
static struct {
    RegisterHandle seen[RT_MAXREGS + 16];
    int nseen;
    int stop_at;   /* call index at which a non-zero value is returned (-1: never) */
    int stop_val;
} it;

static int
it_cb(RegisterTable *t, RegisterHandle h, void *arg)
{
    (void)t;
    if (arg != (void *)&it)
        it.nseen = RT_MAXREGS + 15;
    if (it.nseen < RT_MAXREGS + 16)
        it.seen[it.nseen] = h;
    int idx = it.nseen++;
    return idx == it.stop_at ? it.stop_val : 0;
}

static void
fill_content(vh_rng *rg)
{
    /* distinct word content everywhere, written out of band into storage and model */
    for (int a = 0; a < inst.d.nareas; a++) {
        for (uint32_t w = 0; w < inst.d.area[a].size; w++) {
            inst.model[a][2 * w] = (unsigned char)(0x10 * (a + 1) + w);
            inst.model[a][2 * w + 1] = (unsigned char)vh_rand(rg);
        }
        memcpy(inst.store[a], inst.model[a], 2 * (size_t)inst.d.area[a].size);
    }
}

static void
one_read(uint32_t addr, uint32_t n)
{
    const struct rt_desc *d = &inst.d;
    RegisterAtom *buf = bufs[n];
    memset(buf, 0x5E, 2 * (size_t)n);
    long first_unmapped = -1;
    for (uint32_t k = 0; k < n; k++)
        if (rt_area_of(d, addr + k) < 0) {
            first_unmapped = (long)(addr + k);
            break;
        }
    /* every fifth read meets a device that cannot deliver one word of the window (where the window has a word in
     * a readable callback-backed area): a window with a hole is still refused for the hole, first unmapped
     * address and all; a fully mapped one comes back with the device's error */
    static unsigned nreads;
    int dev_fail = 0;
    if (++nreads % 5u == 0)
        for (uint32_t k = 0; k < n && !dev_fail; k++) {
            int ai = rt_area_of(d, addr + (n - 1 - k));
            if (ai >= 0 && d->area[ai].custom && !d->area[ai].window && !d->area[ai].noread && d->area[ai].readable) {
                rt_cb_rfail_area = ai;
                rt_cb_rfail_word = addr + (n - 1 - k) - d->area[ai].base;
                rt_cb_rfail_code = (nreads / 5u) & 1u ? REG_ACCESS_IO_ERROR : REG_ACCESS_FAILURE;
                rt_cb_rfail_hits = 0;
                dev_fail = 1;
            }
        }
    const unsigned wcalls_before = inst.cb_writes;
    RegisterAccess a = register_block_read(&inst.t, addr, n, buf);
    rt_cb_rfail_area = -1;
    if (dev_fail) {
        char dctx[200];
        snprintf(dctx, sizeof dctx, "table{%.100s} read(addr=%u,n=%u) with a device that fails on one word", rt_describe(d), addr, n);
        VH_COUNT("read: a device word that cannot be read");
        if (first_unmapped >= 0) {
            if (a.code != REG_ACCESS_NOENTRY || a.address != (uint32_t)first_unmapped)
                vh_fail("unmapped-read", "window=unmapped device=failing", "%s: code=%d address=%u, first unmapped address %ld", dctx, a.code,
                        a.address, first_unmapped);
        } else if (a.code != (RegisterAccessCode)rt_cb_rfail_code) {
            vh_fail("device-error-not-returned", "window=mapped device=failing", "%s: code=%d, the device said %d (%u refusals)", dctx, a.code,
                    rt_cb_rfail_code, rt_cb_rfail_hits);
        }
        if (!rt_compare_storage(&inst, "read-changes-table", "window=any", dctx))
            rt_sync_model_from_storage(&inst);
        return;
    }
    char ctx[220];
    snprintf(ctx, sizeof ctx, "table{%.100s} read(addr=%u,n=%u)", rt_describe(d), addr, n);
    if (first_unmapped < 0) {
        int nonreadable = 0;
        unsigned char exp[128];
        for (uint32_t k = 0; k < n; k++) {
            int ai = rt_area_of(d, addr + k);
            if (d->area[ai].readable && !d->area[ai].window && !d->area[ai].noread)
                memcpy(exp + 2 * k, rt_model_word(&inst, addr + k), 2);
            else {
                memset(exp + 2 * k, 0, 2);
                nonreadable = 1;
            }
        }
        if (n == 0)
            VH_COUNT("read: zero length");
        else if (nonreadable)
            VH_COUNT("read: window includes a non-readable area (reads back zero)");
        else
            VH_COUNT("read: fully mapped and readable");
        if (a.code != REG_ACCESS_SUCCESS)
            vh_fail("mapped-read-refused", nonreadable ? "window=nonreadable" : "window=readable",
                    "%s: code=%d address=%u", ctx, a.code, a.address);
        else if (memcmp(buf, exp, 2 * (size_t)n) != 0)
            vh_fail("read-data", nonreadable ? "window=nonreadable" : "window=readable", "%s: got %s expected %s", ctx,
                    vh_hex(buf, 2 * (size_t)n), vh_hex(exp, 2 * (size_t)n));
        /* the unchecked entry point, which may be used on windows without holes, gives the same words (into a
         * buffer that held something else before) */
        if (n > 0) {
            memset(buf, 0x5E, 2 * (size_t)n);
            RegisterAccess u = register_block_read_unsafe(&inst.t, addr, n, buf);
            if (u.code != REG_ACCESS_SUCCESS || memcmp(buf, exp, 2 * (size_t)n) != 0)
                vh_fail("read-data", nonreadable ? "window=nonreadable entry=unsafe" : "window=readable entry=unsafe",
                        "%s through register_block_read_unsafe: code=%d got %s expected %s", ctx, u.code, vh_hex(buf, 2 * (size_t)n),
                        vh_hex(exp, 2 * (size_t)n));
            VH_COUNT("read: unchecked entry point on a window without holes");
        }
    } else {
        VH_COUNT("read: window touches an unmapped address");
        if (a.code != REG_ACCESS_NOENTRY || a.address != (uint32_t)first_unmapped)
            vh_fail("unmapped-read", "window=unmapped", "%s: code=%d address=%u, first unmapped address %ld", ctx,
                    a.code, a.address, first_unmapped);
    }
    if (!rt_compare_storage(&inst, "read-changes-table", "window=any", ctx))
        rt_sync_model_from_storage(&inst);
    if (inst.cb_writes != wcalls_before)
        vh_fail("read-writes-device", "window=any", "%s: a block read called write callbacks %u times", ctx, inst.cb_writes - wcalls_before);
}

static void
one_iter(uint32_t addr, uint32_t len, int stop_at, int stop_val)
{
    const struct rt_desc *d = &inst.d;
    RegisterHandle exp[RT_MAXREGS];
    int nexp = 0;
    int start_in_register = 0;
    for (int i = 0; i < d->nregs && len > 0; i++) {
        const struct rt_reg *r = &d->reg[i];
        uint32_t rsz = rt_tsize[r->type];
        if (r->addr + rsz <= addr || (uint64_t)addr + len <= r->addr)
            continue;
        if (r->addr <= addr)
            start_in_register = 1;
        exp[nexp++] = (RegisterHandle)i;
    }
    int ncalls = nexp;
    int expcode = REG_ACCESS_SUCCESS;
    uint32_t expaddr = 0;
    if (stop_at >= 0 && stop_at < nexp) {
        ncalls = stop_at + 1;
        if (stop_val < 0) {
            expcode = REG_ACCESS_FAILURE;
            expaddr = d->reg[exp[stop_at]].addr;
        }
    }
    it.nseen = 0;
    it.stop_at = stop_at;
    it.stop_val = stop_val;
    RegisterAccess a = register_foreach_in(&inst.t, addr, len, it_cb, &it);
    char key[96], ctx[220];
    snprintf(key, sizeof key, "start_in_register=%d script=%s", start_in_register,
             stop_at < 0 ? "continue" : stop_val < 0 ? "negative" : "positive");
    snprintf(ctx, sizeof ctx, "table{%.100s} foreach(addr=%u,len=%u) stop at call %d with %d", rt_describe(d), addr, len,
             stop_at, stop_val);
    if (nexp == 0)
        VH_COUNT("iteration: no register in range");
    else if (start_in_register)
        VH_COUNT("iteration: range starts inside a register");
    else
        VH_COUNT("iteration: range starts in a gap, hole or empty area");
    if (stop_at >= 0 && stop_at < nexp)
        vh_countf("iteration: stopped by a %s callback result", stop_val < 0 ? "negative" : "positive");
    int same = it.nseen == ncalls;
    for (int i = 0; same && i < ncalls; i++)
        same = it.seen[i] == exp[i];
    if (!same) {
        char got[100], want[100];
        size_t o = 0;
        got[0] = want[0] = 0;
        for (int i = 0; i < it.nseen && i < 12; i++)
            o += (size_t)snprintf(got + o, sizeof got - o, "%u ", it.seen[i]);
        o = 0;
        for (int i = 0; i < ncalls && i < 12; i++)
            o += (size_t)snprintf(want + o, sizeof want - o, "%u ", exp[i]);
        vh_fail("iteration-sequence", key, "%s: callback saw handles [%s], expected [%s]", ctx, got, want);
    } else if ((int)a.code != expcode || (expcode == REG_ACCESS_FAILURE && a.address != expaddr)) {
        vh_fail("iteration-result", key, "%s: code=%d address=%u expected code=%d address=%u", ctx, a.code, a.address,
                expcode, expaddr);
    }
}

static void
u_table(uint64_t idx, void *arg)
{
    (void)arg;
    vh_rng rg;
    vh_unit_rng(&rg, "table", idx);
    vh_arena_reset();
    struct rt_desc d;
    if (!rt_gen_curated(&rg, (unsigned)idx, &d, 1))
        rt_gen_wellformed(&rg, &d, 1);
    else
        VH_COUNT("curated layout");
    rt_build(&inst, &d);
    for (uint32_t n = 0; n < 64; n++)
        bufs[n] = vh_arena(2 * (size_t)n);
    VH_CASE4(idx, 0, 0, 0);
    /* uninitialised table: both entry points must say so */
    {
        RegisterAccess a = register_block_read(&inst.t, d.area[0].base, 1, bufs[1]);
        RegisterAccess b = register_foreach_in(&inst.t, 0, 10, it_cb, &it);
        if (a.code != REG_ACCESS_UNINITIALISED || b.code != REG_ACCESS_UNINITIALISED)
            vh_fail("uninitialised", "part=uninitialised", "block_read code=%d foreach code=%d", a.code, b.code);
        VH_COUNT("uninitialised table probed");
    }
    RegisterInit ri = register_init(&inst.t);
    if (ri.code != REG_INIT_SUCCESS) {
        vh_fail("init-wellformed", "part=init", "table{%s}: code=%d pos=%u", rt_describe(&d), ri.code, ri.pos.entry);
        return;
    }
    rt_model_init(&inst);
    fill_content(&rg);
    uint32_t lo = d.area[0].base, hi = d.area[d.nareas - 1].base + d.area[d.nareas - 1].size;
    uint32_t span = hi - lo;
    uint32_t a0 = lo >= 2 ? lo - 2 : 0;
    /* a second table at the same addresses (three one-word registers), read and iterated in between: a look-up
     * remembered from one table must not be applied to the other */
    static struct rt_inst inst2;
    int by_alive = 0;
    unsigned by_n = 0;
    if (idx & 1) {
        struct rt_desc d2;
        memset(&d2, 0, sizeof d2);
        d2.nareas = 1;
        d2.bigendian = !d.bigendian;
        d2.area[0].base = lo;
        d2.area[0].size = 3;
        d2.area[0].readable = d2.area[0].writeable = 1;
        d2.area[0].has_write = 1;
        d2.nregs = 3;
        for (int i = 0; i < 3; i++) {
            d2.reg[i].type = REG_TYPE_UINT16;
            d2.reg[i].addr = lo + (uint32_t)i;
            d2.reg[i].def.u16 = (uint16_t)(0x1100 * (i + 1));
        }
        rt_build_mode = 0;
        rt_build(&inst2, &d2);
        rt_build_mode = -1;
        rt_cur = &inst;
        by_alive = register_init(&inst2.t).code == REG_INIT_SUCCESS;
    }
    for (uint32_t addr = a0; addr <= hi + 2; addr++)
        for (uint32_t n = 0; n <= span + 3 && n < 64; n++) {
            if (by_alive && (by_n++ % 9) == 4) {
                RegisterAtom w[3] = { 0, 0, 0 };
                RegisterAccess ra = register_block_read(&inst2.t, lo + 1, 2, w);
                it.nseen = 0;
                it.stop_at = -1;
                RegisterAccess ia = register_foreach_in(&inst2.t, lo + 1, 2, it_cb, &it);
                unsigned char e1[2], e2[2];
                rt_encode(REG_TYPE_UINT16, inst2.d.bigendian, 0x2200, e1);
                rt_encode(REG_TYPE_UINT16, inst2.d.bigendian, 0x3300, e2);
                if (ra.code != REG_ACCESS_SUCCESS || memcmp(&w[0], e1, 2) != 0 || memcmp(&w[1], e2, 2) != 0 || ia.code != REG_ACCESS_SUCCESS
                    || it.nseen != 2 || it.seen[0] != 1 || it.seen[1] != 2)
                    vh_fail("second-table", "part=bystander", "table{%.100s}: a second table at the same addresses: block read code=%d words "
                            "%04x %04x, iteration code=%d saw %d registers", rt_describe(&d), ra.code, w[0], w[1], ia.code, it.nseen);
                VH_COUNT("second table read and iterated in between");
            }
            VH_CASE4(idx, addr, n, 0);
            vh_case_tag("read");
            one_read(addr, n);
            vh_case_tag("foreach");
            one_iter(addr, n, -1, 0);
            for (int k = 0; k < d.nregs && k < 4; k++) {
                if (!vh_tier && n > 6 && !vh_chance(&rg, 1, 4))
                    continue;
                VH_CASE4(idx, addr, n, 1 + k);
                one_iter(addr, n, k, 1 + (int)vh_below(&rg, 3));
                one_iter(addr, n, k, -1 - (int)vh_below(&rg, 3));
            }
        }
    /* reads much longer than the table: refused at the first unmapped address without writing anything */
    {
        static const uint32_t longn[] = { 255, 256, 65535, 65536, 65537 };
        static RegisterAtom *lb;
        if (!lb)
            lb = malloc(2 * 65537);
        for (size_t li = 0; li < 5; li++) {
            uint32_t addr = li & 1 ? lo : (d.nregs ? d.reg[d.nregs - 1].addr : lo);
            if ((uint64_t)addr + longn[li] > 0x100000000ull)
                continue; /* ranges that wrap past 2^32 are not generated */
            long first_unmapped = -1;
            for (uint32_t k = 0; k < 200 && first_unmapped < 0; k++)
                if (rt_area_of(&d, addr + k) < 0)
                    first_unmapped = (long)(addr + k);
            memset(lb, 0x5E, 2 * (size_t)longn[li]);
            VH_CASE4(idx, addr, longn[li], 7);
            RegisterAccess a = register_block_read(&inst.t, addr, longn[li], lb);
            if (a.code != REG_ACCESS_NOENTRY || (long)a.address != first_unmapped)
                vh_fail("unmapped-read", "window=long", "table{%.100s} read(addr=%u,n=%u): code=%d address=%u, first unmapped %ld",
                        rt_describe(&d), addr, longn[li], a.code, a.address, first_unmapped);
            VH_COUNT("read much longer than the table");
            /* iteration over a long range starting there: every register from the first overlapping one on */
            one_iter(addr, longn[li], -1, 0);
        }
    }
    /* the whole-table idioms */
    one_iter(0, REGISTER_ADDRESS_MAX, -1, 0);
    one_iter(0, REGISTER_ADDRESS_MAX, 0, -1);
    one_iter(lo, REGISTER_ADDRESS_MAX - lo, -1, 0);
    /* ranges that end exactly at the top of the address space (they do not wrap) */
    if (lo > 0) {
        one_iter(lo, (RegisterOffset)(0u - lo), -1, 0);
        one_iter(lo, (RegisterOffset)(0u - lo), 0, -2);
        one_iter(1, REGISTER_OFFSET_MAX, -1, 0);
        uint32_t mid = d.nregs ? d.reg[d.nregs / 2].addr : lo;
        if (mid > 0)
            one_iter(mid, (RegisterOffset)(0u - mid), -1, 0);
        VH_COUNT("iteration: range ending exactly at 2^32");
    }
    VH_COUNT("iteration: whole-table idiom foreach(0, ADDRESS_MAX)");
    vh_sig(0x03000000ull ^ idx);
    if (idx < 2)
        vh_sample("table", "table %" PRIu64 ": %s; every (address,length) window read and iterated", idx,
                  rt_describe(&d));
}

/* ---- a large device: one callback-backed area of 0x12000 words behind a small memory area, read in windows of
 * 65535 words and more (what a driver with 16-bit transfer counters would have to split). The table is written by
 * hand; the device's words are a function of their offset. ---- */
#define BIGDEV_WORDS 0x12000u
static RegisterAtom bigdev[BIGDEV_WORDS];
static unsigned bigdev_calls, bigdev_bad;

static RegisterAtom
bigdev_word(uint32_t off)
{
    return (RegisterAtom)((off * 40503u) ^ (off >> 5) ^ 0x5a5au);
}

static RegisterAccess
bigdev_read(const RegisterArea *a, RegisterAtom *dst, RegisterOffset off, RegisterOffset n)
{
    RegisterAccess rv = REG_ACCESS_RESULT_INIT;
    bigdev_calls++;
    if ((uint64_t)off + n > BIGDEV_WORDS || a->size != BIGDEV_WORDS) {
        bigdev_bad = 1;
        rv.code = REG_ACCESS_IO_ERROR;
        return rv;
    }
    memcpy(dst, bigdev + off, n * sizeof(RegisterAtom));
    return rv;
}

static void
u_bigdev(uint64_t idx, void *arg)
{
    (void)arg;
    vh_arena_reset();
    const uint32_t mbase = idx & 1 ? 0x100u : 0x7fff0000u, dbase = mbase + 16u;
    for (uint32_t i = 0; i < BIGDEV_WORDS; i++)
        bigdev[i] = bigdev_word(i);
    RegisterArea *areas = vh_arena(3 * sizeof(RegisterArea));
    RegisterEntry *entries = vh_arena(3 * sizeof(RegisterEntry));
    RegisterAtom *mem = vh_arena(16 * sizeof(RegisterAtom));
    memset(areas, 0, 3 * sizeof(RegisterArea));
    memset(entries, 0, 3 * sizeof(RegisterEntry));
    memset(mem, 0xCD, 16 * sizeof(RegisterAtom));
    areas[0].read = reg_mem_read;
    areas[0].write = reg_mem_write;
    areas[0].mem = mem;
    areas[0].base = mbase;
    areas[0].size = 16;
    areas[0].flags = REG_AF_READABLE | REG_AF_WRITEABLE;
    areas[1].read = bigdev_read;
    areas[1].write = NULL;
    areas[1].base = dbase;
    areas[1].size = BIGDEV_WORDS;
    areas[1].flags = REG_AF_READABLE;
    entries[0].type = REG_TYPE_UINT16;
    entries[0].address = mbase + 3;
    entries[0].default_value.u16 = 0x1234;
    entries[0].check.type = REGV_TYPE_TRIVIAL;
    entries[1].type = REG_TYPE_UINT16;
    entries[1].address = dbase + 70000u;
    entries[1].check.type = REGV_TYPE_TRIVIAL;
    entries[2].type = REG_TYPE_INVALID;
    RegisterTable t;
    memset(&t, 0, sizeof t);
    t.area = areas;
    t.entry = entries;
    if (idx & 2)
        register_make_bigendian(&t, true);
    RegisterInit ri = register_init(&t);
    if (ri.code != REG_INIT_SUCCESS) {
        vh_fail("init-wellformed", "table=bigdev", "memory area %u+16, device area %u+%u: code=%d", mbase, dbase, BIGDEV_WORDS, ri.code);
        return;
    }
    static const struct { uint32_t off, n; } win[] = {
        { 16, 65534 }, { 16, 65535 }, { 16, 65536 }, { 16, 65537 }, { 17, 65535 }, { 17, 70000 }, { 16 + 65535, 1 }, { 16 + 65530, 12 },
        { 16, BIGDEV_WORDS }, { 0, 16 + BIGDEV_WORDS }, { 9, 7 + 66000 }, { 16 + 3, BIGDEV_WORDS - 3 }, { 16 + 0x10000, 0x2000 }, { 16 + 1, 0x10000 },
    };
    for (size_t w = 0; w < sizeof win / sizeof win[0]; w++)
        for (int unsafe = 0; unsafe < 2; unsafe++) {
            VH_CASE4(idx, w, unsafe, 0);
            const uint32_t addr = mbase + win[w].off, n = win[w].n;
            RegisterAtom *buf = vh_arena(sizeof(RegisterAtom) * n);
            memset(buf, 0x5E, sizeof(RegisterAtom) * n);
            bigdev_calls = 0;
            RegisterAccess a = unsafe ? register_block_read_unsafe(&t, addr, n, buf) : register_block_read(&t, addr, n, buf);
            VH_COUNT("read: window of 65535 words or more in one device area");
            char key[64];
            snprintf(key, sizeof key, "table=bigdev entry=%s", unsafe ? "block_read_unsafe" : "block_read");
            if (a.code != REG_ACCESS_SUCCESS) {
                vh_fail("mapped-read-refused", key, "memory area %u+16, device area %u+%u: read(addr=%u,n=%u) code=%d address=%u", mbase, dbase,
                        BIGDEV_WORDS, addr, n, a.code, a.address);
            } else {
                for (uint32_t k = 0; k < n; k++) {
                    uint32_t ad = addr + k;
                    RegisterAtom want;
                    if (ad >= dbase) {
                        want = bigdev_word(ad - dbase);
                    } else {
                        unsigned char e[2] = { 0, 0 };
                        if (ad == mbase + 3)
                            rt_encode(REG_TYPE_UINT16, (idx & 2) != 0, 0x1234, e);
                        memcpy(&want, e, 2);
                    }
                    if (buf[k] != want) {
                        vh_fail("read-content", key, "memory area %u+16, device area %u+%u: read(addr=%u,n=%u): word %u (address %u, device offset %ld) is %04x, stored there is %04x (%u device calls)",
                                mbase, dbase, BIGDEV_WORDS, addr, n, k, ad, (long)ad - (long)dbase, buf[k], want, bigdev_calls);
                        break;
                    }
                }
            }
            if (bigdev_bad) {
                vh_fail("device-read-out-of-range", key, "read(addr=%u,n=%u): the device was asked for words outside its area", addr, n);
                bigdev_bad = 0;
            }
        }
    vh_sig(0x03500000ull ^ idx);
}

void
harness_run(void)
{
    for (uint64_t i = 0; i < 4; i++)
        vh_unit("bigdev", i, u_bigdev, NULL);
    vh_require("read: window of 65535 words or more in one device area");
    uint64_t ntables = vh_tier ? 60000 : 400;
    for (uint64_t i = 0; i < ntables; i++)
        vh_unit("table", i, u_table, NULL);
    static const char *req[] = { "read: zero length", "read: fully mapped and readable",
                                 "read: window includes a non-readable area (reads back zero)",
                                 "read: window touches an unmapped address", "iteration: no register in range",
                                 "iteration: range starts inside a register",
                                 "iteration: range starts in a gap, hole or empty area",
                                 "iteration: stopped by a negative callback result",
                                 "iteration: stopped by a positive callback result",
                                 "iteration: whole-table idiom foreach(0, ADDRESS_MAX)", "uninitialised table probed",
                                 "iteration: range ending exactly at 2^32", "read much longer than the table" };
    for (size_t i = 0; i < sizeof req / sizeof req[0]; i++)
        vh_require(req[i]);
    vh_require("callback-backed area with a memory pointer of its own");
}
