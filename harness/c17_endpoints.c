/* C17 - endpoints move exactly N octets in order whatever the driver does.
 *
 * Scripted octet- and chunk-style drivers play every behaviour script up to
 * a bound; the drivers log what they were asked and what they moved. Oracle:
 * outcome-based (content, counts, returned error, pointer/remaining-count
 * sanity inside the driver, progress bound on driver calls). Destination,
 * source data and auxiliary buffers are exact-size poisoned-arena objects. */
#include "common/vh.h"

#include <errno.h>
#include <limits.h>
#include <sys/types.h>
#include <ufw/byte-buffer.h>
#include <ufw/endpoints.h>

const char *harness_name = "c17_endpoints";

#define HARD (-(EIO))
/* hard errors a driver may report: nothing the library gives a meaning to (it does to EINTR, EAGAIN, ENODATA,
 * ENOMEM), small and large magnitudes, values whose low bits look like counts */
static const int hard_codes[] = { -EIO, -EPIPE, -ETIMEDOUT, -EBADF, -EPERM, -ECONNRESET, -4095, -65541, -0x7fffff00, -256, -EILSEQ };
#define NHARD (sizeof hard_codes / sizeof hard_codes[0])
static int force_hard_code; /* != 0: the hard error every driver script reports (the 'codes' unit) */

enum { A_ONE, A_ZERO, A_EINTR, A_EAGAIN, A_HARD, A_TWO, A_K, A_ALL, NACT };
static const char actch[] = "10iaH2kA";

#define STREAM(i) ((unsigned char)(((i) * 7u + 1u) & 0xffu))
#define MAXS 64

struct drv {
    int chunk;               /* driver style */
    int is_sink;
    unsigned char script[12];
    size_t slen, spos;
    size_t pos;              /* octets moved so far */
    size_t end;              /* source: stream length (then -ENODATA); sink: capacity (then -ENOMEM) */
    unsigned calls, bound;
    int runaway;
    int hard_code;           /* what A_HARD returns */
    int sticky_hard;         /* once a hard error was reported every further call reports it again */
    int hard_returned;       /* a hard error was handed to the library */
    int eio_returned;        /* ... and it was a scripted one (not the end of the stream) */
    int last_ret;
    unsigned calls_after_hard;
    /* expectations the driver can check itself */
    const unsigned char *base; /* where the transfer buffer starts (NULL: unknown) */
    size_t total;            /* N of the current exact transfer (0: unknown) */
    int bad_ptr, bad_ask;
    unsigned char sunk[MAXS];
};

static void
drv_init(struct drv *d, int is_sink, int chunk, uint64_t code, size_t slen, size_t end)
{
    memset(d, 0, sizeof *d);
    d->is_sink = is_sink;
    d->chunk = chunk;
    d->slen = slen;
    unsigned base = chunk ? 8u : 5u;
    for (size_t i = 0; i < slen; i++) {
        d->script[i] = (unsigned char)(code % base);
        code /= base;
    }
    d->end = end;
    d->bound = 64;
    d->hard_code = HARD;
}

static const char *
drv_str(const struct drv *d)
{
    static char b[4][32];
    static int rot;
    char *s = b[rot = (rot + 1) & 3];
    size_t i;
    for (i = 0; i < d->slen; i++)
        s[i] = actch[d->script[i]];
    s[i] = 0;
    return s;
}

/* common behaviour: asked for up to n octets; returns count or error */
static ssize_t
drv_step(struct drv *d, unsigned char *out, const unsigned char *in, size_t n)
{
    if (++d->calls > d->bound) {
        d->runaway = 1;
        d->last_ret = HARD;
        return HARD;
    }
    if (d->hard_returned)
        d->calls_after_hard++;
    if (d->hard_returned && d->sticky_hard) {
        /* an endpoint that has failed stays failed */
        return d->last_ret;
    }
    if (d->base != NULL) {
        const unsigned char *p = d->is_sink ? in : out;
        if (p != d->base + d->pos)
            d->bad_ptr = 1;
    }
    if (d->total && n + d->pos > d->total)
        d->bad_ask = 1;
    int act = d->spos < d->slen ? d->script[d->spos++] : A_ALL;
    size_t k;
    switch (act) {
    case A_ZERO: d->last_ret = 0; return 0;
    case A_EINTR: d->last_ret = -EINTR; return -EINTR;
    case A_EAGAIN: d->last_ret = -EAGAIN; return -EAGAIN;
    case A_HARD: d->hard_returned = 1; d->eio_returned = 1; d->last_ret = d->hard_code; return d->hard_code;
    case A_ONE: k = 1; break;
    case A_TWO: k = 2; break;
    case A_K: k = 3; break;
    default: k = n; break;
    }
    if (k > n)
        k = n;
    if (d->pos >= d->end) {
        d->last_ret = d->is_sink ? -ENOMEM : -ENODATA;
        d->hard_returned = 1;
        return d->last_ret;
    }
    if (k > d->end - d->pos)
        k = d->end - d->pos;
    for (size_t i = 0; i < k; i++) {
        if (d->is_sink) {
            if (d->pos + i < MAXS)
                d->sunk[d->pos + i] = in[i];
        } else {
            out[i] = STREAM(d->pos + i);
        }
    }
    d->pos += k;
    d->last_ret = (int)k;
    return (ssize_t)k;
}

static int
src_octet(void *drv, void *out)
{
    return (int)drv_step(drv, out, NULL, 1);
}
static ssize_t
src_chunk(void *drv, void *out, size_t n)
{
    return drv_step(drv, out, NULL, n);
}
static int
snk_octet(void *drv, unsigned char c)
{
    return (int)drv_step(drv, NULL, &c, 1);
}
static ssize_t
snk_chunk(void *drv, const void *p, size_t n)
{
    return drv_step(drv, NULL, p, n);
}

static size_t plumb_window;
static unsigned char plumb_win[2][8];
static unsigned plumb_bank;

/* a double-buffered source: every call lends the other bank (the one lent before is filled with ee, it is not the
 * current window any more) */
static ByteBuffer
plumb_getbuffer(Source *src)
{
    (void)src;
    ByteBuffer b;
    memset(plumb_win[plumb_bank & 1u], 0xEE, sizeof plumb_win[0]);
    plumb_bank++;
    byte_buffer_use(&b, plumb_win[plumb_bank & 1u], plumb_window);
    return b;
}

/* endpoints are set up by the init functions or by the header's initialiser macros, alternately */
static unsigned mk_toggle;
static void
mk_src(Source *s, struct drv *d)
{
    if ((mk_toggle++ + vh_unit_salt) & 1u) {
        const Source oc = OCTET_SOURCE_INIT(src_octet, d), ch = CHUNK_SOURCE_INIT(src_chunk, d);
        *s = d->chunk ? ch : oc;
    } else if (d->chunk)
        chunk_source_init(s, src_chunk, d);
    else
        octet_source_init(s, src_octet, d);
}
static void
mk_snk(Sink *s, struct drv *d)
{
    if ((mk_toggle++ + vh_unit_salt) & 2u) {
        const Sink oc = OCTET_SINK_INIT(snk_octet, d), ch = CHUNK_SINK_INIT(snk_chunk, d);
        *s = d->chunk ? ch : oc;
    } else if (d->chunk)
        chunk_sink_init(s, snk_chunk, d);
    else
        octet_sink_init(s, snk_octet, d);
}

static int
sunk_is_prefix(const struct drv *k)
{
    for (size_t i = 0; i < k->pos && i < MAXS; i++)
        if (k->sunk[i] != STREAM(i))
            return 0;
    return 1;
}

/* ---- exact transfers: source_get_chunk / sink_put_chunk ---- */

static void
exact_get(int chunk, uint64_t code, size_t slen, size_t N)
{
    struct drv d;
    drv_init(&d, 0, chunk, code, slen, 1000);
    d.hard_code = force_hard_code ? force_hard_code : hard_codes[(code + N) % NHARD];
    d.bound = (unsigned)(8 * N + slen + 8);
    unsigned char *dst = vh_arena(N);
    d.base = chunk ? dst : NULL; /* octet drivers get a pointer per octet: checked through content */
    d.total = N;
    Source s;
    mk_src(&s, &d);
    ssize_t rc = source_get_chunk(&s, dst, N);
    char key[64];
    snprintf(key, sizeof key, "api=source_get_chunk driver=%s", chunk ? "chunk" : "octet");
    if (d.runaway) {
        vh_fail("no-progress", key, "script=%s N=%zu: more than %u driver calls (moved %zu)", drv_str(&d), N, d.bound,
                d.pos);
        return;
    }
    if (d.bad_ask)
        vh_fail("asks-beyond-remaining", key, "script=%s N=%zu", drv_str(&d), N);
    if (d.hard_returned) {
        VH_COUNT("exact get: hard error path");
        if (rc != d.hard_code)
            vh_fail("hard-error-not-returned", key, "script=%s N=%zu rc=%zd", drv_str(&d), N, rc);
        if (d.calls_after_hard)
            vh_fail("retry-after-hard-error", key, "script=%s N=%zu", drv_str(&d), N);
        return;
    }
    VH_COUNT("exact get: completed");
    if (rc != (ssize_t)N || d.pos != N) {
        vh_fail("count", key, "script=%s N=%zu rc=%zd driver moved %zu", drv_str(&d), N, rc, d.pos);
        return;
    }
    if (d.bad_ptr)
        vh_fail("position-not-advanced", key, "script=%s N=%zu: driver was handed a pointer != base+moved",
                drv_str(&d), N);
    for (size_t i = 0; i < N; i++)
        if (dst[i] != STREAM(i)) {
            vh_fail("content", key, "script=%s N=%zu: destination %s", drv_str(&d), N, vh_hex(dst, N));
            break;
        }
}

static void
exact_put(int chunk, uint64_t code, size_t slen, size_t N)
{
    struct drv d;
    drv_init(&d, 1, chunk, code, slen, 1000);
    d.hard_code = force_hard_code ? force_hard_code : hard_codes[(code + N + 3) % NHARD];
    d.bound = (unsigned)(8 * N + slen + 8);
    unsigned char *src = vh_arena(N);
    for (size_t i = 0; i < N; i++)
        src[i] = STREAM(i);
    d.base = chunk ? src : NULL;
    d.total = N;
    Sink s;
    mk_snk(&s, &d);
    ssize_t rc = sink_put_chunk(&s, src, N);
    char key[64];
    snprintf(key, sizeof key, "api=sink_put_chunk driver=%s", chunk ? "chunk" : "octet");
    if (d.runaway) {
        vh_fail("no-progress", key, "script=%s N=%zu: more than %u driver calls (moved %zu)", drv_str(&d), N, d.bound,
                d.pos);
        return;
    }
    if (d.bad_ask)
        vh_fail("asks-beyond-remaining", key, "script=%s N=%zu", drv_str(&d), N);
    if (!sunk_is_prefix(&d))
        vh_fail("content", key, "script=%s N=%zu: sink received %s", drv_str(&d), N, vh_hex(d.sunk, d.pos));
    if (d.hard_returned) {
        VH_COUNT("exact put: hard error path");
        if (rc != d.hard_code)
            vh_fail("hard-error-not-returned", key, "script=%s N=%zu rc=%zd", drv_str(&d), N, rc);
        if (d.calls_after_hard)
            vh_fail("retry-after-hard-error", key, "script=%s N=%zu", drv_str(&d), N);
        return;
    }
    VH_COUNT("exact put: completed");
    if (rc != (ssize_t)N || d.pos != N)
        vh_fail("count", key, "script=%s N=%zu rc=%zd driver moved %zu", drv_str(&d), N, rc, d.pos);
    if (d.bad_ptr)
        vh_fail("position-not-advanced", key, "script=%s N=%zu: driver was handed a pointer != base+moved",
                drv_str(&d), N);
}

/* ---- at-most variants: one round ---- */
static void
atmost(int is_sink, int chunk, uint64_t code, size_t slen, size_t N)
{
    struct drv d;
    drv_init(&d, is_sink, chunk, code, slen, 1000);
    d.hard_code = force_hard_code ? force_hard_code : hard_codes[(code + N + 5) % NHARD];
    d.bound = (unsigned)(8 * N + slen + 8);
    unsigned char *mem = vh_arena(N);
    for (size_t i = 0; i < N; i++)
        mem[i] = is_sink ? STREAM(i) : 0xEE;
    d.total = N;
    ssize_t rc;
    char key[80];
    if (is_sink) {
        Sink s;
        mk_snk(&s, &d);
        rc = sink_put_chunk_atmost(&s, mem, N);
    } else {
        Source s;
        mk_src(&s, &d);
        rc = source_get_chunk_atmost(&s, mem, N);
    }
    snprintf(key, sizeof key, "api=%s driver=%s", is_sink ? "sink_put_chunk_atmost" : "source_get_chunk_atmost",
             chunk ? "chunk" : "octet");
    if (d.runaway) {
        vh_fail("no-progress", key, "script=%s N=%zu: more than %u driver calls", drv_str(&d), N, d.bound);
        return;
    }
    if (d.pos > N || d.bad_ask)
        vh_fail("moves-more-than-asked", key, "script=%s N=%zu moved %zu", drv_str(&d), N, d.pos);
    if (rc >= 0) {
        VH_COUNT("at-most: count returned");
        if ((size_t)rc != d.pos)
            vh_fail("atmost-count", key, "script=%s N=%zu rc=%zd driver moved %zu", drv_str(&d), N, rc, d.pos);
        if (is_sink ? !sunk_is_prefix(&d) : 0)
            vh_fail("content", key, "script=%s N=%zu", drv_str(&d), N);
        if (!is_sink)
            for (size_t i = 0; i < d.pos && i < N; i++)
                if (mem[i] != STREAM(i)) {
                    vh_fail("content", key, "script=%s N=%zu: destination %s", drv_str(&d), N, vh_hex(mem, N));
                    break;
                }
    } else {
        VH_COUNT("at-most: error returned");
        if (rc != d.last_ret)
            vh_fail("atmost-error", key, "script=%s N=%zu rc=%zd, the driver's last result was %d", drv_str(&d), N, rc,
                    d.last_ret);
    }
}

static void
u_exact(uint64_t idx, void *arg)
{
    /* idx selects (driver style, script length); all scripts of that length */
    (void)arg;
    int chunk = (int)(idx & 1);
    size_t slen = (size_t)(idx >> 1) & 0xf;
    uint64_t part = idx >> 5, nparts = 1;
    unsigned base = chunk ? 8u : 5u;
    uint64_t total = 1;
    for (size_t i = 0; i < slen; i++)
        total *= base;
    if (total > 40000)
        nparts = 64;
    uint64_t n = 0;
    for (uint64_t code = part; code < total; code += nparts) {
        vh_arena_reset();
        for (size_t N = 1; N <= 6; N++) {
            VH_CASE4(chunk, slen, code, N);
            vh_case_tag("get");
            exact_get(chunk, code, slen, N);
            vh_case_tag("put");
            exact_put(chunk, code, slen, N);
            vh_case_tag("atmost-get");
            atmost(0, chunk, code, slen, N);
            vh_case_tag("atmost-put");
            atmost(1, chunk, code, slen, N);
            n += 4;
        }
        if (slen <= 3)
            vh_sig(0x17000000ull ^ ((uint64_t)chunk << 40) ^ ((uint64_t)slen << 32) ^ code);
    }
    *vh_ncases += n;
    vh_sig(0x17100000ull ^ idx);
    vh_countf("scripts of length %zu enumerated (%s driver)", slen, chunk ? "chunk" : "octet");
    if (slen == 4 && part == 0) {
        struct drv d;
        drv_init(&d, 0, chunk, 1234 % total, slen, 10);
        vh_sample("script", "%s driver script '%s' (1/2/k=3/A=all asked, 0=zero-length, i=EINTR, a=EAGAIN, H=hard "
                            "error), then N=1..6 octets through source_get_chunk, sink_put_chunk and the at-most "
                            "variants", chunk ? "chunk" : "octet", drv_str(&d));
    }
}

/* ---- invalid counts ---- */
static ssize_t
never_src(void *drv, void *out, size_t n)
{
    (void)out;
    (void)n;
    (*(int *)drv)++;
    return -EIO;
}
static ssize_t
never_snk(void *drv, const void *p, size_t n)
{
    (void)p;
    (void)n;
    (*(int *)drv)++;
    return -EIO;
}

static void
u_invalid(uint64_t idx, void *arg)
{
    (void)arg;
    (void)idx;
    int calls = 0;
    Source s;
    Sink k;
    chunk_source_init(&s, never_src, &calls);
    chunk_sink_init(&k, never_snk, &calls);
    unsigned char *b = vh_arena(4);
    const size_t bad[] = { 0, (size_t)SSIZE_MAX + 1u, (size_t)SSIZE_MAX + 2u, SIZE_MAX, SIZE_MAX - 1 };
    for (size_t i = 0; i < sizeof bad / sizeof bad[0]; i++) {
        VH_CASE2(i, bad[i]);
        ssize_t rc = source_get_chunk(&s, b, bad[i]);
        if (rc != -EINVAL || calls)
            vh_fail("invalid-count", "api=source_get_chunk", "N=%zu rc=%zd driver calls=%d", bad[i], rc, calls);
        rc = sink_put_chunk(&k, b, bad[i]);
        if (rc != -EINVAL || calls)
            vh_fail("invalid-count", "api=sink_put_chunk", "N=%zu rc=%zd driver calls=%d", bad[i], rc, calls);
        calls = 0;
        VH_COUNT("invalid count refused");
        vh_sig(0x17200000ull + i);
    }
    vh_sample("invalid", "source_get_chunk(N=0) and N=SSIZE_MAX+1 must return -EINVAL without a driver call");
}

/* ---- patience: a driver may answer "nothing moved, try again" (0, EINTR, EAGAIN) as often as it likes - tens of
 * thousands of times in a row before it delivers, or once before every small partial transfer of a long one (more
 * than 2^16 such answers within one call, never two in a row). Counting drivers, no memory is touched. ---- */
static struct {
    uint64_t moved, total, calls;
    uint64_t idle_first; /* that many idle answers before anything moves */
    int idle_between;    /* an idle answer before every partial transfer */
    int toggle;
    unsigned per;
} pt;

static ssize_t
pt_step(size_t n)
{
    static const int idle[3] = { 0, -EINTR, -EAGAIN };
    pt.calls++;
    if (pt.calls > 2000000)
        return -EIO; /* runaway guard */
    if (pt.idle_first) {
        pt.idle_first--;
        return idle[pt.calls % 3];
    }
    if (pt.idle_between && (pt.toggle ^= 1))
        return idle[pt.calls % 3];
    uint64_t k = n < pt.per ? n : pt.per;
    if (k > pt.total - pt.moved)
        k = pt.total - pt.moved;
    pt.moved += k;
    return (ssize_t)k;
}

static ssize_t
pt_src(void *drv, void *out, size_t n)
{
    (void)drv;
    (void)out;
    return pt_step(n);
}

static ssize_t
pt_snk(void *drv, const void *p, size_t n)
{
    (void)drv;
    (void)p;
    return pt_step(n);
}

static void
u_patience(uint64_t idx, void *arg)
{
    (void)arg;
    unsigned char *base = vh_arena(16);
    Source s;
    Sink k;
    chunk_source_init(&s, pt_src, NULL);
    chunk_sink_init(&k, pt_snk, NULL);
    const int dir = (int)(idx & 1), mode = (int)(idx >> 1) & 1;
    memset(&pt, 0, sizeof pt);
    size_t N;
    if (mode == 0) {
        /* a long run of idle answers, then everything in pieces of 7 */
        pt.idle_first = 70000 + 3 * idx;
        pt.per = 7;
        N = 64;
    } else {
        /* 200000 octets in pieces of 1..3, an idle answer before each piece */
        pt.idle_between = 1;
        pt.per = 1 + (unsigned)(idx / 4) % 3;
        N = 200000;
    }
    pt.total = N;
    VH_CASE4(idx, dir, mode, N);
    ssize_t rc = dir ? sink_put_chunk(&k, base, N) : source_get_chunk(&s, base, N);
    char key[96];
    snprintf(key, sizeof key, "api=%s driver=chunk patience=%s", dir ? "sink_put_chunk" : "source_get_chunk",
             mode ? "idle-before-every-piece" : "long-idle-run");
    if (rc != (ssize_t)N || pt.moved != N)
        vh_fail("count", key, "N=%zu: rc=%zd after %" PRIu64 " driver calls, %" PRIu64 " octets moved (the driver never reported an error)", N, rc,
                pt.calls, pt.moved);
    (*vh_ncases)++;
    VH_COUNT("drivers that answer 'try again' more than 2^16 times within one call");
    vh_sig(0x17c00000ull ^ idx);
}

/* ---- every error code a driver may report: whatever is not EINTR or EAGAIN is final and comes back unchanged -
 * at the first call and after one octet was moved, through the exact and the at-most calls, both driver styles ---- */
static void
u_codes(uint64_t idx, void *arg)
{
    (void)arg;
    const int chunk = (int)(idx & 1);
    const unsigned base = chunk ? 8u : 5u;
    uint64_t n = 0;
    for (size_t slen = 1; slen <= 2; slen++) {
        uint64_t total = slen == 1 ? base : base * base, want = UINT64_MAX;
        for (uint64_t code = 0; code < total; code++) {
            struct drv d;
            drv_init(&d, 0, chunk, code, slen, 10);
            if (strcmp(drv_str(&d), slen == 1 ? "H" : "1H") == 0)
                want = code;
        }
        if (want == UINT64_MAX) {
            vh_broken("no script '%s' for %s drivers", slen == 1 ? "H" : "1H", chunk ? "chunk" : "octet");
            return;
        }
        for (int e = 1; e <= 140; e++) {
            if (e == EINTR || e == EAGAIN)
                continue;
            force_hard_code = -e;
            vh_arena_reset();
            VH_CASE4(chunk, slen, e, 3);
            vh_case_tag("get");
            exact_get(chunk, want, slen, 3);
            vh_case_tag("put");
            exact_put(chunk, want, slen, 3);
            vh_case_tag("atmost-get");
            atmost(0, chunk, want, slen, 3);
            vh_case_tag("atmost-put");
            atmost(1, chunk, want, slen, 3);
            n += 4;
        }
        force_hard_code = 0;
    }
    *vh_ncases += n;
    VH_COUNT("every errno value 1..140 as a driver's hard error");
    vh_sig(0x17b00000ull ^ idx);
}

/* ---- nothing asked for, nowhere to put it: at-most transfers of zero octets and auxiliary buffers without free
 * space. Whatever the call answers (the statement only refuses N = 0 for the exact variants), it moves nothing: the
 * source keeps its octets, the sink gets none, no memory is written. ---- */
static void
u_nothing(uint64_t idx, void *arg)
{
    (void)arg;
    const int srcchunk = (int)(idx & 1), snkchunk = (int)(idx >> 1) & 1;
    for (int what = 0; what < 6; what++)
        for (size_t asz = 1; asz <= 4; asz++) {
            struct drv sd, kd;
            drv_init(&sd, 0, srcchunk, 0, 0, 20);
            drv_init(&kd, 1, snkchunk, 0, 0, 1000);
            sd.bound = kd.bound = 64;
            Source s;
            Sink k;
            mk_src(&s, &sd);
            mk_snk(&k, &kd);
            vh_arena_reset();
            unsigned char *mem = vh_arena(asz), img[8];
            for (size_t i = 0; i < asz; i++)
                mem[i] = img[i] = (unsigned char)(0xE0 + i);
            ByteBuffer aux;
            byte_buffer_set(&aux, mem, asz, asz, 0); /* full: used == size */
            ssize_t rc;
            const char *api;
            VH_CASE4(idx, what, asz, 0);
            switch (what) {
            case 0: api = "source_get_chunk_atmost(0)"; rc = source_get_chunk_atmost(&s, mem, 0); break;
            case 1: api = "sink_put_chunk_atmost(0)"; rc = sink_put_chunk_atmost(&k, mem, 0); break;
            case 2: api = "sts_some_aux(full buffer)"; rc = sts_some_aux(&s, &k, &aux); break;
            case 3: api = "sts_atmost_aux(full buffer)"; rc = sts_atmost_aux(&s, &k, &aux, asz); break;
            case 4: api = "sts_n_aux(full buffer)"; rc = sts_n_aux(&s, &k, &aux, 3); break;
            default: api = "sts_drain_aux(full buffer)"; rc = sts_drain_aux(&s, &k, &aux); break;
            }
            char key[96];
            snprintf(key, sizeof key, "api=%s source=%s sink=%s", api, srcchunk ? "chunk" : "octet", snkchunk ? "chunk" : "octet");
            if (sd.runaway || kd.runaway) {
                vh_fail("no-progress", key, "size %zu: driver call bound exceeded", asz);
                continue;
            }
            if (sd.pos != 0 || kd.pos != 0 || memcmp(mem, img, asz) != 0 || rc > 0)
                vh_fail("moved-although-nothing-could-be", key, "size %zu: rc=%zd, source gave %zu octets, sink got %zu, memory %s (was %s)", asz, rc,
                        sd.pos, kd.pos, vh_hex(mem, asz), vh_hex(img, asz));
            if (what >= 2 && (aux.used != asz || aux.offset != 0 || aux.size != asz || aux.data != mem))
                vh_fail("aux-marks", key, "size %zu: aux buffer now offset=%zu used=%zu size=%zu", asz, aux.offset, aux.used, aux.size);
            VH_COUNT("nothing to move: at-most zero / auxiliary buffer without free space");
            (*vh_ncases)++;
        }
    vh_sig(0x17a00000ull ^ idx);
}

/* ---- plumbing ---- */
enum { F_CBC, F_N_CBC, F_DRAIN_CBC, F_N, F_DRAIN, F_SOME_AUX, F_ATMOST_AUX, F_N_AUX, F_DRAIN_AUX, NFUN };
static const char *fname[] = { "sts_cbc", "sts_n_cbc", "sts_drain_cbc", "sts_n", "sts_drain",
                               "sts_some_aux", "sts_atmost_aux", "sts_n_aux", "sts_drain_aux" };
/* plumbing scripts use these actions only */
static const unsigned char pact[4] = { A_ONE, A_TWO, A_ALL, A_HARD };

static void
pl_script(struct drv *d, unsigned code, size_t slen)
{
    d->slen = slen;
    for (size_t i = 0; i < slen; i++) {
        d->script[i] = pact[code & 3];
        code >>= 2;
    }
}

static void
plumb(int fun, int srcchunk, int snkchunk, unsigned scode, size_t sl, unsigned kcode, size_t kl, size_t N, size_t L,
      size_t auxsize, size_t auxused, int sink_full)
{
    /* auxused may carry the number of octets that were consumed already in its upper half (counted and draining
     * plumbing only: those rewind the buffer first, which is where its room comes from then) */
    const size_t auxoff = auxused >> 8;
    auxused &= 0xff;
    struct drv sd, kd;
    drv_init(&sd, 0, srcchunk, 0, 0, L);
    drv_init(&kd, 1, snkchunk, 0, 0, 1000);
    pl_script(&sd, scode, sl);
    pl_script(&kd, kcode, kl);
    sd.hard_code = hard_codes[(scode + kcode + N) % NHARD];
    kd.hard_code = hard_codes[(scode + 3 * kcode + L) % NHARD];
    if (sink_full)
        kd.hard_code = -ENOMEM; /* what the driver contract prescribes for a sink that ran out of space */
    sd.bound = kd.bound = (unsigned)(8 * (N + L) + 24);
    Source s;
    Sink k;
    mk_src(&s, &sd);
    mk_snk(&k, &kd);
    /* sts_n and sts_drain "make sense where the source or the sink implements the getbuffer extension": a third
     * of their runs over chunk sources expose a transfer window of 1..5 octets (a scratch buffer the plumbing
     * reads the source's octets into, as endpoints/core.c uses it) */
    if ((fun == F_N || fun == F_DRAIN) && srcchunk && (scode + kcode + N + L) % 3 == 0) {
        plumb_window = 1 + (scode + 2 * kcode + N) % 5;
        s.ext.getbuffer = plumb_getbuffer;
        /* With a window in play the plumbing retries after a sink reported -ENOMEM; the octets already taken from
         * the source are gone then. The extension has no written contract that says whether a sink may recover
         * from that, so these runs use endpoints whose failure is final (DESIGN.md section 14). */
        sd.sticky_hard = kd.sticky_hard = 1;
        VH_COUNT("plumbing through a source with a transfer window");
    }
    ByteBuffer aux;
    unsigned char *auxmem = NULL;
    if (fun >= F_SOME_AUX) {
        auxmem = vh_arena(auxsize);
        for (size_t i = 0; i < auxsize; i++)
            auxmem[i] = (unsigned char)(0xD0 + i);
        byte_buffer_set(&aux, auxmem, auxsize, auxused, auxoff);
    }
    ssize_t rc;
    switch (fun) {
    case F_CBC: rc = sts_cbc(&s, &k); break;
    case F_N_CBC: rc = sts_n_cbc(&s, &k, N); break;
    case F_DRAIN_CBC: rc = sts_drain_cbc(&s, &k); break;
    case F_N: rc = sts_n(&s, &k, N); break;
    case F_DRAIN: rc = sts_drain(&s, &k); break;
    case F_SOME_AUX: rc = sts_some_aux(&s, &k, &aux); break;
    case F_ATMOST_AUX: rc = sts_atmost_aux(&s, &k, &aux, N); break;
    case F_N_AUX: rc = sts_n_aux(&s, &k, &aux, N); break;
    default: rc = sts_drain_aux(&s, &k, &aux); break;
    }
    char key[128], ctx[200];
    snprintf(key, sizeof key, "api=%s source=%s sink=%s sinkerr=%s", fname[fun], srcchunk ? "chunk" : "octet",
             snkchunk ? "chunk" : "octet", sink_full ? "ENOMEM" : "EIO");
    snprintf(ctx, sizeof ctx, "src script=%s sink script=%s N=%zu stream length=%zu aux size=%zu used=%zu",
             drv_str(&sd), drv_str(&kd), N, L, auxsize, auxused);
    if (sd.runaway || kd.runaway) {
        vh_fail("no-progress", key, "%s: driver call bound %u exceeded (source moved %zu, sink %zu)", ctx, sd.bound,
                sd.pos, kd.pos);
        return;
    }
    if (!sunk_is_prefix(&kd)) {
        vh_fail("sink-not-prefix", key, "%s: sink received %s", ctx, vh_hex(kd.sunk, kd.pos));
        return;
    }
    if (kd.pos > sd.pos)
        vh_fail("sink-more-than-source", key, "%s: sink %zu source %zu", ctx, kd.pos, sd.pos);
    if (fun >= F_SOME_AUX && auxoff) {
        /* the unread octets are still there, in order (the functions may have moved them to the front) */
        int same = aux.data == auxmem && aux.size == auxsize && aux.offset <= aux.used && aux.used <= auxsize
                   && aux.used - aux.offset == auxused - auxoff;
        for (size_t i = 0; same && i < auxused - auxoff; i++)
            same = auxmem[aux.offset + i] == (unsigned char)(0xD0 + auxoff + i);
        if (!same)
            vh_fail("aux-content", key, "%s (%zu octets consumed): the unread octets of the auxiliary buffer changed: offset=%zu used=%zu memory %s", ctx,
                    auxoff, aux.offset, aux.used, vh_hex(auxmem, auxsize));
    } else if (fun >= F_SOME_AUX) {
        if (aux.data != auxmem || aux.size != auxsize || aux.used != auxused || aux.offset != 0)
            vh_fail("aux-marks", key, "%s: aux buffer now offset=%zu used=%zu size=%zu", ctx, aux.offset, aux.used,
                    aux.size);
        for (size_t i = 0; i < auxused; i++)
            if (auxmem[i] != (unsigned char)(0xD0 + i)) {
                vh_fail("aux-content", key, "%s: filled octets of the auxiliary buffer changed: %s", ctx,
                        vh_hex(auxmem, auxsize));
                break;
            }
    }
    /* Outcome oracle. The statement asks for exact counts on success, "an
     * error" on failure and a prefix in the sink in all cases; it does not
     * say that a transient driver error must abort the plumbing, so a
     * function that carries on after one and still moves exactly what was
     * asked, in order, has not failed. */
    int any_err = sd.hard_returned || kd.hard_returned;
    int only_source_end = !kd.hard_returned && sd.hard_returned && !sd.eio_returned;
    switch (fun) {
    case F_CBC:
    case F_SOME_AUX:
    case F_ATMOST_AUX: {
        size_t cap = fun == F_CBC ? 1 : auxsize - auxused;
        if (fun == F_ATMOST_AUX && N < cap)
            cap = N;
        if (rc >= 0) {
            VH_COUNT("plumbing single round: moved");
            if ((size_t)rc != kd.pos || kd.pos != sd.pos || kd.pos > cap || kd.pos == 0)
                vh_fail("round-count", key, "%s: rc=%zd source moved %zu sink moved %zu limit %zu", ctx, rc, sd.pos,
                        kd.pos, cap);
        } else {
            VH_COUNT("plumbing single round: driver error");
            if (!any_err)
                vh_fail("spurious-error", key, "%s: rc=%zd although no driver reported an error", ctx, rc);
        }
        break;
    }
    case F_N_CBC:
    case F_N:
    case F_N_AUX:
        if (rc >= 0) {
            VH_COUNT("plumbing counted: completed");
            if (rc != (ssize_t)N || kd.pos != N || sd.pos != N)
                vh_fail("count", key, "%s: rc=%zd source moved %zu sink moved %zu", ctx, rc, sd.pos, kd.pos);
        } else {
            if (only_source_end)
                VH_COUNT("plumbing counted: source ended early");
            else
                VH_COUNT("plumbing counted: driver error");
            if (!any_err)
                vh_fail("spurious-error", key, "%s: rc=%zd although no driver reported an error", ctx, rc);
            if (only_source_end && kd.pos != L)
                vh_fail("not-everything-up-to-end", key, "%s: sink has %zu of %zu", ctx, kd.pos, L);
            /* the source can only have reported its end if it was asked for more than the stream holds */
            if (only_source_end && L >= N)
                vh_fail("count", key, "%s: rc=%zd: the stream holds %zu octets, %zu were requested, yet the source was read to "
                        "its end (source moved %zu, sink moved %zu)", ctx, rc, L, N, sd.pos, kd.pos);
        }
        break;
    default: /* drains */
        if (rc >= 0)
            vh_fail("drain-returns-success", key, "%s: rc=%zd", ctx, rc);
        if (!any_err)
            vh_fail("spurious-error", key, "%s: rc=%zd although no driver reported an error", ctx, rc);
        if (only_source_end) {
            VH_COUNT("plumbing drain: reached the source's end");
            if (kd.pos != L || sd.pos != L)
                vh_fail("drain-incomplete", key, "%s: rc=%zd source moved %zu sink moved %zu", ctx, rc, sd.pos,
                        kd.pos);
        } else {
            VH_COUNT("plumbing drain: driver error");
        }
        break;
    }
}

static void
u_plumb(uint64_t idx, void *arg)
{
    (void)arg;
    int fun = (int)(idx % NFUN);
    int styles = (int)(idx / NFUN) % 4;
    int sink_full = (int)(idx / NFUN / 4) % 2;
    size_t maxl = vh_tier ? 4 : 3;
    uint64_t n = 0;
    for (size_t sl = 0; sl <= maxl; sl++)
        for (unsigned sc = 0; sc < (1u << (2 * sl)); sc++)
            for (size_t kl = 0; kl <= maxl; kl++)
                for (unsigned kc = 0; kc < (1u << (2 * kl)); kc++) {
                    if (!vh_tier && sl == 3 && kl == 3 && ((sc * 64 + kc) % 4) != 0)
                        continue;
                    if (vh_tier && sl + kl >= 7 && ((sc * 256 + kc) % 8) != 0)
                        continue;
                    vh_arena_reset();
                    for (size_t N = 1; N <= 6; N++) {
                        size_t Ls[2] = { N + 3, N > 1 ? N - 1 : 1 };
                        for (int li = 0; li < 2; li++) {
                            if (li == 1 && (fun == F_CBC || fun == F_SOME_AUX || fun == F_ATMOST_AUX) && N > 1)
                                continue;
                            /* aux: empty buffers of size 1..4, and buffers that already hold octets (the region
                             * the plumbing may use is what is free behind them) */
                            static const size_t auxcfg[][2] = { { 1, 0 }, { 2, 0 }, { 3, 0 }, { 4, 0 }, { 4, 2 }, { 5, 3 },
                                                                { 8, 4 }, { 8, 5 }, { 6, 1 }, { 7, 6 } };
                            /* buffers that were partly or wholly consumed before, some of them full to the brim */
                            static const size_t auxcons[][3] = { { 4, 4, 2 }, { 3, 3, 3 }, { 5, 5, 1 }, { 4, 3, 1 }, { 2, 2, 1 }, { 6, 4, 4 } };
                            size_t nplain = sizeof auxcfg / sizeof auxcfg[0];
                            size_t naux = fun >= F_SOME_AUX ? nplain : 1;
                            if (fun == F_N_AUX || fun == F_DRAIN_AUX)
                                naux += sizeof auxcons / sizeof auxcons[0];
                            for (size_t a = 0; a < naux; a++) {
                                size_t asz = a < nplain ? auxcfg[a][0] : auxcons[a - nplain][0];
                                size_t aused = a < nplain ? auxcfg[a][1] : (auxcons[a - nplain][1] | auxcons[a - nplain][2] << 8);
                                if (a >= nplain)
                                    VH_COUNT("auxiliary buffer with consumed octets in front");
                                if (aused)
                                    VH_COUNT("auxiliary buffer that already holds octets");
                                VH_CASE4(fun, styles, ((uint64_t)sl << 24) | ((uint64_t)sc << 12) | kc,
                                         (N << 8) | (Ls[li] << 4) | a);
                                VH_SUB(4, kl);
                                plumb(fun, styles & 1, (styles >> 1) & 1, sc, sl, kc, kl, N, Ls[li], asz, aused, sink_full);
                                n++;
                            }
                        }
                    }
                    if (sl + kl <= 3)
                        vh_sig(0x17300000ull ^ (idx << 32) ^ ((uint64_t)sl << 28) ^ ((uint64_t)kl << 24)
                               ^ ((uint64_t)sc << 12) ^ kc);
                }
    *vh_ncases += n;
    vh_sig(0x17400000ull ^ idx);
    vh_countf("plumbing scripts enumerated for %s", fname[fun]);
    if (styles == 1)
        vh_sample(fname[fun], "%s with chunk source/octet sink: all source x sink scripts up to length %zu over "
                              "{1,2,A=all,H=hard error}, N=1..6, stream longer and shorter than N", fname[fun], maxl);
}

/* ---- random long transfers ---- */
static void
u_random(uint64_t idx, void *arg)
{
    (void)arg;
    vh_rng r;
    vh_unit_rng(&r, "random", idx);
    for (int k = 0; k < 200; k++) {
        vh_arena_reset();
        int chunk = (int)vh_below(&r, 2);
        size_t slen = 1 + (size_t)vh_below(&r, 12);
        uint64_t code = vh_rand(&r);
        size_t N = 1 + (size_t)vh_below(&r, 40);
        VH_CASE4(idx, k, N, slen);
        /* keep hard errors rare so that long transfers complete */
        struct drv probe;
        drv_init(&probe, 0, chunk, code, slen, 10);
        if (vh_chance(&r, 3, 4)) {
            unsigned base = chunk ? 8u : 5u;
            uint64_t c2 = 0, mul = 1;
            for (size_t i = 0; i < slen; i++) {
                unsigned a = probe.script[i] == A_HARD ? A_ZERO : probe.script[i];
                c2 += a * mul;
                mul *= base;
            }
            code = c2;
        }
        exact_get(chunk, code, slen, N);
        exact_put(chunk, code, slen, N);
        vh_sig(0x17500000ull ^ (idx << 8) ^ (uint64_t)k);
    }
    *vh_ncases += 400;
    VH_COUNT("random long transfers");
}

/* very long transfers: counts beyond 255, 65535 and 2^31 must not be truncated anywhere */
static struct {
    size_t total, moved, maxper;
    int is_sink;
    unsigned char *mem;
    int mismatch;
} big;

static ssize_t
big_chunk_src(void *drv, void *out, size_t n)
{
    (void)drv;
    if (big.moved >= big.total)
        return -ENODATA;
    size_t k = n < big.maxper ? n : big.maxper;
    if (k > big.total - big.moved)
        k = big.total - big.moved;
    unsigned char *o = out;
    for (size_t i = 0; i < k; i++)
        o[i] = STREAM(big.moved + i);
    big.moved += k;
    return (ssize_t)k;
}

static ssize_t
big_chunk_snk(void *drv, const void *p, size_t n)
{
    (void)drv;
    size_t k = n < big.maxper ? n : big.maxper;
    const unsigned char *c = p;
    for (size_t i = 0; i < k; i++)
        if (c[i] != STREAM(big.moved + i))
            big.mismatch = 1;
    big.moved += k;
    return (ssize_t)k;
}

static void
u_big(uint64_t idx, void *arg)
{
    (void)arg;
    static const size_t Ns[] = { 255, 256, 257, 65535, 65536, 65537, 100000, 300000 };
    static const size_t pers[] = { 1, 7, 255, 256, 4096, 65535, 65536, 1u << 20 };
    size_t N = Ns[idx % 8];
    for (size_t pi = 0; pi < 8; pi++) {
        if (N > 70000 && pers[pi] < 255)
            continue;
        vh_arena_reset();
        unsigned char *mem = vh_arena(N);
        Source s;
        Sink k;
        chunk_source_init(&s, big_chunk_src, NULL);
        chunk_sink_init(&k, big_chunk_snk, NULL);
        VH_CASE4(idx, N, pers[pi], 0);
        memset(&big, 0, sizeof big);
        big.total = N + 10;
        big.maxper = pers[pi];
        ssize_t rc = source_get_chunk(&s, mem, N);
        int ok = rc == (ssize_t)N && big.moved == N;
        for (size_t i = 0; ok && i < N; i++)
            ok = mem[i] == STREAM(i);
        if (!ok)
            vh_fail("count", "api=source_get_chunk driver=chunk size=large", "N=%zu per call <= %zu: rc=%zd moved %zu", N,
                    pers[pi], rc, big.moved);
        memset(&big, 0, sizeof big);
        big.maxper = pers[pi];
        rc = sink_put_chunk(&k, mem, N);
        if (rc != (ssize_t)N || big.moved != N || big.mismatch)
            vh_fail("count", "api=sink_put_chunk driver=chunk size=large", "N=%zu per call <= %zu: rc=%zd moved %zu mismatch %d",
                    N, pers[pi], rc, big.moved, big.mismatch);
        /* plumbing with a large count and a small auxiliary buffer */
        if (N <= 70000) {
            unsigned char *auxmem = vh_arena(300);
            ByteBuffer aux;
            byte_buffer_space(&aux, auxmem, 300);
            memset(&big, 0, sizeof big);
            big.total = N + 10;
            big.maxper = pers[pi];
            size_t src_total = 0;
            /* source and sink share the counter structure only through 'moved'; use separate runs */
            Source s2;
            chunk_source_init(&s2, big_chunk_src, NULL);
            struct drv kd;
            drv_init(&kd, 1, 1, 0, 0, 1u << 30);
            kd.bound = 1u << 30;
            Sink k2;
            mk_snk(&k2, &kd);
            rc = sts_n_aux(&s2, &k2, &aux, N);
            src_total = big.moved;
            int pfx = 1;
            for (size_t i = 0; i < kd.pos && i < MAXS; i++)
                pfx &= kd.sunk[i] == STREAM(i);
            if (rc != (ssize_t)N || kd.pos != N || src_total != N || !pfx)
                vh_fail("count", "api=sts_n_aux size=large", "N=%zu per call <= %zu: rc=%zd source moved %zu sink moved %zu", N,
                        pers[pi], rc, src_total, kd.pos);
        }
        VH_COUNT("large transfers (counts beyond 255 / 65535)");
        *vh_ncases += 3;
    }
    vh_sig(0x17600000ull ^ idx);
}

/* ---- counts that do not fit 31 or 32 bits: counting drivers, no memory is touched ---- */
static struct {
    const unsigned char *base;
    uint64_t moved, total, percall;
    int first; /* behaviour of the first call: 0 normal, 1 EINTR, 2 zero, 3 seven octets */
    unsigned fail_after; /* > 0: the fail_after-th call (1-based) reports fail_code */
    int fail_code;
    unsigned calls;
    int bad_ptr, bad_ask;
} hg;

static ssize_t
hg_step(const unsigned char *p, size_t n)
{
    unsigned call = hg.calls++;
    if (hg.calls > 64)
        return -EIO;
    if (p != hg.base + hg.moved)
        hg.bad_ptr = 1;
    if (n > hg.total - hg.moved)
        hg.bad_ask = 1;
    if (hg.fail_after && call + 1 == hg.fail_after)
        return hg.fail_code;
    if (call == 0 && hg.first == 1)
        return -EINTR;
    if (call == 0 && hg.first == 2)
        return 0;
    uint64_t k = n;
    if (call == 0 && hg.first == 3 && k > 7)
        k = 7;
    if (k > hg.percall)
        k = hg.percall;
    hg.moved += k;
    return (ssize_t)k;
}

static ssize_t
hg_src(void *drv, void *out, size_t n)
{
    (void)drv;
    return hg_step(out, n);
}

static ssize_t
hg_snk(void *drv, const void *p, size_t n)
{
    (void)drv;
    return hg_step(p, n);
}

static void
u_huge(uint64_t idx, void *arg)
{
    (void)arg;
    (void)idx;
    static const uint64_t Ns[] = { 0x7fffffffull, 0x80000000ull, 0x80000010ull, 0xffffffffull, 0x100000000ull,
                                   0x100000003ull, 0x200000005ull };
    static const uint64_t pers[] = { 0x7fffffffull, 0x80000000ull, 0x100000000ull, 0x100000003ull, UINT64_MAX };
    unsigned char *base = vh_arena(16);
    Source s;
    Sink k;
    chunk_source_init(&s, hg_src, NULL);
    chunk_sink_init(&k, hg_snk, NULL);
    for (size_t ni = 0; ni < 7; ni++)
        for (size_t pi = 0; pi < 5; pi++)
            for (int first = 0; first < 4; first++)
                for (int dir = 0; dir < 2; dir++) {
                    memset(&hg, 0, sizeof hg);
                    hg.base = base;
                    hg.total = Ns[ni];
                    hg.percall = pers[pi];
                    hg.first = first;
                    VH_CASE4(ni, pi, first, dir);
                    ssize_t rc = dir ? sink_put_chunk(&k, base, (size_t)Ns[ni]) : source_get_chunk(&s, base, (size_t)Ns[ni]);
                    char key[80];
                    snprintf(key, sizeof key, "api=%s driver=chunk size=huge", dir ? "sink_put_chunk" : "source_get_chunk");
                    if (rc != (ssize_t)Ns[ni] || hg.moved != Ns[ni] || hg.bad_ptr || hg.bad_ask)
                        vh_fail("count", key, "N=%" PRIx64 " per call <= %" PRIx64 " first=%d: rc=%zd moved %" PRIx64 " bad pointer %d asks beyond %d",
                                Ns[ni], pers[pi], first, rc, hg.moved, hg.bad_ptr, hg.bad_ask);
                    (*vh_ncases)++;
                }
    /* the largest legal count, SSIZE_MAX, and its neighbour: legal requests that no stream can satisfy - the
     * driver moves a few octets and then reports an error, which must come back unchanged (N = SSIZE_MAX + 1 is
     * the first illegal count and is covered by 'invalid') */
    {
        static const uint64_t Nmax[] = { (uint64_t)SSIZE_MAX, (uint64_t)SSIZE_MAX - 1, (uint64_t)SSIZE_MAX / 2 + 1 };
        static const int errs[] = { -EIO, -ENODATA, -ENOMEM, -EPIPE };
        for (size_t ni = 0; ni < 3; ni++)
            for (size_t ei = 0; ei < 4; ei++)
                for (unsigned before = 0; before < 3; before++)
                    for (int dir = 0; dir < 2; dir++) {
                        memset(&hg, 0, sizeof hg);
                        hg.base = base;
                        hg.total = Nmax[ni];
                        hg.percall = 2; /* two octets per call ... */
                        hg.first = 0;
                        hg.fail_after = before + 1; /* ... and then the error */
                        hg.fail_code = errs[ei];
                        VH_CASE4(100 + ni, ei, before, dir);
                        ssize_t rc = dir ? sink_put_chunk(&k, base, (size_t)Nmax[ni]) : source_get_chunk(&s, base, (size_t)Nmax[ni]);
                        char key[80];
                        snprintf(key, sizeof key, "api=%s driver=chunk size=largest-legal", dir ? "sink_put_chunk" : "source_get_chunk");
                        if (rc != errs[ei] || hg.moved != 2ull * before || hg.bad_ptr || hg.bad_ask)
                            vh_fail("hard-error-not-returned", key, "N=%" PRIx64 " driver moves %u octets and then reports %d: rc=%zd moved %" PRIx64
                                    " bad pointer %d asks beyond %d", Nmax[ni], 2 * before, errs[ei], rc, hg.moved, hg.bad_ptr, hg.bad_ask);
                        (*vh_ncases)++;
                    }
        VH_COUNT("largest legal count (SSIZE_MAX) requested from a stream that ends with an error");
    }
    VH_COUNT("huge transfers (a single driver call moves 2^31 octets or more)");
    vh_sig(0x17800000ull);
    vh_sample("huge", "source_get_chunk / sink_put_chunk of 2^31-1 .. 2^33+5 octets through counting chunk drivers that move up to "
                      "2^32+3 octets per call (no memory is touched)");
}

/* ---- layered endpoints: a driver that itself uses the endpoint API on a lower endpoint ----
 * A stuffing filter in front of a sink (FLAG 7e and ESC 7d become ESC, octet ^ 20 - it emits the ESC to the lower
 * sink first and looks at its own input again afterwards) and the matching un-stuffing source on top of a lower
 * source. Whatever the API keeps between the moment a driver is called and the moment the driver reads its
 * arguments must belong to that call. */
struct layer {
    Sink *lower_sink;
    Source *lower_src;
    int use_chunk_api; /* forward runs with sink_put_chunk / pull with source_get_chunk where possible */
    unsigned calls;
};

struct collect {
    unsigned char buf[600];
    size_t n;
    const unsigned char *p; /* source side: what the lower source delivers */
    size_t plen, ppos;
    size_t maxper;
};

static ssize_t
collect_chunk(void *drv, const void *p, size_t n)
{
    struct collect *c = drv;
    if (c->maxper && n > c->maxper)
        n = c->maxper;
    if (c->n + n > sizeof c->buf)
        return -ENOMEM;
    memcpy(c->buf + c->n, p, n);
    c->n += n;
    return (ssize_t)n;
}

static int
collect_octet(void *drv, unsigned char o)
{
    return (int)collect_chunk(drv, &o, 1);
}

static ssize_t
deliver_chunk(void *drv, void *out, size_t n)
{
    struct collect *c = drv;
    if (c->ppos >= c->plen)
        return -ENODATA;
    if (c->maxper && n > c->maxper)
        n = c->maxper;
    if (n > c->plen - c->ppos)
        n = c->plen - c->ppos;
    memcpy(out, c->p + c->ppos, n);
    c->ppos += n;
    return (ssize_t)n;
}

static int
deliver_octet(void *drv, void *out)
{
    return (int)deliver_chunk(drv, out, 1);
}

static ssize_t
stuff_chunk(void *drv, const void *p, size_t n)
{
    struct layer *l = drv;
    const unsigned char *in = p;
    l->calls++;
    for (size_t i = 0; i < n; i++) {
        int rc;
        if (in[i] == 0x7e || in[i] == 0x7d) {
            rc = sink_put_octet(l->lower_sink, 0x7d);
            if (rc < 0)
                return rc;
            /* only now is the octet itself looked at again */
            rc = sink_put_octet(l->lower_sink, (unsigned char)(in[i] ^ 0x20));
        } else if (l->use_chunk_api) {
            size_t run = 1;
            while (i + run < n && in[i + run] != 0x7e && in[i + run] != 0x7d)
                run++;
            ssize_t r = sink_put_chunk(l->lower_sink, in + i, run);
            rc = r < 0 ? (int)r : 1;
            i += run - 1;
        } else {
            rc = sink_put_octet(l->lower_sink, in[i]);
        }
        if (rc < 0)
            return rc;
    }
    return (ssize_t)n;
}

static int
stuff_octet(void *drv, unsigned char o)
{
    return (int)stuff_chunk(drv, &o, 1);
}

static int
unstuff_octet(void *drv, void *out)
{
    struct layer *l = drv;
    unsigned char c;
    l->calls++;
    int rc = source_get_octet(l->lower_src, &c);
    if (rc < 0)
        return rc;
    if (c == 0x7d) {
        unsigned char d;
        rc = l->use_chunk_api ? (int)source_get_chunk(l->lower_src, &d, 1) : source_get_octet(l->lower_src, &d);
        if (rc < 0)
            return rc;
        c = (unsigned char)(d ^ 0x20);
    }
    *(unsigned char *)out = c;
    return 1;
}

static ssize_t
unstuff_chunk(void *drv, void *out, size_t n)
{
    unsigned char *o = out;
    size_t k = 0;
    /* at most three octets per call: a chunk driver may deliver less than asked */
    while (k < n && k < 3) {
        int rc = unstuff_octet(drv, o + k);
        if (rc < 0)
            return k ? (ssize_t)k : rc;
        k++;
    }
    return (ssize_t)k;
}

/* endpoints whose drivers keep their state elsewhere (a UART's putc/getc): the driver context is NULL */
static unsigned char g_stream[64], g_sunk[64];
static size_t g_spos, g_slen, g_kpos;

static int
g_src_octet(void *drv, void *out)
{
    if (drv != NULL || g_spos >= g_slen)
        return drv != NULL ? -EINVAL : -ENODATA;
    *(unsigned char *)out = g_stream[g_spos++];
    return 1;
}

static int
g_snk_octet(void *drv, unsigned char c)
{
    if (drv != NULL || g_kpos >= sizeof g_sunk)
        return drv != NULL ? -EINVAL : -ENOMEM;
    g_sunk[g_kpos++] = c;
    return 1;
}

static ssize_t
g_src_chunk(void *drv, void *out, size_t n)
{
    if (drv != NULL)
        return -EINVAL;
    if (g_spos >= g_slen)
        return -ENODATA;
    if (n > 3)
        n = 3;
    if (n > g_slen - g_spos)
        n = g_slen - g_spos;
    memcpy(out, g_stream + g_spos, n);
    g_spos += n;
    return (ssize_t)n;
}

static ssize_t
g_snk_chunk(void *drv, const void *p, size_t n)
{
    if (drv != NULL)
        return -EINVAL;
    if (n > 2)
        n = 2;
    if (g_kpos + n > sizeof g_sunk)
        return -ENOMEM;
    memcpy(g_sunk + g_kpos, p, n);
    g_kpos += n;
    return (ssize_t)n;
}

static void
contextless(vh_rng *r)
{
    g_slen = 8 + (size_t)vh_below(r, 40);
    for (size_t i = 0; i < g_slen; i++)
        g_stream[i] = (unsigned char)vh_rand(r);
    const size_t N = 1 + (size_t)vh_below(r, g_slen);
    const int srcchunk = (int)vh_below(r, 2), snkchunk = (int)vh_below(r, 2), fun = (int)vh_below(r, 6);
    static const char *fn[] = { "source_get_chunk", "source_get_chunk_atmost", "sink_put_chunk", "sink_put_chunk_atmost", "sts_n_aux", "sts_n_cbc" };
    Source s;
    Sink k;
    if ((g_kpos + N) & 1) {
        const Source so = OCTET_SOURCE_INIT(g_src_octet, NULL), sc = CHUNK_SOURCE_INIT(g_src_chunk, NULL);
        const Sink ko = OCTET_SINK_INIT(g_snk_octet, NULL), kc = CHUNK_SINK_INIT(g_snk_chunk, NULL);
        s = srcchunk ? sc : so;
        k = snkchunk ? kc : ko;
    } else {
        if (srcchunk)
            chunk_source_init(&s, g_src_chunk, NULL);
        else
            octet_source_init(&s, g_src_octet, NULL);
        if (snkchunk)
            chunk_sink_init(&k, g_snk_chunk, NULL);
        else
            octet_sink_init(&k, g_snk_octet, NULL);
    }
    g_spos = g_kpos = 0;
    unsigned char *mem = vh_arena(N), auxm[4];
    ByteBuffer aux;
    byte_buffer_space(&aux, auxm, sizeof auxm);
    ssize_t rc;
    int ok;
    switch (fun) {
    case 0: rc = source_get_chunk(&s, mem, N); ok = rc == (ssize_t)N && memcmp(mem, g_stream, N) == 0; break;
    case 1: rc = source_get_chunk_atmost(&s, mem, N); ok = rc >= 1 && rc <= (ssize_t)N && memcmp(mem, g_stream, (size_t)rc) == 0; break;
    case 2:
        memcpy(mem, g_stream, N);
        rc = sink_put_chunk(&k, mem, N);
        ok = rc == (ssize_t)N && g_kpos == N && memcmp(g_sunk, g_stream, N) == 0;
        break;
    case 3:
        memcpy(mem, g_stream, N);
        rc = sink_put_chunk_atmost(&k, mem, N);
        ok = rc >= 1 && rc <= (ssize_t)N && g_kpos == (size_t)rc && memcmp(g_sunk, g_stream, (size_t)rc) == 0;
        break;
    case 4: rc = sts_n_aux(&s, &k, &aux, N); ok = rc == (ssize_t)N && g_kpos == N && memcmp(g_sunk, g_stream, N) == 0; break;
    default: rc = sts_n_cbc(&s, &k, N); ok = rc == (ssize_t)N && g_kpos == N && memcmp(g_sunk, g_stream, N) == 0; break;
    }
    if (!ok)
        vh_fail("contextless-endpoint", "workload=contextless", "%s on %s source / %s sink registered with a NULL driver context, N=%zu of %zu: "
                "rc=%zd, source at %zu, sink holds %zu", fn[fun], srcchunk ? "chunk" : "octet", snkchunk ? "chunk" : "octet", N, g_slen, rc,
                g_spos, g_kpos);
    VH_COUNT("endpoint registered with a NULL driver context");
    (*vh_ncases)++;
}

static void
u_layered(uint64_t idx, void *arg)
{
    (void)arg;
    vh_rng r;
    vh_unit_rng(&r, "layered", idx);
    for (int rep = 0; rep < 200; rep++) {
        vh_arena_reset();
        if ((rep % 4) == 1)
            contextless(&r);
        unsigned char stream[120], stuffed[260];
        size_t L = 1 + (size_t)vh_below(&r, 100), sn = 0;
        for (size_t i = 0; i < L; i++) {
            static const unsigned char special[] = { 0x7e, 0x7d, 0x5e, 0x5d, 0x7e, 0x7d };
            stream[i] = vh_chance(&r, 1, 3) ? special[vh_below(&r, 6)] : (unsigned char)vh_rand(&r);
        }
        for (size_t i = 0; i < L; i++) {
            if (stream[i] == 0x7e || stream[i] == 0x7d) {
                stuffed[sn++] = 0x7d;
                stuffed[sn++] = (unsigned char)(stream[i] ^ 0x20);
            } else
                stuffed[sn++] = stream[i];
        }
        const int upper_chunk = (int)vh_below(&r, 2), lower_chunk = (int)vh_below(&r, 2);
        const int fun = (int)vh_below(&r, 9);
        static const char *fn[] = { "sink_put_octet", "sink_put_chunk", "sts_cbc", "sts_n_cbc", "sts_drain_cbc", "sts_n", "sts_drain",
                                    "sts_n_aux", "source side" };
        char key[96], ctx[200];
        snprintf(key, sizeof key, "workload=layered api=%s upper=%s lower=%s", fn[fun], upper_chunk ? "chunk" : "octet",
                 lower_chunk ? "chunk" : "octet");
        VH_CASE4(idx, rep, fun, L);
        struct layer ly;
        struct collect lo;
        memset(&ly, 0, sizeof ly);
        memset(&lo, 0, sizeof lo);
        ly.use_chunk_api = (int)vh_below(&r, 2);
        lo.maxper = vh_chance(&r, 1, 2) ? 0 : 1 + (size_t)vh_below(&r, 3);
        (*vh_ncases)++;
        if (fun < 8) {
            Sink lower, upper;
            if (lower_chunk)
                chunk_sink_init(&lower, collect_chunk, &lo);
            else
                octet_sink_init(&lower, collect_octet, &lo);
            ly.lower_sink = &lower;
            if (upper_chunk)
                chunk_sink_init(&upper, stuff_chunk, &ly);
            else
                octet_sink_init(&upper, stuff_octet, &ly);
            /* where the octets come from: the caller's memory or a plain source over it */
            struct collect feed;
            memset(&feed, 0, sizeof feed);
            unsigned char *mem = vh_arena_copy(stream, L);
            feed.p = mem;
            feed.plen = L;
            feed.maxper = vh_chance(&r, 1, 2) ? 0 : 1 + (size_t)vh_below(&r, 4);
            Source src;
            if (vh_chance(&r, 1, 2))
                chunk_source_init(&src, deliver_chunk, &feed);
            else
                octet_source_init(&src, deliver_octet, &feed);
            size_t N = 1 + (size_t)vh_below(&r, L), moved = N;
            ssize_t rc = 0;
            unsigned char auxm[5];
            ByteBuffer aux;
            byte_buffer_space(&aux, auxm, 1 + (size_t)vh_below(&r, 5));
            switch (fun) {
            case 0:
                for (size_t i = 0; i < N && rc >= 0; i++)
                    rc = sink_put_octet(&upper, mem[i]);
                break;
            case 1: rc = sink_put_chunk(&upper, mem, N); break;
            case 2: rc = sts_cbc(&src, &upper); moved = 1; break;
            case 3: rc = sts_n_cbc(&src, &upper, N); break;
            case 4: rc = sts_drain_cbc(&src, &upper); moved = L; break;
            case 5: rc = sts_n(&src, &upper, N); break;
            case 6: rc = sts_drain(&src, &upper); moved = L; break;
            default: rc = sts_n_aux(&src, &upper, &aux, N); break;
            }
            /* expected image below the filter: the stuffing of the first `moved` octets */
            size_t en = 0;
            unsigned char expect[260];
            for (size_t i = 0; i < moved; i++) {
                if (stream[i] == 0x7e || stream[i] == 0x7d) {
                    expect[en++] = 0x7d;
                    expect[en++] = (unsigned char)(stream[i] ^ 0x20);
                } else
                    expect[en++] = stream[i];
            }
            snprintf(ctx, sizeof ctx, "stream %s.. (%zu octets), %zu to move: rc=%zd, below the filter %zu octets", vh_hex(stream, L > 12 ? 12 : L),
                     L, moved, rc, lo.n);
            int drained = fun == 4 || fun == 6;
            if ((!drained && rc < 0) || (drained && rc >= 0))
                vh_fail("layered-result", key, "%s", ctx);
            if (lo.n != en || memcmp(lo.buf, expect, en) != 0) {
                size_t d = 0;
                while (d < en && d < lo.n && lo.buf[d] == expect[d])
                    d++;
                vh_fail("layered-content", key, "%s; first difference at %zu: got %s expected %s", ctx, d,
                        vh_hex(lo.buf + d, lo.n - d > 8 ? 8 : lo.n - d), vh_hex(expect + d, en - d > 8 ? 8 : en - d));
            }
            VH_COUNT("layered sink: a driver that uses the sink API on a lower sink");
        } else {
            Source lower, upper;
            unsigned char *mem = vh_arena_copy(stuffed, sn);
            lo.p = mem;
            lo.plen = sn;
            if (lower_chunk)
                chunk_source_init(&lower, deliver_chunk, &lo);
            else
                octet_source_init(&lower, deliver_octet, &lo);
            ly.lower_src = &lower;
            if (upper_chunk)
                chunk_source_init(&upper, unstuff_chunk, &ly);
            else
                octet_source_init(&upper, unstuff_octet, &ly);
            size_t N = 1 + (size_t)vh_below(&r, L);
            unsigned char *dst = vh_arena(N);
            ssize_t rc;
            if (vh_chance(&r, 1, 2)) {
                rc = source_get_chunk(&upper, dst, N);
            } else {
                rc = 0;
                for (size_t i = 0; i < N && rc >= 0; i++)
                    rc = source_get_octet(&upper, dst + i);
            }
            snprintf(ctx, sizeof ctx, "stuffed stream of %zu octets, %zu to read: rc=%zd", sn, N, rc);
            if (rc < 0 || memcmp(dst, stream, N) != 0)
                vh_fail("layered-content", key, "%s: got %s expected %s", ctx, vh_hex(dst, N > 12 ? 12 : N), vh_hex(stream, N > 12 ? 12 : N));
            VH_COUNT("layered source: a driver that uses the source API on a lower source");
        }
        vh_sig(0x17900000ull ^ (idx << 8) ^ (uint64_t)rep);
    }
}

/* ---- the library's own endpoints: buffer, chunk list, zero/empty/null ---- */
static void
u_lib(uint64_t idx, void *arg)
{
    (void)arg;
    vh_rng r;
    vh_unit_rng(&r, "lib", idx);
    for (int rep = 0; rep < 300; rep++) {
        vh_arena_reset();
        VH_CASE4(idx, rep, 0, 0);
        /* a chunk list with empty chunks, some of them already partly consumed */
        size_t nch = 1 + (size_t)vh_below(&r, 6), total = 0;
        /* the descriptors: an exact-size block, or the front of a longer array whose next element describes
         * octets that are not part of the stream */
        ByteBuffer spare_array[7];
        ByteBuffer *ch = (rep & 1) ? vh_arena(sizeof(ByteBuffer) * nch) : spare_array;
        if (!(rep & 1)) {
            static unsigned char sparemem[8] = { 's', 'p', 'a', 'r', 'e', '!', '!', '!' };
            byte_buffer_set(&ch[nch], sparemem, 8, 8, 0);
        }
        unsigned char expect[200];
        for (size_t i = 0; i < nch; i++) {
            size_t lead = (size_t)vh_below(&r, 3), part = vh_chance(&r, 1, 4) ? 0 : (size_t)vh_below(&r, 20);
            size_t msz = lead + part ? lead + part : 1;
            unsigned char *m = vh_arena(msz);
            for (size_t k = 0; k < msz; k++)
                m[k] = (unsigned char)vh_rand(&r);
            byte_buffer_set(&ch[i], m, msz, lead + part, lead);
            memcpy(expect + total, m + lead, part);
            total += part;
        }
        ByteChunks bc = { .chunks = nch, .active = 0, .chunk = ch };
        Source cs;
        source_from_chunks(&cs, &bc);
        /* destination: a buffer sink with a capacity around the total */
        size_t cap = total + (size_t)vh_below(&r, 5) - (total >= 2 ? (size_t)vh_below(&r, 3) : 0);
        if (cap == 0)
            cap = 1;
        unsigned char *dm = vh_arena(cap);
        ByteBuffer db;
        byte_buffer_space(&db, dm, cap);
        Sink bs;
        sink_to_buffer(&bs, &db);
        int fun = (int)vh_below(&r, 6);
        size_t N = 1 + (size_t)vh_below(&r, total + 3);
        size_t auxsize = 1 + (size_t)vh_below(&r, 8);
        unsigned char *auxm = vh_arena(auxsize);
        ByteBuffer aux;
        byte_buffer_space(&aux, auxm, auxsize);
        ssize_t rc;
        const char *fn;
        size_t want; /* octets that should have reached the sink */
        switch (fun) {
        case 0: fn = "sts_n"; rc = sts_n(&cs, &bs, N); want = N; break;
        case 1: fn = "sts_n_cbc"; rc = sts_n_cbc(&cs, &bs, N); want = N; break;
        case 2: fn = "sts_n_aux"; rc = sts_n_aux(&cs, &bs, &aux, N); want = N; break;
        case 3: fn = "sts_drain"; rc = sts_drain(&cs, &bs); want = total; break;
        case 4: fn = "sts_drain_cbc"; rc = sts_drain_cbc(&cs, &bs); want = total; break;
        default: fn = "sts_drain_aux"; rc = sts_drain_aux(&cs, &bs, &aux); want = total; break;
        }
        char key[96];
        snprintf(key, sizeof key, "api=%s source=chunk-list sink=buffer", fn);
        size_t possible = want < total ? want : total;
        if (possible > cap)
            possible = cap;
        int complete = fun <= 2 && N <= total && N <= cap;
        if (db.offset != 0 || db.used > cap || memcmp(dm, expect, db.used) != 0)
            vh_fail("sink-not-prefix", key, "total=%zu cap=%zu N=%zu: buffer used=%zu holds %s expected prefix of %s", total, cap, N,
                    db.used, vh_hex(dm, db.used), vh_hex(expect, total));
        if (complete) {
            VH_COUNT("library endpoints: counted transfer completed");
            if (rc != (ssize_t)N || db.used != N)
                vh_fail("count", key, "total=%zu cap=%zu N=%zu: rc=%zd sink has %zu", total, cap, N, rc, db.used);
        } else {
            VH_COUNT("library endpoints: source ended or sink filled up");
            if (rc >= 0)
                vh_fail("error-swallowed", key, "total=%zu cap=%zu N=%zu: rc=%zd sink has %zu", total, cap, N, rc, db.used);
            /* everything up to the source's end, as far as the sink has room (per-octet variants fill it completely) */
            if (fun != 2 && fun != 5 && fun != 0 && fun != 3 && db.used != possible)
                vh_fail("not-everything-up-to-end", key, "total=%zu cap=%zu N=%zu: sink has %zu, possible %zu", total, cap, N,
                        db.used, possible);
            if ((fun == 2 || fun == 5) && total <= cap && db.used != (want < total ? want : total))
                vh_fail("not-everything-up-to-end", key, "total=%zu cap=%zu N=%zu: sink has %zu", total, cap, N, db.used);
        }
        /* a source that has reported its end stays there: whatever is read from it afterwards, nothing is
         * delivered and no success is reported */
        {
            ssize_t drc = sts_drain_cbc(&cs, &sink_null);
            unsigned char *d2 = vh_arena(12);
            memset(d2, 0x99, 12);
            ByteBuffer db2;
            byte_buffer_space(&db2, d2, 12);
            Sink bs2;
            sink_to_buffer(&bs2, &db2);
            ssize_t r2;
            const char *what;
            int touched = 0;
            switch (rep % 5) {
            case 0: what = "source_get_chunk"; r2 = source_get_chunk(&cs, d2, 1 + (size_t)vh_below(&r, 8)); break;
            case 1: what = "source_get_chunk_atmost"; r2 = source_get_chunk_atmost(&cs, d2, 1 + (size_t)vh_below(&r, 8)); break;
            case 2: what = "source_get_octet"; r2 = source_get_octet(&cs, d2); break;
            case 3: what = "sts_drain_cbc"; r2 = sts_drain_cbc(&cs, &bs2); touched = db2.used != 0; break;
            default: what = "sts_n_aux"; byte_buffer_space(&aux, auxm, auxsize); r2 = sts_n_aux(&cs, &bs2, &aux, 3); touched = db2.used != 0; break;
            }
            for (int i = 0; i < 12; i++)
                touched |= d2[i] != 0x99;
            snprintf(key, sizeof key, "api=%s source=chunk-list-at-its-end", what);
            if (drc >= 0 || r2 >= 0 || touched)
                vh_fail("read-behind-the-end", key, "list of %zu chunks (%zu octets) drained (rc=%zd), then read again: rc=%zd, destination %s",
                        nch, total, drc, r2, vh_hex(d2, 12));
            VH_COUNT("library endpoints: chunk-list source read again after its end");
        }
    }
    /* buffer source: exact and at-most reads */
    for (int rep = 0; rep < 200; rep++) {
        vh_arena_reset();
        size_t R = 1 + (size_t)vh_below(&r, 30), lead = (size_t)vh_below(&r, 4);
        unsigned char *m = vh_arena(lead + R);
        for (size_t k = 0; k < lead + R; k++)
            m[k] = (unsigned char)vh_rand(&r);
        ByteBuffer b;
        byte_buffer_set(&b, m, lead + R, lead + R, lead);
        Source s;
        source_from_buffer(&s, &b);
        size_t N = 1 + (size_t)vh_below(&r, R + 3);
        unsigned char *d = vh_arena(N);
        VH_CASE4(idx, 1000 + rep, R, N);
        if (rep & 1) {
            ssize_t rc = source_get_chunk(&s, d, N);
            if (N <= R) {
                if (rc != (ssize_t)N || memcmp(d, m + lead, N) != 0 || b.offset != lead + N)
                    vh_fail("count", "api=source_get_chunk source=buffer", "R=%zu N=%zu rc=%zd offset=%zu", R, N, rc, b.offset);
            } else if (rc != -ENODATA) {
                vh_fail("hard-error-not-returned", "api=source_get_chunk source=buffer", "R=%zu N=%zu rc=%zd", R, N, rc);
            }
        } else {
            ssize_t rc = source_get_chunk_atmost(&s, d, N);
            size_t k = N < R ? N : R;
            if (rc != (ssize_t)k || memcmp(d, m + lead, k) != 0 || b.offset != lead + k)
                vh_fail("atmost-count", "api=source_get_chunk_atmost source=buffer", "R=%zu N=%zu rc=%zd offset=%zu", R, N, rc,
                        b.offset);
        }
        VH_COUNT("library endpoints: buffer source");
    }
    /* trivial endpoints */
    {
        vh_arena_reset();
        unsigned char *d = vh_arena(40);
        memset(d, 0x77, 40);
        ssize_t rc = source_get_chunk(&source_zero, d, 40);
        int z = 1;
        for (int i = 0; i < 40; i++)
            z &= d[i] == 0;
        if (rc != 40 || !z)
            vh_fail("count", "api=source_get_chunk source=zero", "rc=%zd", rc);
        rc = source_get_chunk(&source_empty, d, 5);
        if (rc != -ENODATA)
            vh_fail("hard-error-not-returned", "api=source_get_chunk source=empty", "rc=%zd", rc);
        rc = sink_put_chunk(&sink_null, d, 40);
        if (rc != 40)
            vh_fail("count", "api=sink_put_chunk sink=null", "rc=%zd", rc);
        rc = sts_n(&source_zero, &sink_null, 1000);
        if (rc != 1000)
            vh_fail("count", "api=sts_n source=zero sink=null", "rc=%zd", rc);
        rc = sts_drain(&source_empty, &sink_null);
        if (rc >= 0)
            vh_fail("drain-returns-success", "api=sts_drain source=empty", "rc=%zd", rc);
        VH_COUNT("library endpoints: zero/empty/null");
    }
    *vh_ncases += 500;
    vh_sig(0x17700000ull ^ idx);
    if (idx == 0)
        vh_sample("library endpoints", "chunk-list source (empty and partly consumed chunks) into a buffer sink with capacity around "
                                       "the total, through sts_n, sts_n_cbc, sts_n_aux and the drains; buffer source exact/at-most; "
                                       "source_zero, source_empty, sink_null");
}

void
harness_run(void)
{
    size_t maxlen = vh_tier ? 8 : 5;
    for (size_t slen = 0; slen <= maxlen; slen++)
        for (int chunk = 0; chunk < 2; chunk++) {
            uint64_t total = 1;
            for (size_t i = 0; i < slen; i++)
                total *= chunk ? 8u : 5u;
            uint64_t nparts = total > 40000 ? 64 : 1;
            for (uint64_t p = 0; p < nparts; p++)
                vh_unit("exact", (p << 5) | (slen << 1) | (uint64_t)chunk, u_exact, NULL);
        }
    vh_unit("invalid", 0, u_invalid, NULL);
    for (uint64_t i = 0; i < 4; i++)
        vh_unit("nothing", i, u_nothing, NULL);
    for (uint64_t i = 0; i < 2; i++)
        vh_unit("codes", i, u_codes, NULL);
    for (uint64_t i = 0; i < 12; i++)
        vh_unit("patience", i, u_patience, NULL);
    vh_require("drivers that answer 'try again' more than 2^16 times within one call");
    vh_require("every errno value 1..140 as a driver's hard error");
    vh_require("nothing to move: at-most zero / auxiliary buffer without free space");
    for (uint64_t i = 0; i < NFUN * 8; i++)
        vh_unit("plumb", i, u_plumb, NULL);
    for (uint64_t i = 0; i < (vh_tier ? 6000u : 40u); i++)
        vh_unit("random", i, u_random, NULL);
    for (uint64_t i = 0; i < 8; i++)
        vh_unit("big", i, u_big, NULL);
    for (uint64_t i = 0; i < (vh_tier ? 400u : 16u); i++)
        vh_unit("lib", i, u_lib, NULL);
    for (uint64_t i = 0; i < (vh_tier ? 2000u : 40u); i++)
        vh_unit("layered", i, u_layered, NULL);
    vh_require("layered sink: a driver that uses the sink API on a lower sink");
    vh_require("layered source: a driver that uses the source API on a lower source");
    vh_require("endpoint registered with a NULL driver context");
    vh_unit("huge", 0, u_huge, NULL);
    static const char *req[] = { "exact get: completed", "exact get: hard error path", "exact put: completed",
                                 "exact put: hard error path", "at-most: count returned", "at-most: error returned",
                                 "invalid count refused", "plumbing single round: moved",
                                 "plumbing single round: driver error", "plumbing counted: completed",
                                 "plumbing counted: driver error", "plumbing counted: source ended early",
                                 "plumbing drain: reached the source's end", "plumbing drain: driver error",
                                 "random long transfers", "large transfers (counts beyond 255 / 65535)",
                                 "library endpoints: counted transfer completed",
                                 "library endpoints: source ended or sink filled up", "library endpoints: buffer source",
                                 "library endpoints: zero/empty/null",
                                 "huge transfers (a single driver call moves 2^31 octets or more)", "scripts of length 5 enumerated (chunk driver)",
                                 "largest legal count (SSIZE_MAX) requested from a stream that ends with an error",
                                 "scripts of length 5 enumerated (octet driver)" };
    for (size_t i = 0; i < sizeof req / sizeof req[0]; i++)
        vh_require(req[i]);
}
