/* C05 - register constraints are an invariant of every checked-operation
 * history; sanitise re-establishes it after out-of-band corruption.
 *
 * Random histories of typed set, bit set/clear, block write and sanitise
 * over generated tables; after every step the complete storage, every
 * register_get, the touched marks and the constraint of every constrained
 * register are compared with / asserted by the model of rt_common.h. */
#include "rt_common.h"

const char *harness_name = "c05_history";

static struct rt_inst inst;
static RegisterAtom *bufs[40];

/* a value every register may hold: its default - except where the default itself is outside the constraint, which a
 * table may legitimately say about registers whose defaults are never loaded (skip-defaults areas, device areas
 * without write access); such a default is a value like any other to the checked operations, and is refused */
static RegisterValueU valid0[RT_MAXREGS];

static void
load_defaults_out_of_band(void)
{
    for (int i = 0; i < inst.d.nregs; i++) {
        const struct rt_reg *r = &inst.d.reg[i];
        rt_encode(r->type, inst.d.bigendian, rt_bits(r->type, valid0[i]), rt_model_word(&inst, r->addr));
    }
    for (int a = 0; a < inst.d.nareas; a++)
        memcpy(inst.store[a], inst.model[a], 2 * (size_t)inst.d.area[a].size);
}

static RegisterValueU
biased_value(vh_rng *rg, const struct rt_reg *r)
{
    unsigned x = (unsigned)vh_below(rg, 10);
    switch (x) {
    case 0: return r->lo;
    case 1: return r->hi;
    case 2: return rt_neighbour(r->type, r->lo, -1);
    case 3: return rt_neighbour(r->type, r->lo, +1);
    case 4: return rt_neighbour(r->type, r->hi, -1);
    case 5: return rt_neighbour(r->type, r->hi, +1);
    case 6: return r->def;
    default: return rt_pick_value(rg, r->type);
    }
}

/* A second, small table lives next to the one under test, at the same addresses, and is used in between: nothing
 * the library remembers about one table (a cached area, a cached handle) may be applied to the other. */
static struct rt_inst inst2;
static int inst2_alive;
static unsigned inst2_n;

static void
bystander_setup(void)
{
    struct rt_desc d2;
    memset(&d2, 0, sizeof d2);
    d2.nareas = 1;
    d2.bigendian = !inst.d.bigendian;
    d2.area[0].base = inst.d.area[0].base;
    d2.area[0].size = 4;
    d2.area[0].readable = d2.area[0].writeable = 1;
    d2.area[0].has_write = 1;
    d2.nregs = 2;
    d2.reg[0].type = REG_TYPE_UINT16;
    d2.reg[0].addr = d2.area[0].base;
    d2.reg[0].ck = REGV_TYPE_RANGE;
    d2.reg[0].lo.u16 = 10;
    d2.reg[0].hi.u16 = 20;
    d2.reg[0].def.u16 = 15;
    d2.reg[1].type = REG_TYPE_UINT32;
    d2.reg[1].addr = d2.area[0].base + 1;
    d2.reg[1].def.u32 = 0x01020304;
    rt_build_mode = 0;
    rt_build(&inst2, &d2);
    rt_build_mode = -1;
    rt_cur = &inst;
    inst2_alive = register_init(&inst2.t).code == REG_INIT_SUCCESS;
    inst2_n = 0;
}

static void
bystander_step(const char *ctx)
{
    if (!inst2_alive)
        return;
    const unsigned k = inst2_n++;
    const uint16_t want = (uint16_t)(10 + k % 11), bad = (uint16_t)(21 + k % 100);
    RegisterValue v = { .type = REG_TYPE_UINT16, .value.u16 = want }, g;
    RegisterAccess a = register_set(&inst2.t, 0, v);
    RegisterAccess b = register_get(&inst2.t, 0, &g);
    v.value.u16 = bad;
    RegisterAccess c = register_set(&inst2.t, 0, v);
    RegisterAtom w[3] = { 0, 0, 0 };
    RegisterAccess r = register_block_read(&inst2.t, inst2.d.area[0].base, 3, w);
    unsigned char enc[2];
    rt_encode(REG_TYPE_UINT16, inst2.d.bigendian, want, enc);
    if (a.code != REG_ACCESS_SUCCESS || b.code != REG_ACCESS_SUCCESS || g.value.u16 != want || c.code != REG_ACCESS_RANGE
        || r.code != REG_ACCESS_SUCCESS || memcmp(w, enc, 2) != 0 || memcmp(inst2.store[0], enc, 2) != 0)
        vh_fail("second-table", "step=bystander", "%s: on a second table at the same addresses: set(%u) code=%d, get code=%d value=%u, "
                "set(%u) code=%d, block read code=%d first word %04x", ctx, want, a.code, b.code, g.value.u16, bad, c.code, r.code, w[0]);
    VH_COUNT("second table used between the steps");
}

/* after every step */
static void
observe(const char *step, const char *ctx)
{
    const struct rt_desc *d = &inst.d;
    char key[64];
    snprintf(key, sizeof key, "step=%s", step);
    if (!rt_compare_storage(&inst, "storage-vs-model", key, ctx))
        rt_sync_model_from_storage(&inst);
    for (int i = 0; i < d->nregs; i++) {
        const struct rt_reg *r = &d->reg[i];
        uint64_t bits;
        int valid = rt_model_reg(&inst, i, &bits);
        RegisterValue g;
        RegisterAccess a = register_get(&inst.t, (RegisterHandle)i, &g);
        if (valid) {
            if (a.code != REG_ACCESS_SUCCESS || (int)g.type != r->type || rt_bits(r->type, g.value) != bits)
                vh_fail("get-vs-model", key, "%s: register %d get code=%d bits=%016" PRIx64 " model %016" PRIx64, ctx, i,
                        a.code, rt_bits(r->type, g.value), bits);
        } else if (a.code == REG_ACCESS_SUCCESS) {
            vh_fail("get-decodes-invalid", key, "%s: register %d holds an undecodable float but get succeeds", ctx, i);
        }
        if ((int)register_was_touched(&inst.t, (RegisterHandle)i) != inst.touched[i]) {
            vh_fail("touched-mark", key, "%s: register %d touched=%d model=%d", ctx, i,
                    (int)register_was_touched(&inst.t, (RegisterHandle)i), inst.touched[i]);
            inst.touched[i] = register_was_touched(&inst.t, (RegisterHandle)i);
        }
        /* THE invariant */
        if (r->ck >= REGV_TYPE_MIN) {
            VH_COUNT("constraint of a constrained register asserted");
            if (!valid || !rt_satisfies(r, rt_from_bits(r->type, bits), 0))
                vh_fail("constraint-violated", key, "%s: register %d (%s@%u/%s) holds %016" PRIx64, ctx, i,
                        rt_tname[r->type], r->addr, rt_ckname[r->ck], bits);
        }
    }
}

static void
step_set(vh_rng *rg, const char *ctx0)
{
    const struct rt_desc *d = &inst.d;
    int i = (int)vh_below(rg, (uint64_t)d->nregs);
    const struct rt_reg *r = &d->reg[i];
    int type = vh_chance(rg, 1, 8) ? (int)vh_below(rg, 8) : r->type;
    RegisterValue v = { .type = (RegisterType)type };
    v.value = type == r->type ? biased_value(rg, r) : rt_from_bits(type, vh_rand(rg));
    if (type >= REG_TYPE_FLOAT32 && vh_chance(rg, 1, 10))
        v.value = rt_from_bits(type, type == REG_TYPE_FLOAT32 ? 0x7fc00000u : 0x7ff0000000000000ull);
    uint64_t bits = rt_bits(type, v.value);
    int ai = rt_area_of(d, r->addr);
    int ok = type == r->type && rt_bits_valid(type, bits) && rt_satisfies(r, v.value, 0);
    int writable = !d->area[ai].custom || d->area[ai].has_write;
    RegisterAccess a = register_set(&inst.t, (RegisterHandle)i, v);
    char ctx[200];
    snprintf(ctx, sizeof ctx, "%s set(reg %d %s@%u/%s, value type %s bits %016" PRIx64 ")", ctx0, i, rt_tname[r->type],
             r->addr, rt_ckname[r->ck], rt_tname[type], bits);
    if (ok && writable && !d->area[ai].writeable) {
        /* typed set into an area flagged read-only: the statement does not say; both outcomes are consistent */
        VH_COUNT("step: typed set into a read-only-flagged area (either outcome accepted)");
        if (a.code == REG_ACCESS_SUCCESS)
            rt_encode(r->type, d->bigendian, bits, rt_model_word(&inst, r->addr));
    } else if (ok && writable) {
        VH_COUNT("step: typed set accepted");
        if (a.code != REG_ACCESS_SUCCESS)
            vh_fail("set-refused", "step=set", "%s: code=%d", ctx, a.code);
        else
            rt_encode(r->type, d->bigendian, bits, rt_model_word(&inst, r->addr));
    } else {
        VH_COUNT("step: typed set refused");
        if (a.code == REG_ACCESS_SUCCESS)
            vh_fail("set-accepted", "step=set", "%s", ctx);
    }
    observe("set", ctx);
}

static void
step_bits(vh_rng *rg, const char *ctx0)
{
    const struct rt_desc *d = &inst.d;
    int i = (int)vh_below(rg, (uint64_t)d->nregs);
    const struct rt_reg *r = &d->reg[i];
    int clear = (int)vh_below(rg, 2);
    int type = vh_chance(rg, 1, 6) ? (int)vh_below(rg, 8) : r->type;
    uint64_t mask = vh_chance(rg, 1, 2) ? 1ull << vh_below(rg, rt_tsize[type] * 16) : vh_rand(rg);
    if (vh_chance(rg, 1, 8))
        mask = 0;
    RegisterValue v = { .type = (RegisterType)type, .value = rt_from_bits(type, mask) };
    mask = rt_bits(type, v.value);
    uint64_t cur;
    int valid = rt_model_reg(&inst, i, &cur);
    int unsigned_reg = r->type <= REG_TYPE_UINT64;
    uint64_t nv = clear ? cur & ~mask : cur | mask;
    int ai = rt_area_of(d, r->addr);
    int writable = !d->area[ai].custom || d->area[ai].has_write;
    int ok = valid && unsigned_reg && type == r->type && rt_satisfies(r, rt_from_bits(r->type, nv), 0) && writable;
    RegisterAccess a = clear ? register_bit_clear(&inst.t, (RegisterHandle)i, v)
                             : register_bit_set(&inst.t, (RegisterHandle)i, v);
    char ctx[200];
    snprintf(ctx, sizeof ctx, "%s bit_%s(reg %d %s@%u/%s, operand type %s mask %016" PRIx64 ") current %016" PRIx64, ctx0,
             clear ? "clear" : "set", i, rt_tname[r->type], r->addr, rt_ckname[r->ck], rt_tname[type], mask, cur);
    if (ok && !d->area[ai].writeable) {
        VH_COUNT("step: bit operation in a read-only-flagged area (either outcome accepted)");
        if (a.code == REG_ACCESS_SUCCESS)
            rt_encode(r->type, d->bigendian, nv, rt_model_word(&inst, r->addr));
    } else if (ok) {
        VH_COUNT("step: bit operation accepted");
        if (a.code != REG_ACCESS_SUCCESS)
            vh_fail("bitop-refused", clear ? "step=bit_clear" : "step=bit_set", "%s: code=%d", ctx, a.code);
        else
            rt_encode(r->type, d->bigendian, nv, rt_model_word(&inst, r->addr));
    } else {
        if (!unsigned_reg)
            VH_COUNT("step: bit operation on a signed or float register refused");
        else if (type != r->type)
            VH_COUNT("step: bit operation with a mismatched operand refused");
        else
            VH_COUNT("step: bit operation refused by the constraint");
        if (a.code == REG_ACCESS_SUCCESS)
            vh_fail("bitop-accepted", clear ? "step=bit_clear" : "step=bit_set", "%s", ctx);
    }
    observe(clear ? "bit_clear" : "bit_set", ctx);
}

static void
step_block(vh_rng *rg, const char *ctx0)
{
    const struct rt_desc *d = &inst.d;
    /* biased to partial overlaps: start inside or right before a register */
    uint32_t lo = d->area[0].base, hi = d->area[d->nareas - 1].base + d->area[d->nareas - 1].size;
    uint32_t addr, n;
    if (d->nregs && vh_chance(rg, 3, 4)) {
        const struct rt_reg *r = &d->reg[vh_below(rg, (uint64_t)d->nregs)];
        addr = r->addr + (uint32_t)vh_below(rg, rt_tsize[r->type]);
        if (vh_chance(rg, 1, 4) && addr > lo)
            addr--;
        n = 1 + (uint32_t)vh_below(rg, 5);
    } else {
        addr = lo + (uint32_t)vh_below(rg, (uint64_t)hi - lo + 1);
        n = (uint32_t)vh_below(rg, 12);
    }
    if (n > 38)
        n = 38;
    unsigned char words[80];
    for (uint32_t k = 0; k < n; k++) {
        unsigned char *mw = rt_model_word(&inst, addr + k);
        if (mw && vh_chance(rg, 1, 3))
            memcpy(words + 2 * k, mw, 2);
        else {
            words[2 * k] = (unsigned char)vh_rand(rg);
            words[2 * k + 1] = (unsigned char)vh_rand(rg);
        }
    }
    /* aim at the bounds of overlapped registers */
    for (int i = 0; i < d->nregs; i++) {
        const struct rt_reg *r = &d->reg[i];
        uint32_t rsz = rt_tsize[r->type];
        if (r->addr + rsz <= addr || addr + n <= r->addr || vh_chance(rg, 1, 4))
            continue;
        unsigned char enc[8];
        rt_encode(r->type, d->bigendian, rt_bits(r->type, biased_value(rg, r)), enc);
        for (uint32_t w = 0; w < rsz; w++)
            if (r->addr + w >= addr && r->addr + w < addr + n)
                memcpy(words + 2 * (r->addr + w - addr), enc + 2 * w, 2);
    }
    /* model verdict */
    int ok = 1, overl[RT_MAXREGS], nover = 0;
    for (uint32_t k = 0; k < n; k++) {
        int ai = rt_area_of(d, addr + k);
        if (ai < 0 || !rt_area_writable(&d->area[ai]))
            ok = 0;
    }
    for (int i = 0; i < d->nregs && n > 0; i++) {
        const struct rt_reg *r = &d->reg[i];
        uint32_t rsz = rt_tsize[r->type];
        if (r->addr + rsz <= addr || addr + n <= r->addr)
            continue;
        overl[nover++] = i;
        unsigned char tmp[8];
        memcpy(tmp, rt_model_word(&inst, r->addr), 2 * rsz);
        for (uint32_t w = 0; w < rsz; w++)
            if (r->addr + w >= addr && r->addr + w < addr + n)
                memcpy(tmp + 2 * w, words + 2 * (r->addr + w - addr), 2);
        uint64_t bits = rt_decode(r->type, d->bigendian, tmp);
        if (!rt_bits_valid(r->type, bits) || !rt_satisfies(r, rt_from_bits(r->type, bits), 0))
            ok = 0;
    }
    memcpy(bufs[n], words, 2 * (size_t)n);
    RegisterAccess a = register_block_write(&inst.t, addr, n, bufs[n]);
    char ctx[220];
    snprintf(ctx, sizeof ctx, "%s block_write(addr=%u,n=%u,words=%s)", ctx0, addr, n,
             vh_hex(words, 2 * (size_t)n > 20 ? 20 : 2 * (size_t)n));
    if (ok) {
        VH_COUNT("step: block write accepted");
        if (a.code != REG_ACCESS_SUCCESS)
            vh_fail("block-write-refused", "step=block_write", "%s: code=%d address=%u", ctx, a.code, a.address);
        else {
            for (uint32_t k = 0; k < n; k++)
                memcpy(rt_model_word(&inst, addr + k), words + 2 * k, 2);
            for (int k = 0; k < nover; k++)
                inst.touched[overl[k]] = 1;
        }
    } else {
        VH_COUNT("step: block write refused");
        if (a.code == REG_ACCESS_SUCCESS)
            vh_fail("block-write-accepted", "step=block_write", "%s", ctx);
    }
    observe("block_write", ctx);
}

/* model of sanitise: in register order, reset what does not decode or violates its constraint */
static void
step_sanitise(const char *ctx0, int after_corruption)
{
    const struct rt_desc *d = &inst.d;
    int nreset = 0, nkept = 0;
    for (int i = 0; i < d->nregs; i++) {
        const struct rt_reg *r = &d->reg[i];
        uint64_t bits;
        int valid = rt_model_reg(&inst, i, &bits);
        if (!valid || !rt_satisfies(r, rt_from_bits(r->type, bits), 0)) {
            rt_encode(r->type, d->bigendian, rt_bits(r->type, r->def), rt_model_word(&inst, r->addr));
            nreset++;
            if (!valid)
                VH_COUNT("sanitise: register with undecodable content reset");
            else
                VH_COUNT("sanitise: register violating its constraint reset");
        } else {
            nkept++;
            if (after_corruption)
                VH_COUNT("sanitise: register keeps its value");
        }
        inst.touched[i] = 0;
    }
    RegisterAccess a = register_sanitise(&inst.t);
    char ctx[160];
    snprintf(ctx, sizeof ctx, "%s sanitise (model: %d reset, %d kept)", ctx0, nreset, nkept);
    if (a.code != REG_ACCESS_SUCCESS)
        vh_fail("sanitise-fails", after_corruption ? "step=sanitise-after-corruption" : "step=sanitise", "%s: code=%d address=%u",
                ctx, a.code, a.address);
    VH_COUNT("step: sanitise");
    observe(after_corruption ? "sanitise-after-corruption" : "sanitise", ctx);
}

/* sanitise on a table for which the statement makes no promise about sanitise itself (always-fail registers, areas
 * without write callback: it may stop with an error half way): nothing is demanded of the call, but the table
 * stays in use - the steps that follow are judged as before, from whatever state it left */
static void
step_sanitise_unjudged(vh_rng *rg, const char *ctx0)
{
    const struct rt_desc *d = &inst.d;
    /* half of the time the storage is damaged out of band first, so that sanitise has something to repair - or
     * to give up on, where an area cannot be written */
    if (vh_chance(rg, 1, 2)) {
        for (int i = 0; i < d->nregs; i++) {
            const struct rt_reg *r = &d->reg[i];
            unsigned x = (unsigned)vh_below(rg, 4);
            if (x == 0)
                continue;
            uint64_t bits = x == 1 ? vh_rand(rg) : x == 2 ? ~0ull
                            : rt_bits(r->type, rt_neighbour(r->type, vh_chance(rg, 1, 2) ? r->lo : r->hi, vh_chance(rg, 1, 2) ? 1 : -1));
            rt_encode(r->type, d->bigendian, bits, rt_model_word(&inst, r->addr));
        }
        for (int a = 0; a < d->nareas; a++)
            memcpy(inst.store[a], inst.model[a], 2 * (size_t)d->area[a].size);
        VH_COUNT("step: storage damaged out of band before an unjudged sanitise");
    }
    RegisterAccess a = register_sanitise(&inst.t);
    rt_sync_model_from_storage(&inst);
    /* whatever sanitise left undecodable or violating is put right out of band, as an operator would */
    for (int i = 0; i < d->nregs; i++) {
        const struct rt_reg *r = &d->reg[i];
        uint64_t bits;
        int valid = rt_model_reg(&inst, i, &bits);
        if (r->ck >= REGV_TYPE_MIN && (!valid || !rt_satisfies(r, rt_from_bits(r->type, bits), 0)))
            rt_encode(r->type, d->bigendian, rt_bits(r->type, valid0[i]), rt_model_word(&inst, r->addr));
        else if (!valid)
            rt_encode(r->type, d->bigendian, rt_bits(r->type, valid0[i]), rt_model_word(&inst, r->addr));
    }
    for (int ar = 0; ar < d->nareas; ar++)
        memcpy(inst.store[ar], inst.model[ar], 2 * (size_t)d->area[ar].size);
    /* one thing is demanded even here: a sanitise that reports success has cleared every touched mark, wherever
     * the register lies */
    if (a.code == REG_ACCESS_SUCCESS)
        for (int i = 0; i < inst.d.nregs; i++)
            if (register_was_touched(&inst.t, (RegisterHandle)i)) {
                vh_fail("touched-mark", "step=sanitise-unjudged", "%s: sanitise reports success, register %d is still marked as touched", ctx0, i);
                break;
            }
    for (int i = 0; i < inst.d.nregs; i++)
        inst.touched[i] = register_was_touched(&inst.t, (RegisterHandle)i);
    if (a.code == REG_ACCESS_SUCCESS)
        VH_COUNT("step: sanitise outside its promise, succeeded");
    else
        VH_COUNT("step: sanitise outside its promise, stopped with an error");
    char ctx[160];
    snprintf(ctx, sizeof ctx, "%s sanitise (not judged) code=%d", ctx0, a.code);
    observe("after-unjudged-sanitise", ctx);
}

static long setup_curated = -1; /* >= 0: the next table is curated layout number setup_curated */

static int
setup_table(vh_rng *rg, int allow_fail, int all_writable)
{
    vh_arena_reset();
    struct rt_desc d;
    do {
        if (setup_curated >= 0 && rt_gen_curated(rg, (unsigned)setup_curated, &d, allow_fail)) {
            setup_curated = -1;
            VH_COUNT("curated layout");
            if (d.nregs)
                break;
        }
        rt_gen_wellformed(rg, &d, allow_fail);
#ifdef VH_FUZZ
        if (d.nregs == 0)
            return 0; /* the choice stream may be used up: no second attempt */
#endif
    } while (d.nregs == 0);
    if (all_writable)
        for (int a = 0; a < d.nareas; a++)
            d.area[a].has_write = 1;
    for (int i = 0; i < d.nregs; i++)
        valid0[i] = d.reg[i].def;
    if (allow_fail && !all_writable) {
        /* tables on which sanitise is not judged anyway: every second constrained register whose default is never
         * loaded names a default its own constraint rejects */
        for (int i = 0; i < d.nregs; i++) {
            struct rt_reg *r = &d.reg[i];
            int ai = rt_area_of(&d, r->addr);
            if (ai < 0 || rt_area_loads_defaults(&d.area[ai]) || ((unsigned)i + (unsigned)vh_unit_salt) % 2u)
                continue;
            RegisterValueU bad = r->def;
            if (r->ck == REGV_TYPE_MIN || (r->ck == REGV_TYPE_RANGE && (i & 2)))
                bad = rt_neighbour(r->type, r->lo, -1);
            else if (r->ck == REGV_TYPE_MAX || r->ck == REGV_TYPE_RANGE)
                bad = rt_neighbour(r->type, r->hi, +1);
            else if (r->ck == REGV_TYPE_CALLBACK)
                bad = r->cbkind == RT_CB_EVEN ? rt_from_bits(r->type, rt_bits(r->type, r->def) | 1u)
                                              : (r->type == REG_TYPE_FLOAT32 ? (RegisterValueU){ .f32 = 100.5f }
                                                                             : (RegisterValueU){ .f64 = -1e3 });
            else
                continue;
            if (!rt_bits_valid(r->type, rt_bits(r->type, bad)) || rt_satisfies(r, bad, 0))
                continue;
            r->def = bad;
            VH_COUNT("register whose never-loaded default is outside its own constraint");
        }
    }
    rt_build(&inst, &d);
    for (uint32_t n = 0; n < 40; n++)
        bufs[n] = vh_arena(2 * (size_t)n);
    RegisterInit ri = register_init(&inst.t);
    if (ri.code != REG_INIT_SUCCESS) {
        vh_fail("init-wellformed", "step=init", "table{%s}: code=%d pos=%u", rt_describe(&d), ri.code, ri.pos.entry);
        return 0;
    }
    rt_model_init(&inst);
    load_defaults_out_of_band();
    return 1;
}

static void
history_body(uint64_t idx, vh_rng *rgp);

static void
u_history(uint64_t idx, void *arg)
{
    (void)arg;
    vh_rng rg;
    vh_unit_rng(&rg, "history", idx);
    history_body(idx, &rg);
}

static void
history_body(uint64_t idx, vh_rng *rgp)
{
    vh_rng rg = *rgp;
    int allow_fail = (int)(idx & 1);
#ifndef VH_FUZZ
    setup_curated = idx < 2 * RT_NCURATED ? (long)(idx / 2) : -1;
#endif
    if (!setup_table(&rg, allow_fail, 0))
        return;
    char ctx0[200];
    snprintf(ctx0, sizeof ctx0, "table{%.150s}", rt_describe(&inst.d));
    inst2_alive = 0;
    if (idx & 2)
        bystander_setup();
    observe("initial", ctx0);
    unsigned len = 50 + (unsigned)vh_below(&rg, 351);
    for (unsigned s = 0; s < len; s++) {
#ifdef VH_FUZZ
        if (vh_rng_stream_left() == 0)
            break;
#endif
        VH_CASE4(idx, s, 0, 0);
        unsigned x = (unsigned)vh_below(&rg, 100);
        char c[32];
        snprintf(c, sizeof c, "step %u:", s);
        uint64_t f0 = *vh_nfail;
        if (x < 35)
            step_set(&rg, c);
        else if (x < 55)
            step_bits(&rg, c);
        else if (x < 95)
            step_block(&rg, c);
        else if (allow_fail)
            step_sanitise_unjudged(&rg, c);
        else
            step_sanitise(c, 0);
        if ((s % 11) == 5 && inst.d.nregs > 0) {
            /* the marks are also set and cleared by hand (public inline functions), on any register - among them
             * registers no checked operation could ever mark, in areas that cannot be written */
            int ti = (int)((s * 7u + (unsigned)idx) % (unsigned)inst.d.nregs);
            if (s & 2u) {
                register_touch(&inst.t, (RegisterHandle)ti);
                inst.touched[ti] = 1;
            } else {
                register_untouch(&inst.t, (RegisterHandle)ti);
                inst.touched[ti] = 0;
            }
            VH_COUNT("step: touched mark set or cleared by hand");
            observe("touch", c);
        }
        if ((s % 7) == 3)
            bystander_step(c);
        if (*vh_nfail != f0) {
            /* report with the table once, then carry on from the implementation's state */
            vh_fail("history-context", "step=context", "%s after %u steps", ctx0, s);
            rt_sync_model_from_storage(&inst);
        }
    }
    vh_sig(0x05000000ull ^ idx);
    if (idx < 2)
        vh_sample("history", "history %" PRIu64 " of %u steps on %s", idx, len, ctx0);
}

static void
corrupt_body(uint64_t idx, vh_rng *rgp);

static void
u_corrupt(uint64_t idx, void *arg)
{
    (void)arg;
    vh_rng rg;
    vh_unit_rng(&rg, "corrupt", idx);
    corrupt_body(idx, &rg);
}

static void
corrupt_body(uint64_t idx, vh_rng *rgp)
{
    vh_rng rg = *rgp;
    if (!setup_table(&rg, 0, 1))
        return;
    char ctx0[200];
    snprintf(ctx0, sizeof ctx0, "table{%.150s}", rt_describe(&inst.d));
    const struct rt_desc *d = &inst.d;
    for (unsigned round = 0; round < 40; round++) {
#ifdef VH_FUZZ
        if (vh_rng_stream_left() == 0)
            break;
#endif
        VH_CASE4(idx, round, 0, 0);
        /* touch something first so that the marks have something to lose */
        if (vh_chance(&rg, 1, 2))
            step_block(&rg, "pre-corruption:");
        /* out-of-band corruption: random words, boundary encodings, NaN patterns straight into the storage */
        for (int i = 0; i < d->nregs; i++) {
            const struct rt_reg *r = &d->reg[i];
            unsigned x = (unsigned)vh_below(&rg, 6);
            if (x == 0)
                continue;
            uint64_t bits;
            if (x == 1)
                bits = vh_rand(&rg);
            else if (x == 2)
                bits = rt_bits(r->type, biased_value(&rg, r));
            else if (x == 3 && r->type >= REG_TYPE_FLOAT32)
                bits = r->type == REG_TYPE_FLOAT32 ? 0x7fc00000u | (uint32_t)vh_below(&rg, 1000)
                                                   : 0x7ff0000000000000ull | vh_below(&rg, 1000);
            else if (x == 4)
                bits = rt_bits(r->type, rt_neighbour(r->type, vh_chance(&rg, 1, 2) ? r->lo : r->hi,
                                                     vh_chance(&rg, 1, 2) ? 1 : -1));
            else
                bits = ~0ull;
            rt_encode(r->type, d->bigendian, bits, rt_model_word(&inst, r->addr));
        }
        /* gaps too */
        for (int a = 0; a < d->nareas; a++)
            for (uint32_t w = 0; w < d->area[a].size; w++) {
                int in_reg = 0;
                for (int i = 0; i < d->nregs; i++)
                    if (d->area[a].base + w >= d->reg[i].addr
                        && d->area[a].base + w < d->reg[i].addr + rt_tsize[d->reg[i].type])
                        in_reg = 1;
                if (!in_reg && vh_chance(&rg, 1, 2))
                    inst.model[a][2 * w] = (unsigned char)vh_rand(&rg);
            }
        for (int a = 0; a < d->nareas; a++)
            memcpy(inst.store[a], inst.model[a], 2 * (size_t)d->area[a].size);
        char c[48];
        snprintf(c, sizeof c, "round %u:", round);
        uint64_t f0 = *vh_nfail;
        step_sanitise(c, 1);
        if (*vh_nfail != f0) {
            vh_fail("history-context", "step=context", "%s round %u", ctx0, round);
            rt_sync_model_from_storage(&inst);
            for (int i = 0; i < d->nregs; i++)
                inst.touched[i] = register_was_touched(&inst.t, (RegisterHandle)i);
        }
    }
    vh_sig(0x05100000ull ^ idx);
    if (idx == 0)
        vh_sample("corruption", "40 rounds of out-of-band corruption + sanitise on %s", ctx0);
}

void
harness_run(void)
{
    for (uint64_t i = 0; i < (vh_tier ? 200000u : 2000u); i++)
        vh_unit("history", i, u_history, NULL);
    for (uint64_t i = 0; i < (vh_tier ? 50000u : 1000u); i++)
        vh_unit("corrupt", i, u_corrupt, NULL);
    static const char *req[] = { "constraint of a constrained register asserted", "step: typed set accepted",
                                 "step: typed set refused", "step: bit operation accepted",
                                 "step: bit operation on a signed or float register refused",
                                 "step: bit operation with a mismatched operand refused",
                                 "step: bit operation refused by the constraint", "step: block write accepted",
                                 "step: block write refused", "step: sanitise",
                                 "register whose never-loaded default is outside its own constraint",
                                 "step: sanitise outside its promise, stopped with an error",
                                 "second table used between the steps",
                                 "sanitise: register with undecodable content reset",
                                 "sanitise: register violating its constraint reset",
                                 "sanitise: register keeps its value" };
    for (size_t i = 0; i < sizeof req / sizeof req[0]; i++)
        vh_require(req[i]);
}
