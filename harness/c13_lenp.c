/* C13 - length-prefix framing carries exactly the designated octets.
 *
 * Oracle: reference prefix encoder (LEB128 / fixed-width LE/BE written
 * here); collecting and counting sinks; fragmenting sources; destination
 * buffers, payloads, buffer memories and chunk memories are exact-size
 * poisoned-arena objects. */
#include "common/vh.h"

#include <errno.h>
#include <limits.h>
#include <sys/types.h>
#include <ufw/byte-buffer.h>
#include <ufw/endpoints.h>
#include <ufw/length-prefix.h>

/* the lenp_* functions of the header are the variable-length kind of the flenp_* family: every second call with
 * that kind goes through them */
static unsigned lp_toggle, lp_wrapped;
#define LP(fn, k, ...) \
    (((k) == LENP_VARIABLE && ((lp_toggle++ + vh_unit_salt) & 1u)) ? (lp_wrapped++, lenp_##fn(__VA_ARGS__)) : flenp_##fn((k), __VA_ARGS__))

const char *harness_name = "c13_lenp";

static const char *kname[] = { "varint", "octet", "le16", "le32", "be16", "be32" };
static const uint64_t kmax[] = { (uint64_t)SSIZE_MAX, 255u, 65535u, 0xffffffffull, 65535u, 0xffffffffull };

static size_t
ref_prefix(int k, uint64_t n, unsigned char *out)
{
    switch (k) {
    case LENP_VARIABLE: {
        size_t o = 0;
        do {
            unsigned char c = n & 0x7f;
            n >>= 7;
            if (n)
                c |= 0x80;
            out[o++] = c;
        } while (n);
        return o;
    }
    case LENP_OCTET: out[0] = (unsigned char)n; return 1;
    case LENP_LE_16BIT: out[0] = (unsigned char)n; out[1] = (unsigned char)(n >> 8); return 2;
    case LENP_BE_16BIT: out[1] = (unsigned char)n; out[0] = (unsigned char)(n >> 8); return 2;
    case LENP_LE_32BIT:
        for (int i = 0; i < 4; i++)
            out[i] = (unsigned char)(n >> (8 * i));
        return 4;
    default:
        for (int i = 0; i < 4; i++)
            out[3 - i] = (unsigned char)(n >> (8 * i));
        return 4;
    }
}

/* ---- sinks ---- */
#define SINKCAP 140000
struct csink {
    unsigned char *buf; /* SINKCAP */
    size_t n;
    uint64_t counted;   /* counting mode: octets accepted, memory never touched */
    int counting;
    size_t maxper;      /* accept at most this many octets per call (0: all) */
    unsigned calls;
    unsigned hiccup_at; /* > 0: the hiccup_at-th call (1-based) moves nothing and reports hiccup_code (0, -EAGAIN, -EINTR) */
    int hiccup_code;
    unsigned hiccups;
};

static ssize_t
csink_chunk(void *drv, const void *p, size_t n)
{
    struct csink *s = drv;
    s->calls++;
    if (s->hiccup_at && s->calls == s->hiccup_at) {
        s->hiccups++;
        return s->hiccup_code;
    }
    if (s->counting) {
        s->counted += n;
        return (ssize_t)n;
    }
    if (s->maxper && n > s->maxper)
        n = s->maxper;
    if (s->n + n > SINKCAP)
        return -ENOMEM;
    memcpy(s->buf + s->n, p, n);
    s->n += n;
    return (ssize_t)n;
}

static int
csink_octet(void *drv, unsigned char c)
{
    return (int)csink_chunk(drv, &c, 1);
}

static unsigned char *sinkmem;

static void
mk_sink(Sink *snk, struct csink *s, int style)
{
    if (!sinkmem)
        sinkmem = malloc(SINKCAP);
    memset(s, 0, sizeof *s);
    s->buf = sinkmem;
    if (style == 2)
        s->maxper = 3;
    if (style >= 3) {
        /* styles 3 (chunk) and 4 (octet): a driver that has to be asked again once - at its first, second or third
         * call it moves nothing and says 0, -EAGAIN or -EINTR */
        static unsigned hrot;
        static const int codes[3] = { 0, -EAGAIN, -EINTR };
        s->hiccup_at = 1 + hrot % 3;
        s->hiccup_code = codes[(hrot / 3) % 3];
        hrot++;
    }
    if (style == 1 || style == 4)
        octet_sink_init(snk, csink_octet, s);
    else
        chunk_sink_init(snk, csink_chunk, s);
}

/* ---- sources ---- */
struct fsrc {
    const unsigned char *p;
    size_t n, pos;
    uint64_t cuts; /* bit i: a read never crosses the boundary behind octet i */
    size_t maxper;
    unsigned calls, bound;
    int runaway;
    uint64_t idle, idled; /* bit i: before octet i is delivered the driver has nothing yet, once (it returns 0: try again) */
};

static ssize_t
fsrc_chunk(void *drv, void *out, size_t n)
{
    struct fsrc *s = drv;
    if (++s->calls > s->bound) {
        s->runaway = 1;
        return -EIO;
    }
    if (s->pos >= s->n)
        return -ENODATA;
    if (s->pos < 64 && ((s->idle & ~s->idled) >> s->pos) & 1) {
        s->idled |= 1ull << s->pos;
        return 0;
    }
    size_t k = 0;
    while (k < n && s->pos + k < s->n) {
        k++;
        if (s->pos + k - 1 < 64 && ((s->cuts >> (s->pos + k - 1)) & 1))
            break;
        if (s->maxper && k >= s->maxper)
            break;
    }
    memcpy(out, s->p + s->pos, k);
    s->pos += k;
    return (ssize_t)k;
}

static int
fsrc_octet(void *drv, void *out)
{
    return (int)fsrc_chunk(drv, out, 1);
}

/* optional: the chunk source exposes a transfer window through the getbuffer extension (the way the plumbing in
 * endpoints/core.c uses it: a scratch buffer the source's octets are read into before they go to the sink) */
static int fsrc_allow_idle;
static size_t fsrc_window;
static unsigned char fsrc_win[2][80];
static unsigned fsrc_bank;

static ByteBuffer
fsrc_getbuffer(Source *src)
{
    (void)src;
    ByteBuffer b;
    /* double-buffered: every call lends the other bank */
    memset(fsrc_win[fsrc_bank & 1u], 0xEE, sizeof fsrc_win[0]);
    fsrc_bank++;
    byte_buffer_use(&b, fsrc_win[fsrc_bank & 1u], fsrc_window);
    return b;
}

static void
mk_source(Source *src, struct fsrc *s, int octet, const unsigned char *p, size_t n, uint64_t cuts, size_t maxper)
{
    memset(s, 0, sizeof *s);
    s->p = p;
    s->n = n;
    s->cuts = cuts;
    s->maxper = maxper;
    s->bound = (unsigned)(2 * n + 200);
    /* every third source without a transfer window has nothing to give now and then (a driver polled between two
     * bursts returns 0, which the chunk API of the endpoints defines as "try again"); only where the decoder reads
     * through that API: fixed-width prefixes of two and four octets into memory or a buffer (the per-octet calls
     * hand a driver's 0 to their caller, what varint decoding and the per-octet plumbing make of it is not stated) */
    static unsigned idle_rot;
    if (fsrc_allow_idle && !fsrc_window && idle_rot++ % 3u == 0) {
        s->idle = cuts * 0x9e3779b97f4a7c15ull | 1ull << (idle_rot % 7u);
        VH_COUNT("decoder: source that has nothing to give now and then (returns 0)");
    }
    if (octet)
        octet_source_init(src, fsrc_octet, s);
    else
        chunk_source_init(src, fsrc_chunk, s);
    if (!octet && fsrc_window) {
        src->ext.getbuffer = fsrc_getbuffer;
        VH_COUNT("decoder: source exposing a transfer window");
    }
}

static void
fill(unsigned char *p, size_t n, unsigned salt)
{
    for (size_t i = 0; i < n; i++)
        p[i] = (unsigned char)((i * 13u + salt * 31u + 7u) & 0xffu);
}

/* ---- encoders ---- */
enum { E_MEM_ENC, E_BUF_ENC, E_BUF_ENC_N, E_CHUNKS_USE, E_MEM_SINK, E_BUF_SINK, E_BUF_SINK_N, E_CHUNKS_SINK, NENT };
static const char *ename[] = { "flenp_memory_encode", "flenp_buffer_encode", "flenp_buffer_encode_n",
                               "flenp_chunks_use", "flenp_memory_to_sink", "flenp_buffer_to_sink",
                               "flenp_buffer_to_sink_n", "flenp_chunks_to_sink" };

static void
check_sink(const char *key, const char *ctx, ssize_t rc, const struct csink *cs, int k, const unsigned char *payload,
           size_t len, int valid)
{
    unsigned char pre[10];
    size_t pn = ref_prefix(k, len, pre);
    if (!valid) {
        VH_COUNT("encoder: length beyond the kind's maximum refused");
        if (rc >= 0 || cs->n != 0)
            vh_fail("too-long-accepted", key, "%s: rc=%zd, %zu octets emitted", ctx, rc, cs->n);
        return;
    }
    if (cs->hiccups) {
        VH_COUNT("encoder: sink that had to be asked again once");
        if (rc < 0)
            return; /* the interruption was handed to the caller: nothing was emitted as far as the caller knows */
    }
    VH_COUNT("encoder: frame emitted to sink");
    if (rc != (ssize_t)(pn + len))
        vh_fail("total", key, "%s: rc=%zd expected %zu", ctx, rc, pn + len);
    if (cs->n != pn + len || memcmp(cs->buf, pre, pn) != 0)
        vh_fail("prefix", key, "%s: emitted %zu octets starting %s, expected %zu starting %s", ctx, cs->n,
                vh_hex(cs->buf, cs->n < 12 ? cs->n : 12), pn + len, vh_hex(pre, pn));
    else if (memcmp(cs->buf + pn, payload, len) != 0)
        vh_fail("payload", key, "%s: payload octets differ (first emitted %s, expected %s)", ctx,
                vh_hex(cs->buf + pn, len < 8 ? len : 8), vh_hex(payload, len < 8 ? len : 8));
}

static void
check_prefix_obj(const char *key, const char *ctx, int rc, const ByteBuffer *prefix, int k, size_t len, int valid)
{
    unsigned char pre[10];
    size_t pn = ref_prefix(k, len, pre);
    if (!valid) {
        VH_COUNT("encoder: length beyond the kind's maximum refused");
        if (rc >= 0)
            vh_fail("too-long-accepted", key, "%s: rc=%d", ctx, rc);
        return;
    }
    VH_COUNT("encoder: prefix object filled");
    if (rc != 0)
        vh_fail("encode-rc", key, "%s: rc=%d", ctx, rc);
    else if (byte_buffer_rest(prefix) != pn || memcmp(prefix->data + prefix->offset, pre, pn) != 0)
        vh_fail("prefix", key, "%s: prefix object holds %s expected %s", ctx,
                vh_hex(prefix->data + prefix->offset, byte_buffer_rest(prefix)), vh_hex(pre, pn));
}

/* one encoder case: kind k, entry e, designated payload length len, buffer layout (consumed, extra unread, free) */
static void
enc_case(int k, int e, size_t len, size_t consumed, size_t extra, size_t freesp, int sinkstyle)
{
    char key[96], ctx[160];
    snprintf(key, sizeof key, "entry=%s kind=%s", ename[e], kname[k]);
    snprintf(ctx, sizeof ctx, "len=%zu consumed=%zu extra=%zu free=%zu sinkstyle=%d", len, consumed, extra, freesp,
             sinkstyle);
    int valid = len <= kmax[k];
    Sink snk;
    struct csink cs;
    mk_sink(&snk, &cs, sinkstyle);
    switch (e) {
    case E_MEM_ENC: {
        unsigned char *p = vh_arena(len);
        fill(p, len, 1);
        LengthPrefixBuffer lpb;
        memset(&lpb, 0, sizeof lpb);
        int rc = LP(memory_encode, k, &lpb, p, len);
        check_prefix_obj(key, ctx, rc, &lpb.prefix, k, len, valid);
        if (valid && rc == 0
            && (lpb.payload.data != p || lpb.payload.offset != 0 || lpb.payload.used != len
                || lpb.payload.size != len))
            vh_fail("payload-view", key, "%s: payload view offset=%zu used=%zu size=%zu", ctx, lpb.payload.offset,
                    lpb.payload.used, lpb.payload.size);
        break;
    }
    case E_MEM_SINK: {
        unsigned char *p = vh_arena(len);
        fill(p, len, 2);
        ssize_t rc = LP(memory_to_sink, k, &snk, p, len);
        check_sink(key, ctx, rc, &cs, k, p, len, valid);
        break;
    }
    case E_BUF_ENC:
    case E_BUF_ENC_N:
    case E_BUF_SINK:
    case E_BUF_SINK_N: {
        int is_n = (e == E_BUF_ENC_N || e == E_BUF_SINK_N);
        size_t unread = len + (is_n ? extra : 0);
        size_t size = consumed + unread + freesp;
        if (size == 0)
            size = 1;
        unsigned char *mem = vh_arena(size);
        fill(mem, consumed, 3);
        fill(mem + consumed, unread, 4);
        memset(mem + consumed + unread, 0xF3, size - consumed - unread);
        unsigned char *copy = malloc(size);
        memcpy(copy, mem, size);
        ByteBuffer b;
        byte_buffer_set(&b, mem, size, consumed + unread, consumed);
        LengthPrefixBuffer lpb;
        memset(&lpb, 0, sizeof lpb);
        ssize_t rc;
        if (e == E_BUF_ENC)
            rc = LP(buffer_encode, k, &lpb, &b);
        else if (e == E_BUF_ENC_N)
            rc = LP(buffer_encode_n, k, &lpb, &b, len);
        else if (e == E_BUF_SINK)
            rc = LP(buffer_to_sink, k, &snk, &b);
        else
            rc = LP(buffer_to_sink_n, k, &snk, &b, len);
        if (e == E_BUF_ENC || e == E_BUF_ENC_N) {
            check_prefix_obj(key, ctx, (int)rc, &lpb.prefix, k, len, valid);
            if (valid && rc == 0
                && (lpb.payload.data + lpb.payload.offset != mem + consumed || byte_buffer_rest(&lpb.payload) != len))
                vh_fail("payload-view", key, "%s: payload view starts at +%td with %zu unread", ctx,
                        lpb.payload.data + lpb.payload.offset - mem, byte_buffer_rest(&lpb.payload));
        } else {
            check_sink(key, ctx, rc, &cs, k, copy + consumed, len, valid);
        }
        size_t expoff = consumed + ((is_n && valid) ? len : 0);
        if (cs.hiccups && rc < 0)
            expoff = b.offset; /* given up after an interrupted sink call: where the read mark ends up is not judged */
        if (b.offset != expoff || b.used != consumed + unread || b.size != size || b.data != mem)
            vh_fail("buffer-advance", key, "%s: buffer offset=%zu used=%zu, expected offset=%zu used=%zu", ctx,
                    b.offset, b.used, expoff, consumed + unread);
        if (memcmp(mem, copy, size) != 0)
            vh_fail("buffer-modified", key, "%s: the source buffer's memory changed", ctx);
        if (is_n) {
            /* asking for more than is unread must be refused without any effect */
            ByteBuffer before = b;
            size_t sunk = cs.n;
            size_t toomuch = byte_buffer_rest(&b) + 1;
            ssize_t rc2 = (e == E_BUF_ENC_N) ? LP(buffer_encode_n, k, &lpb, &b, toomuch)
                                             : LP(buffer_to_sink_n, k, &snk, &b, toomuch);
            if (rc2 >= 0 || b.offset != before.offset || b.used != before.used || cs.n != sunk)
                vh_fail("n-beyond-unread", key, "%s: n=%zu with %zu unread: rc=%zd offset %zu->%zu emitted %zu", ctx,
                        toomuch, toomuch - 1, rc2, before.offset, b.offset, cs.n - sunk);
            VH_COUNT("encoder: n beyond the unread content refused");
        }
        free(copy);
        break;
    }
    default: { /* chunk lists: split len over 1..4 chunks, some empty, some inactive */
        ByteBuffer chunk[6];
        unsigned char *expect = malloc(len + 1);
        size_t nch = 2 + (consumed % 4), active = extra % 2, o = 0;
        size_t remaining = len;
        /* every second list has its chunks carved from one block, each starting exactly where its predecessor
         * ends (a header and a body in one buffer); the others live in separate blocks */
        const int one_block = (int)((len + consumed + freesp) & 1);
        unsigned char *blockp = one_block ? vh_arena(len + 3 * 6 + 6) : NULL;
        if (one_block)
            VH_COUNT("encoder: chunk list carved from one block (adjacent chunks)");
        for (size_t i = 0; i < nch; i++) {
            size_t part;
            if (i < active)
                part = 3; /* inactive chunks hold data that must not be framed */
            else if (i == nch - 1)
                part = remaining;
            else if ((freesp + i) % 3 == 0)
                part = 0; /* empty chunk */
            else
                part = remaining / (nch - i);
            size_t lead = (i + consumed) % 3; /* consumed octets in front of the unread part */
            size_t msz = lead + part ? lead + part : 1;
            unsigned char *m;
            if (one_block) {
                m = blockp;
                blockp += lead + part; /* an empty chunk (size 1, nothing used) shares its octet with its successor */
            } else {
                m = vh_arena(msz);
            }
            fill(m, msz, (unsigned)(10 + i));
            byte_buffer_set(&chunk[i], m, msz, lead + part, lead);
            if (i >= active) {
                memcpy(expect + o, m + lead, part);
                o += part;
                remaining -= part;
            }
        }
        ByteChunks bc = { .chunks = nch, .active = active, .chunk = chunk };
        if (e == E_CHUNKS_USE) {
            LengthPrefixChunks lpc;
            memset(&lpc, 0, sizeof lpc);
            lpc.payload = bc;
            int rc = LP(chunks_use, k, &lpc);
            check_prefix_obj(key, ctx, rc, &lpc.prefix, k, len, valid);
        } else {
            ssize_t rc = LP(chunks_to_sink, k, &snk, &bc);
            check_sink(key, ctx, rc, &cs, k, expect, len, valid);
        }
        VH_COUNT("encoder: chunk list with empty and inactive chunks");
        free(expect);
        break;
    }
    }
}

static void
u_enc(uint64_t idx, void *arg)
{
    (void)arg;
    int k = (int)(idx % 6);
    uint64_t part = idx / 6, nparts = 8;
    size_t maxlen = vh_tier ? 1100 : 300;
    uint64_t n = 0;
    for (size_t len = 1 + (size_t)part; len <= maxlen; len += (size_t)nparts) {
        for (int e = 0; e < NENT; e++) {
            vh_arena_reset();
            VH_CASE4(k, e, len, 0);
            enc_case(k, e, len, len % 5, (len / 5) % 3, (len / 3) % 4, (int)(len % 3));
            enc_case(k, e, len, 0, 0, 0, (int)((len + 1) % 3));
            if (len <= 300) {
                vh_arena_reset();
                enc_case(k, e, len, len % 3, 0, 1, 3 + (int)(len % 2));
                n++;
            }
            n += 2;
            if (vh_tier)
                for (size_t lay = 0; lay < 12; lay++) {
                    vh_arena_reset();
                    enc_case(k, e, len, lay % 4, lay % 3, (lay / 3) % 4, (int)(lay % 3));
                    n++;
                }
        }
        vh_sig(0x13000000ull ^ ((uint64_t)k << 32) ^ len);
        if (lp_wrapped) {
            VH_COUNTN("call through a lenp_* wrapper", lp_wrapped);
            lp_wrapped = 0;
        }
    }
    *vh_ncases += n;
}

static void
u_bounds(uint64_t idx, void *arg)
{
    (void)arg;
    int k = (int)(idx % 6);
    static const size_t lens[] = { 1, 2, 126, 127, 128, 129, 254, 255, 256, 257, 16382, 16383, 16384, 16385,
                                   65534, 65535, 65536, 65537 };
    uint64_t n = 0;
    for (size_t i = 0; i < sizeof lens / sizeof lens[0]; i++)
        for (int e = 0; e < NENT; e++)
            for (int st = 0; st < 3; st++) {
                if (st == 1 && lens[i] > 300)
                    continue; /* octet sinks only for short frames */
                vh_arena_reset();
                VH_CASE4(k, e, lens[i], st);
                enc_case(k, e, lens[i], 2, 1, 3, st);
                n++;
                vh_sig(0x13100000ull ^ ((uint64_t)k << 32) ^ ((uint64_t)e << 24) ^ lens[i]);
            }
    *vh_ncases += n;
    vh_countf("kind maxima +-1 (%s)", kname[k]);
    unsigned char pre[10];
    size_t pn = ref_prefix(k, 300, pre);
    vh_sample(kname[k], "kind %s: length 300 -> prefix %s; maximum %" PRIu64, kname[k], vh_hex(pre, pn), kmax[k]);
}

/* 4 GiB and SSIZE_MAX cases: counting sink, payload memory never touched */
static void
u_huge(uint64_t idx, void *arg)
{
    (void)arg;
    (void)idx;
    unsigned char *p = vh_arena(8);
    static const uint64_t lens[] = { 0xfffffffeull, 0xffffffffull, 0x100000000ull, 0x100000001ull,
                                     (uint64_t)SSIZE_MAX - 20, (uint64_t)SSIZE_MAX, (uint64_t)SSIZE_MAX + 1,
                                     UINT64_MAX };
    for (int k = 0; k < 6; k++)
        for (size_t i = 0; i < sizeof lens / sizeof lens[0]; i++) {
            VH_CASE4(k, i, 0, 0);
            Sink snk;
            struct csink cs;
            mk_sink(&snk, &cs, 0);
            cs.counting = 1;
            uint64_t len = lens[i];
            unsigned char pre[10];
            size_t pn = ref_prefix(k, len, pre);
            int valid = len <= kmax[k] && len <= (uint64_t)SSIZE_MAX - pn;
            ssize_t rc = LP(memory_to_sink, k, &snk, p, (size_t)len);
            char key[64];
            snprintf(key, sizeof key, "entry=flenp_memory_to_sink kind=%s", kname[k]);
            if (valid) {
                VH_COUNT("huge length accepted (counting sink)");
                if (rc != (ssize_t)(pn + len) || cs.counted != pn + len)
                    vh_fail("huge-total", key, "len=%" PRIu64 " rc=%zd counted=%" PRIu64, len, rc, cs.counted);
            } else {
                VH_COUNT("huge length refused");
                if (rc >= 0 || cs.counted != 0)
                    vh_fail("too-long-accepted", key, "len=%" PRIu64 " rc=%zd counted=%" PRIu64, len, rc, cs.counted);
            }
            *vh_ncases += 1;
            vh_sig(0x13200000ull ^ ((uint64_t)k << 32) ^ i);
        }
    vh_sample("huge", "flenp_memory_to_sink(le32, n=2^32-1) -> 4+2^32-1 octets into a counting sink; n=2^32 refused");
}

/* huge frames through the decoders: a source that counts instead of writing, destinations whose size is only claimed */
static struct {
    unsigned char prefix[12];
    size_t pn, ppos;
    uint64_t remaining;
    uint64_t delivered;
} hs;

static ssize_t
hsrc_chunk(void *drv, void *out, size_t n)
{
    (void)drv;
    if (hs.ppos < hs.pn) {
        size_t k = n < hs.pn - hs.ppos ? n : hs.pn - hs.ppos;
        memcpy(out, hs.prefix + hs.ppos, k);
        hs.ppos += k;
        return (ssize_t)k;
    }
    if (hs.remaining == 0)
        return -ENODATA;
    /* "deliver" up to 1 GiB per call without touching the destination */
    uint64_t k = n < hs.remaining ? n : hs.remaining;
    if (k > (1u << 30))
        k = 1u << 30;
    hs.remaining -= k;
    hs.delivered += k;
    return (ssize_t)k;
}

static void
u_hugedec(uint64_t idx, void *arg)
{
    (void)arg;
    (void)idx;
    static const uint64_t lens[] = { 65535, 65536, 0x7fffffffull, 0x80000000ull, 0x80000010ull, 0xfffffffeull, 0xffffffffull,
                                     0x100000005ull, 0x7fffffff0ull };
    unsigned char *mem = vh_arena(16);
    for (int k = 0; k < 6; k++)
        for (size_t i = 0; i < sizeof lens / sizeof lens[0]; i++) {
            uint64_t len = lens[i];
            if (len > kmax[k])
                continue;
            for (int dec = 0; dec < 2; dec++) {
                VH_CASE4(k, i, dec, 0);
                memset(&hs, 0, sizeof hs);
                hs.pn = ref_prefix(k, len, hs.prefix);
                hs.remaining = len;
                Source src;
                chunk_source_init(&src, hsrc_chunk, NULL);
                char key[80];
                ssize_t rc;
                if (dec == 0) {
                    snprintf(key, sizeof key, "entry=flenp_memory_from_source kind=%s size=huge", kname[k]);
                    rc = LP(memory_from_source, k, &src, mem, (size_t)len + 7);
                    if (rc != (ssize_t)len || hs.delivered != len)
                        vh_fail("huge-decode", key, "len=%" PRIu64 ": rc=%zd, source delivered %" PRIu64, len, rc, hs.delivered);
                } else {
                    snprintf(key, sizeof key, "entry=flenp_buffer_from_source kind=%s size=huge", kname[k]);
                    ByteBuffer b;
                    /* the memory behind the claimed size is never touched: the source only counts */
                    byte_buffer_set(&b, mem, (size_t)len + 100, 7, 2);
                    rc = LP(buffer_from_source, k, &src, &b);
                    if (rc != (ssize_t)len || hs.delivered != len || b.used != 7 + (size_t)len || b.offset != 2)
                        vh_fail("huge-decode", key, "len=%" PRIu64 ": rc=%zd used=%zu offset=%zu, source delivered %" PRIu64, len,
                                rc, b.used, b.offset, hs.delivered);
                    /* destination one octet too small */
                    memset(&hs, 0, sizeof hs);
                    hs.pn = ref_prefix(k, len, hs.prefix);
                    hs.remaining = len;
                    byte_buffer_set(&b, mem, (size_t)len + 6, 7, 2);
                    rc = LP(buffer_from_source, k, &src, &b);
                    if (rc != -ENOMEM || b.used != 7 || hs.delivered != 0)
                        vh_fail("huge-nomem", key, "len=%" PRIu64 " with room for one octet less: rc=%zd used=%zu delivered %" PRIu64,
                                len, rc, b.used, hs.delivered);
                }
                VH_COUNT("huge frame decoded from a counting source");
                *vh_ncases += 1;
                vh_sig(0x13500000ull ^ ((uint64_t)k << 32) ^ (i << 4) ^ (uint64_t)dec);
            }
        }
}

/* ---- decoders ---- */
enum { D_MEM, D_BUF, D_SINK };

/* stream = nframes frames of kind k with payload lengths lens[]; decode them in order */
/* > 0: variable-length prefixes in the next decoder streams are written with that many octets more than the value
 * needs (continuation bit on the last significant octet, then 80 .. 80 00): still the length in the kind's encoding -
 * the varint decoders take such strings (C14) - as writers produce that reserve a fixed-width field and fill it in
 * afterwards */
static unsigned dec_pad;

static void
dec_case(int k, int dec, int octet_source, uint64_t cuts, size_t maxper, const size_t *lens, int nframes, int capdelta)
{
    static unsigned char stream[8192], payloads[4][2100];
    size_t sn = 0;
    for (int f = 0; f < nframes; f++) {
        fill(payloads[f], lens[f], (unsigned)(40 + f));
        sn += ref_prefix(k, lens[f], stream + sn);
        if (dec_pad && k == LENP_VARIABLE && (f != 1 || nframes < 3)) {
            stream[sn - 1] |= 0x80;
            for (unsigned i = 1; i < dec_pad; i++)
                stream[sn++] = 0x80;
            stream[sn++] = 0x00;
            VH_COUNT("decoder: variable-length prefix longer than the value needs");
        }
        memcpy(stream + sn, payloads[f], lens[f]);
        sn += lens[f];
    }
    unsigned char *in = vh_arena_copy(stream, sn);
    Source src;
    struct fsrc fs;
    fsrc_allow_idle = dec != D_SINK && k >= LENP_LE_16BIT;
    mk_source(&src, &fs, octet_source, in, sn, cuts, maxper);
    fsrc_allow_idle = 0;
    char key[96], ctx[200];
    static const char *dname[] = { "flenp_memory_from_source", "flenp_buffer_from_source",
                                   "flenp_decode_source_to_sink" };
    snprintf(key, sizeof key, "entry=%s kind=%s source=%s", dname[dec], kname[k], octet_source ? "octet" : "chunk");
    for (int f = 0; f < nframes; f++) {
        size_t len = lens[f];
        snprintf(ctx, sizeof ctx, "frame %d/%d len=%zu cuts=%" PRIx64 " maxper=%zu capdelta=%d", f, nframes, len, cuts,
                 maxper, capdelta);
        /* capacity: only the last frame gets the tight/insufficient destination */
        long cap = (long)len + ((f == nframes - 1) ? capdelta : 1);
        if (cap < 0)
            cap = 0;
        ssize_t rc;
        if (dec == D_MEM) {
            unsigned char *dst = vh_arena((size_t)cap);
            rc = LP(memory_from_source, k, &src, dst, (size_t)cap);
            if ((size_t)cap >= len) {
                VH_COUNT("decoder: payload delivered");
                if (rc != (ssize_t)len || memcmp(dst, payloads[f], len) != 0)
                    vh_fail("decode", key, "%s: rc=%zd payload starts %s", ctx, rc, vh_hex(dst, len < 8 ? len : 8));
                for (size_t i = len; i < (size_t)cap; i++)
                    if (dst[i] != 0xA5)
                        vh_fail("decode-writes-beyond-payload", key, "%s", ctx);
            } else {
                VH_COUNT("decoder: destination too small");
                if (rc != -ENOMEM)
                    vh_fail("nomem", key, "%s: rc=%zd expected -ENOMEM", ctx, rc);
                for (size_t i = 0; i < (size_t)cap; i++)
                    if (dst[i] != 0xA5)
                        vh_fail("nomem-writes", key, "%s: destination modified", ctx);
                return;
            }
        } else if (dec == D_BUF) {
            /* destination buffer with consumed, unread and free regions */
            size_t pre = 3, off = 1;
            size_t size = pre + (size_t)cap;
            unsigned char *mem = vh_arena(size ? size : 1);
            fill(mem, pre, 77);
            ByteBuffer b;
            byte_buffer_set(&b, mem, size ? size : 1, pre, off);
            rc = LP(buffer_from_source, k, &src, &b);
            unsigned char head[3];
            fill(head, pre, 77);
            if (memcmp(mem, head, pre) != 0)
                vh_fail("buffer-earlier-content", key, "%s: filled region overwritten: %s", ctx, vh_hex(mem, pre));
            if ((size_t)cap >= len) {
                VH_COUNT("decoder: payload delivered");
                if (rc != (ssize_t)len || b.used != pre + len || b.offset != off
                    || memcmp(mem + pre, payloads[f], len) != 0)
                    vh_fail("decode-buffer", key, "%s: rc=%zd offset=%zu used=%zu (expected offset %zu used %zu)",
                            ctx, rc, b.offset, b.used, off, pre + len);
            } else {
                VH_COUNT("decoder: destination too small");
                if (rc != -ENOMEM || b.used != pre || b.offset != off)
                    vh_fail("nomem", key, "%s: rc=%zd offset=%zu used=%zu", ctx, rc, b.offset, b.used);
                return;
            }
        } else {
            Sink snk;
            struct csink cs;
            mk_sink(&snk, &cs, (int)(len % 3));
            rc = LP(decode_source_to_sink, k, &src, &snk);
            VH_COUNT("decoder: payload delivered");
            if (rc != (ssize_t)len || cs.n != len || memcmp(cs.buf, payloads[f], len) != 0)
                vh_fail("decode-to-sink", key, "%s: rc=%zd sink has %zu octets", ctx, rc, cs.n);
        }
        if (fs.runaway) {
            vh_fail("no-progress", key, "%s: more than %u source calls", ctx, fs.bound);
            return;
        }
    }
    if (fs.pos != sn)
        vh_fail("consumed", key, "%d frames: consumed %zu of %zu stream octets", nframes, fs.pos, sn);
    if (nframes > 1)
        VH_COUNT("decoder: consecutive frames on one stream");
}

static void
u_dec(uint64_t idx, void *arg)
{
    (void)arg;
    int k = (int)(idx % 6);
    uint64_t part = idx / 6, nparts = 8;
    size_t maxlen = vh_tier ? 1100 : 300;
    uint64_t n = 0;
    vh_rng r;
    vh_unit_rng(&r, "dec", idx);
    for (size_t len = 1 + (size_t)part; len <= maxlen; len += (size_t)nparts) {
        if ((uint64_t)len > kmax[k])
            break;
        for (int dec = 0; dec < 3; dec++)
            for (int capd = -1; capd <= 1; capd++) {
                if (dec == D_SINK && capd != 0)
                    continue;
                vh_arena_reset();
                VH_CASE4(k, dec, len, capd + 1);
                size_t lens[3] = { len, 0, 0 };
                dec_case(k, dec, (int)(len & 1), vh_rand(&r), 1 + (size_t)vh_below(&r, 9), lens, 1, capd);
                /* two or three frames back to back, randomly fragmented */
                size_t l3[3] = { 1 + (size_t)vh_below(&r, 40), len, 1 + (size_t)vh_below(&r, 200) };
                if ((uint64_t)l3[2] > kmax[k])
                    l3[2] = 7;
                static const size_t wins[] = { 0, 0, 3, 16, 17, 64, 80 };
                fsrc_window = wins[(len + (size_t)dec) % 7];
                dec_case(k, dec, (int)((len >> 1) & 1), vh_rand(&r), fsrc_window ? 0 : 1 + (size_t)vh_below(&r, 5), l3,
                         2 + (int)(len % 2), capd);
                fsrc_window = 0;
                n += 2;
                if (k == LENP_VARIABLE) {
                    dec_pad = 1 + (unsigned)((len + (size_t)dec) % 3);
                    fsrc_window = wins[(len + (size_t)dec + 3) % 7];
                    dec_case(k, dec, (int)((len >> 2) & 1), vh_rand(&r), fsrc_window ? 0 : 1 + (size_t)vh_below(&r, 5), l3,
                             2 + (int)(len % 2), capd);
                    fsrc_window = 0;
                    dec_pad = 0;
                    n++;
                }
            }
        vh_sig(0x13300000ull ^ ((uint64_t)k << 32) ^ len);
        if (lp_wrapped) {
            VH_COUNTN("call through a lenp_* wrapper", lp_wrapped);
            lp_wrapped = 0;
        }
    }
    *vh_ncases += n;
}

/* a frame tunnelled through a second framed link: the outer encoder writes into a sink whose driver wraps every
 * chunk it is handed into a frame of its own (inner kind: one octet or varint) on a lower sink. Unwrapping the
 * lower stream must give back the outer frame octet for octet - the outer call's prefix and payload must still be
 * what they were when the driver returns. */
struct tunnel {
    Sink *lower;
    int inner_kind;
    unsigned calls;
};

static ssize_t
tunnel_chunk(void *drv, const void *p, size_t n)
{
    struct tunnel *t = drv;
    t->calls++;
    if (n > 200)
        n = 200; /* a short write: the rest comes again */
    ssize_t rc = LP(memory_to_sink, t->inner_kind, t->lower, (void *)(uintptr_t)p, n);
    return rc < 0 ? rc : (ssize_t)n;
}

static void
u_tunnel(uint64_t idx, void *arg)
{
    (void)arg;
    const int k = (int)(idx % 6), inner = (idx / 6) & 1 ? LENP_VARIABLE : LENP_OCTET, entry = (int)(idx / 12) % 4;
    static const char *en[] = { "flenp_memory_to_sink", "flenp_buffer_to_sink", "flenp_buffer_to_sink_n", "flenp_chunks_to_sink" };
    static const size_t lens[] = { 1, 2, 5, 40, 127, 128, 200, 201, 255, 300 };
    uint64_t n = 0;
    for (size_t li = 0; li < sizeof lens / sizeof lens[0]; li++) {
        const size_t len = lens[li];
        if ((uint64_t)len > kmax[k])
            continue;
        vh_arena_reset();
        unsigned char payload[300], expect[320];
        fill(payload, len, (unsigned)(len + (size_t)k));
        size_t en_n = ref_prefix(k, len, expect);
        memcpy(expect + en_n, payload, len);
        en_n += len;
        Sink lower, tun;
        struct csink cs;
        mk_sink(&lower, &cs, (int)(li % 3));
        struct tunnel t = { &lower, inner, 0 };
        chunk_sink_init(&tun, tunnel_chunk, &t);
        unsigned char *mem = vh_arena_copy(payload, len);
        ssize_t rc;
        VH_CASE4(idx, len, inner, entry);
        if (entry == 0) {
            rc = LP(memory_to_sink, k, &tun, mem, len);
        } else if (entry == 1 || entry == 2) {
            ByteBuffer b;
            byte_buffer_use(&b, mem, len);
            rc = entry == 1 ? LP(buffer_to_sink, k, &tun, &b) : LP(buffer_to_sink_n, k, &tun, &b, len);
        } else {
            ByteBuffer ch[3];
            size_t a = len / 3, b2 = len / 2;
            /* (a chunk may be empty: byte_buffer_use() refuses size 0, so the chunks are written directly) */
            static unsigned char nothing[1];
            const size_t cl[3] = { a, b2 - a, len - b2 };
            unsigned char *const cp[3] = { mem, mem + a, mem + b2 };
            for (int ci = 0; ci < 3; ci++) {
                const ByteBuffer t = BYTE_BUFFER_INIT(cl[ci] ? cp[ci] : nothing, cl[ci] ? cl[ci] : 1, cl[ci], 0);
                ch[ci] = t;
            }
            ByteChunks bc = { .chunks = 3, .active = 0, .chunk = ch };
            rc = LP(chunks_to_sink, k, &tun, &bc);
        }
        char key[96], ctx[200];
        snprintf(key, sizeof key, "workload=tunnel entry=%s kind=%s inner=%s", en[entry], kname[k], kname[inner == LENP_VARIABLE ? 0 : 1]);
        /* unwrap the lower stream */
        unsigned char got[700];
        size_t gn = 0, pos = 0;
        int broken = 0;
        while (pos < cs.n && !broken) {
            uint64_t fl = 0;
            if (inner == LENP_OCTET) {
                fl = cs.buf[pos++];
            } else {
                int sh = 0;
                for (;;) {
                    if (pos >= cs.n || sh > 56) {
                        broken = 1;
                        break;
                    }
                    unsigned char c = cs.buf[pos++];
                    fl |= (uint64_t)(c & 0x7f) << sh;
                    sh += 7;
                    if (!(c & 0x80))
                        break;
                }
            }
            if (broken || fl > cs.n - pos || gn + fl > sizeof got) {
                broken = 1;
                break;
            }
            memcpy(got + gn, cs.buf + pos, (size_t)fl);
            gn += (size_t)fl;
            pos += (size_t)fl;
        }
        snprintf(ctx, sizeof ctx, "len=%zu: rc=%zd, %u driver calls, lower stream %zu octets", len, rc, t.calls, cs.n);
        if (rc != (ssize_t)en_n)
            vh_fail("tunnel-result", key, "%s: expected %zu", ctx, en_n);
        if (broken || gn != en_n || memcmp(got, expect, en_n) != 0) {
            size_t d = 0;
            while (d < gn && d < en_n && got[d] == expect[d])
                d++;
            vh_fail("tunnel-content", key, "%s: unwrapped %zu octets, expected %zu; first difference at %zu: got %s expected %s", ctx, gn,
                    en_n, d, vh_hex(got + d, gn - d > 8 ? 8 : gn - d), vh_hex(expect + d, en_n - d > 8 ? 8 : en_n - d));
        }
        n++;
        vh_sig(0x13600000ull ^ (idx << 16) ^ len);
    }
    VH_COUNT("encoder writing into a sink that frames what it receives (nested encoder calls)");
    *vh_ncases += n;
    if (lp_wrapped) {
        VH_COUNTN("call through a lenp_* wrapper", lp_wrapped);
        lp_wrapped = 0;
    }
}

/* all fragmentations of short streams */
static void
u_frag(uint64_t idx, void *arg)
{
    (void)arg;
    int k = (int)(idx % 6);
    int dec = (int)(idx / 6) % 3;
    uint64_t n = 0;
    /* two frames: payload lengths (a, b) with total stream length <= 10 */
    for (size_t a = 1; a <= 4; a++)
        for (size_t b = 1; b <= 3; b++) {
            unsigned char tmp[10];
            size_t sn = 2 * ref_prefix(k, a, tmp) + a + b;
            if (sn > 12)
                continue;
            for (uint64_t cuts = 0; cuts < (1ull << (sn - 1)); cuts++) {
                vh_arena_reset();
                VH_CASE4(k, dec, (a << 8) | b, cuts);
                size_t lens[3] = { a, b, 0 };
                dec_case(k, dec, 0, cuts, 0, lens, 2, 0);
                n++;
            }
            VH_COUNT("decoder: every fragmentation of a short two-frame stream");
            vh_sig(0x13400000ull ^ ((uint64_t)idx << 16) ^ (a << 8) ^ b);
        }
    *vh_ncases += n;
    if (idx == 0)
        vh_sample("fragmentation", "two varint frames (payload 4 and 3 octets): all 2^(len-1) ways a chunk source can "
                                   "split its reads");
}

void
harness_run(void)
{
    for (uint64_t i = 0; i < 6 * 8; i++)
        vh_unit("enc", i, u_enc, NULL);
    for (uint64_t i = 0; i < 6; i++)
        vh_unit("bounds", i, u_bounds, NULL);
    vh_unit("huge", 0, u_huge, NULL);
    vh_unit("hugedec", 0, u_hugedec, NULL);
    for (uint64_t i = 0; i < 6 * 8; i++)
        vh_unit("dec", i, u_dec, NULL);
    for (uint64_t i = 0; i < 18; i++)
        vh_unit("frag", i, u_frag, NULL);
    for (uint64_t i = 0; i < 48; i++)
        vh_unit("tunnel", i, u_tunnel, NULL);
    vh_require("decoder: variable-length prefix longer than the value needs");
    vh_require("encoder writing into a sink that frames what it receives (nested encoder calls)");
    vh_require("call through a lenp_* wrapper");
    vh_require("encoder: chunk list carved from one block (adjacent chunks)");
    vh_require("decoder: source exposing a transfer window");
    static const char *req[] = { "encoder: frame emitted to sink", "encoder: prefix object filled",
                                 "encoder: length beyond the kind's maximum refused",
                                 "encoder: chunk list with empty and inactive chunks",
                                 "huge length accepted (counting sink)", "huge length refused",
                                 "huge frame decoded from a counting source",
                                 "decoder: payload delivered", "decoder: destination too small",
                                 "decoder: consecutive frames on one stream",
                                 "decoder: every fragmentation of a short two-frame stream",
                                 "kind maxima +-1 (varint)", "kind maxima +-1 (be32)" };
    for (size_t i = 0; i < sizeof req / sizeof req[0]; i++)
        vh_require(req[i]);
}
