/* C09 - receiving and processing arbitrary input is memory-safe and
 * resource-exact.
 *
 * The frame block comes from a ledger allocator on exact-size poisoned-arena
 * blocks (freed blocks are re-poisoned), the backend computes from the ledger
 * how much room lies behind the pointer it is handed, the source injects
 * channel errors at every position, the allocator fails at every index.
 * ASan/UBSan watch everything else. */
#include "rp_common.h"
#include <inttypes.h>

const char *harness_name = "c09_regp_safety";

static struct rp_h H;
static struct rp_split SP;

struct obs {
    int rc_recv, rc_proc;
    int errid;
    int frame_null;
    int nf;               /* reply frames */
    struct rframe r[4];
    int rerr[4];
};

static unsigned since_reset;

/* one recv/process/free round on whatever the source holds; returns 0 when the source is exhausted before anything */
static void
exchange(struct obs *o, const char *key, const char *ctx)
{
    H.out_n = 0;
    H.ncalls = 0;
    H.backend_small_buffer = 0;
    RPMaybeFrame mf;
    memset(&mf, 0x5a, sizeof mf);
    o->rc_recv = regp_recv(&H.p, &mf);
    o->errid = mf.error.id;
    o->frame_null = mf.frame == NULL;
    if (o->rc_recv < 0 && mf.frame != NULL) {
        /* the documented loop does its error handling here; the statement makes the receiver responsible for the block */
        vh_fail("frame-returned-with-channel-error", key, "%s: regp_recv rc=%d but mf.frame=%p", ctx, o->rc_recv,
                (void *)mf.frame);
    }
    if (o->rc_recv < 0 && !H.in_runaway && rp_live_blocks(&H) != 0)
        vh_fail("block-leaked-on-channel-error", key, "%s: regp_recv rc=%d, %d blocks still allocated", ctx, o->rc_recv,
                rp_live_blocks(&H));
    o->rc_proc = 0;
    if (o->rc_recv >= 0) {
        o->rc_proc = regp_process(&H.p, &mf);
        regp_free(&H.p, mf.frame);
    }
    if (H.in_runaway)
        vh_fail("no-progress", key, "%s: more than %u source calls", ctx, H.in_bound);
    if (rp_live_blocks(&H) != 0 || H.bad_free) {
        if (!(o->rc_recv < 0)) /* reported above already */
            vh_fail("block-ledger", key, "%s: after recv/process/free %d blocks live, double/foreign free=%d", ctx,
                    rp_live_blocks(&H), H.bad_free);
        H.bad_free = 0;
        for (int i = 0; i < H.nblk; i++)
            H.blk[i].live = 0;
    }
    for (int i = 0; i < H.nblk; i++)
        if (H.blk[i].frees > 1)
            vh_fail("double-free", key, "%s: block freed %u times", ctx, H.blk[i].frees);
    rp_ledger_gc(&H);
    if (H.backend_small_buffer)
        vh_fail("backend-buffer-too-small", key, "%s: backend asked for %zu words with %zu octets behind the pointer",
                ctx, H.call[0].n, H.call[0].room);
    for (int i = 0; i < H.ncalls && i < 8; i++)
        if (H.call[i].room == SIZE_MAX)
            vh_fail("backend-pointer-outside-block", key, "%s", ctx);
    o->nf = rp_unframe(H.serial, H.out, H.out_n, &SP);
    for (int i = 0; i < o->nf && i < 4; i++)
        o->rerr[i] = rp_decode_raw(SP.raw[i], SP.len[i], &o->r[i]);
    if (o->nf < 0 || (o->nf > 0 && o->rerr[0]))
        vh_fail("reply-malformed", key, "%s: reply octets %s", ctx, vh_hex(H.out, H.out_n > 40 ? 40 : H.out_n));
    if (++since_reset >= 10) {
        /* wire input lives in the arena too: the caller re-feeds after a reset */
        since_reset = 0;
    }
}

static size_t window; /* > 0: the next instances read through a getbuffer source with that window */

static void
fresh(int serial, int mem16, size_t blocksize)
{
    vh_arena_reset();
    rp_next_window = window;
    rp_setup(&H, serial, mem16, blocksize);
    since_reset = 0;
}

static size_t
mk_request(unsigned char *raw, int serial, int type, int w16, uint16_t seq, uint32_t addr, uint32_t bsize,
           const unsigned char *pl, size_t plen)
{
    struct rframe f;
    memset(&f, 0, sizeof f);
    f.type = (unsigned)type;
    f.options = (w16 ? ROPT_W16 : 0) | (serial ? ROPT_HDCRC : 0) | (serial && plen ? ROPT_PLCRC : 0);
    f.seq = seq;
    f.addr = addr;
    f.bsize = bsize;
    f.payload = pl;
    f.plen = plen;
    return rp_encode_raw(&f, raw);
}

/* ---- W1: every frame length around the block-size boundary ---- */
static void
u_lengths(uint64_t idx, void *arg)
{
    (void)arg;
    static const size_t bs[] = { 65, 66, 70, 75, 76, 77, 78, 79, 80, 81, 82, 96, 128, 200 };
    int serial = (int)(idx & 1);
    size_t B = bs[(idx >> 1) % 14];
    size_t cap = B - sizeof(RPFrame);
    size_t hdr = serial ? 16 : 12;
    /* units 28..: TCP with a source that hands out several octets at a time (getbuffer extension) */
    static const size_t wins[] = { 2, 5, 16, 17, 40 };
    window = idx >= 28 ? wins[(idx - 28) / 14 % 5] : 0;
    if (window) {
        serial = 0;
        hdr = 12;
        B = bs[(idx - 28) % 14];
        cap = B - sizeof(RPFrame);
        VH_COUNT("lengths: multi-octet chunks into the receive sink");
    }
    unsigned char raw[400], pl[300], wire[900];
    char key[80], ctx[160];
    /* TCP frames come without checksum words as the library's own emitters send them, and with both checksum options
     * set (the receiver decides by the frame's option bits on either transport) */
    for (int crc = serial; crc <= 1; crc++)
    for (size_t L = 0; L <= cap + 40; L++) {
        hdr = crc ? 16 : 12;
        if (crc && !serial)
            VH_COUNT("lengths: TCP frame with checksum options");
        fresh(serial, 0, B);
        /* a valid 8-bit write request of total length L when L allows a header, else a header cut short */
        for (size_t i = 0; i < sizeof pl; i++)
            pl[i] = (unsigned char)(i * 5 + L);
        size_t P = L > hdr ? L - hdr : 0;
        size_t n = mk_request(raw, crc, RT_WRITE_REQ, 0, (uint16_t)(L + 7), 0x1000u + (uint32_t)L, (uint32_t)P, pl, P);
        if (n > L)
            n = L; /* cut short */
        while (n < L)
            raw[n++] = 0x33; /* lengths no complete frame has: trailing junk */
        size_t wn = rp_wire(serial, raw, n, wire);
        rp_feed(&H, wire, wn);
        VH_CASE4(idx, B, L, n);
        snprintf(key, sizeof key, "workload=lengths transport=%s", serial ? "serial" : "tcp");
        snprintf(ctx, sizeof ctx, "block=%zu (capacity %zu) frame length %zu%s: %s", B, cap, n, crc && !serial ? " with checksum options" : "", vh_hex(raw, n > 20 ? 20 : n));
        struct obs o;
        exchange(&o, key, ctx);
        struct rframe f;
        int v = rp_decode_raw(raw, n, &f);
        if (n > cap) {
            VH_COUNT("frame larger than the receive block");
            if (H.ncalls != 0)
                vh_fail("oversized-frame-executed", key, "%s", ctx);
            if (o.errid != ENOMEM)
                vh_fail("oversized-frame-error-id", key, "%s: error.id=%d expected ENOMEM", ctx, o.errid);
            /* reply: receive-overflow response when the stored part holds a complete header, else a meta message is fine */
            int header_stored = cap >= hdr;
            int ok = o.nf == 1 && !o.rerr[0]
                     && ((o.r[0].type == (unsigned)f.type + 1 && o.r[0].meta == 4 && o.r[0].seq == f.seq
                          && o.r[0].addr == f.addr)
                         || (!header_stored && o.r[0].type == RT_META));
            if (!ok)
                vh_fail("no-receive-overflow-response", key, "%s: %d reply frames: %s", ctx, o.nf,
                        vh_hex(H.out, H.out_n > 40 ? 40 : H.out_n));
            if (o.nf == 1 && !o.rerr[0] && o.r[0].meta == 4 && o.r[0].plen == 4) {
                unsigned char be[4];
                rp_be32(be, (uint32_t)cap);
                if (memcmp(be, o.r[0].payload, 4) != 0)
                    vh_fail("receive-overflow-size", key, "%s: payload %s", ctx, vh_hex(o.r[0].payload, 4));
            }
        } else if (n < 12) {
            if (n == 0)
                VH_COUNT("empty frame");
            else
                VH_COUNT("frame shorter than a header");
            if (o.errid != EBADMSG)
                vh_fail("short-frame-error-id", key, "%s: error.id=%d expected EBADMSG", ctx, o.errid);
            if (H.ncalls != 0)
                vh_fail("short-frame-executed", key, "%s", ctx);
            if (!(o.nf == 1 && !o.rerr[0] && o.r[0].type == RT_META && o.r[0].meta == 1))
                vh_fail("short-frame-reply", key, "%s: %d reply frames: %s", ctx, o.nf,
                        vh_hex(H.out, H.out_n > 40 ? 40 : H.out_n));
        } else {
            if (o.errid != v)
                vh_fail("classification", key, "%s: error.id=%d reference %d", ctx, o.errid, v);
            if (v == 0 && f.type == RT_WRITE_REQ) {
                VH_COUNT("frame that just fits is executed");
                if (H.ncalls != 1 || H.call[0].n != f.bsize)
                    vh_fail("fitting-frame-not-executed", key, "%s: %d backend calls", ctx, H.ncalls);
            }
        }
    }
    window = 0;
    vh_sig(0x09000000ull ^ idx);
    if (idx == 0)
        vh_sample("lengths", "block sizes 65..200 (capacity = block - sizeof(RPFrame) = block - 64): every frame length "
                             "0..capacity+40 as (truncated) write request");
}

/* ---- W2: every read block size around the transmit limit, for every header form a read request can have ---- */
static void
u_reads(uint64_t idx, void *arg)
{
    (void)arg;
    static const size_t bs[] = { 81, 96, 100, 101, 128, 129, 257 };
    int serial = (int)(idx & 1), mem16 = (int)(idx >> 1) & 1;
    size_t B = bs[(idx >> 2) % 7];
    size_t ws = mem16 ? 2 : 1;
    size_t cap = B - sizeof(RPFrame);
    unsigned char raw[64], wire[140];
    char key[96], ctx[200];
    /* header forms: the checksum option bits in every combination (the receiver accepts a read request that
     * declares a payload checksum: there is no payload to verify) */
    for (unsigned form = 0; form < 4; form++) {
        unsigned hd = form & 1u, pl = (form >> 1) & 1u;
        size_t hreq = 12 + 2 * hd + 2 * pl;
        long fit_req = ((long)cap - (long)hreq) / (long)ws;          /* fits behind the request header */
        long fit_resp = ((long)cap - (serial ? 16 : 12)) / (long)ws; /* fits with the response's own header reserved */
        long lo = fit_req < fit_resp ? fit_req : fit_resp, hi = fit_req < fit_resp ? fit_resp : fit_req;
        for (long n = lo - 20; n <= hi + 24; n++) {
            if (n < 0)
                continue;
            fresh(serial, mem16, B);
            struct rframe f;
            memset(&f, 0, sizeof f);
            f.type = RT_READ_REQ;
            f.options = (mem16 ? ROPT_W16 : 0) | (hd ? ROPT_HDCRC : 0) | (pl ? ROPT_PLCRC : 0);
            f.seq = (uint16_t)n;
            f.addr = 0x2000u + (uint32_t)n;
            f.bsize = (uint32_t)n;
            size_t rn = rp_encode_raw(&f, raw);
            size_t wn = rp_wire(serial, raw, rn, wire);
            rp_feed(&H, wire, wn);
            VH_CASE4(idx, B, n, form);
            snprintf(key, sizeof key, "workload=reads transport=%s mem=%zu header=%s%s", serial ? "serial" : "tcp", ws * 8,
                     hd ? "hdcrc" : "plain", pl ? "+plcrc" : "");
            snprintf(ctx, sizeof ctx,
                     "block=%zu request header %zu octets, read of %ld words (fits behind the request header: %ld, with the "
                     "response header reserved: %ld)", B, hreq, n, fit_req, fit_resp);
            struct obs o;
            exchange(&o, key, ctx);
            if (o.errid != 0) {
                vh_fail("read-request-rejected", key, "%s: error.id=%d", ctx, o.errid);
                continue;
            }
            int acked = o.nf == 1 && !o.rerr[0] && o.r[0].type == RT_READ_RESP && o.r[0].meta == 0
                        && o.r[0].plen == (size_t)n * ws && H.ncalls == 1;
            int txo = o.nf == 1 && !o.rerr[0] && o.r[0].type == RT_READ_RESP && o.r[0].meta == 5 && H.ncalls == 0;
            if (txo) {
                unsigned char be[4];
                rp_be32(be, (uint32_t)cap);
                if (o.r[0].plen != 4 || memcmp(be, o.r[0].payload, 4) != 0 || o.r[0].seq != (uint16_t)n)
                    vh_fail("transmit-overflow-payload", key, "%s: payload %s", ctx,
                            vh_hex(o.r[0].payload, o.r[0].plen > 8 ? 8 : o.r[0].plen));
            }
            if (n > hi) {
                VH_COUNT("read that cannot fit");
                if (!txo)
                    vh_fail("no-transmit-overflow-response", key, "%s: %d backend calls, reply %s", ctx, H.ncalls,
                            vh_hex(H.out, H.out_n > 30 ? 30 : H.out_n));
            } else if (n <= lo) {
                VH_COUNT("read that fits");
                if (!acked)
                    vh_fail("fitting-read-not-served", key, "%s: %d backend calls, reply %s", ctx, H.ncalls,
                            vh_hex(H.out, H.out_n > 30 ? 30 : H.out_n));
            } else {
                /* between the two accountings: the statement does not say which header counts; never an overflow
                 * (the room monitor in exchange() decides that) */
                VH_COUNT("read in the zone where the header accounting decides (either answer accepted)");
                if (!acked && !txo)
                    vh_fail("read-neither-served-nor-refused", key, "%s: reply %s", ctx,
                            vh_hex(H.out, H.out_n > 30 ? 30 : H.out_n));
            }
        }
    }
    vh_sig(0x09100000ull ^ idx);
}

/* ---- W3: allocation failure at every allocation index of a session ---- */
static void
u_allocfail(uint64_t idx, void *arg)
{
    (void)arg;
    vh_rng rg;
    vh_unit_rng(&rg, "allocfail", idx);
    int serial = (int)(idx & 1), mem16 = (int)(idx >> 1) & 1;
    unsigned char raw[200], pl[64], wire[500];
    char key[80], ctx[200];
    size_t ws = mem16 ? 2 : 1;
    static const size_t wins[] = { 0, 3, 16, 17, 24, 64 };
    window = serial ? 0 : wins[(idx >> 2) % 6];
    if (window)
        VH_COUNT("allocation failure with multi-octet chunks into the fallback buffer");
    for (int failat = 0; failat < 6; failat++) {
        fresh(serial, mem16, 160);
        H.fail_alloc_at = failat;
        for (int k = 0; k < 6; k++) {
            int type = vh_chance(&rg, 1, 2) ? RT_READ_REQ : RT_WRITE_REQ;
            uint32_t n = (uint32_t)vh_below(&rg, 20);
            for (size_t i = 0; i < n * ws; i++)
                pl[i] = (unsigned char)vh_rand(&rg);
            int shortframe = vh_chance(&rg, 1, 8);
            size_t rn = mk_request(raw, serial, type, mem16, (uint16_t)(idx + (uint64_t)k), (uint32_t)vh_rand(&rg), n,
                                   type == RT_WRITE_REQ ? pl : NULL, type == RT_WRITE_REQ ? n * ws : 0);
            if (shortframe)
                rn = 1 + (size_t)vh_below(&rg, 11);
            size_t wn = rp_wire(serial, raw, rn, wire);
            rp_feed(&H, wire, wn);
            VH_CASE4(idx, failat, k, rn);
            snprintf(key, sizeof key, "workload=allocfail transport=%s", serial ? "serial" : "tcp");
            snprintf(ctx, sizeof ctx, "allocation %d fails; frame %d of the session: %s", failat, k, vh_hex(raw, rn > 24 ? 24 : rn));
            struct obs o;
            exchange(&o, key, ctx);
            struct rframe f;
            int v = rp_decode_raw(raw, rn, &f);
            /* the empty frame never allocates */
            if (k == failat && rn > 0) {
                VH_COUNT("allocation failure while receiving");
                if (H.ncalls != 0)
                    vh_fail("executed-without-frame-block", key, "%s", ctx);
                if (o.errid != EBUSY || !o.frame_null)
                    vh_fail("allocation-failure-error-id", key, "%s: error.id=%d frame %s", ctx, o.errid,
                            o.frame_null ? "NULL" : "non-NULL");
                if (v == 0) {
                    if (!(o.nf == 1 && !o.rerr[0] && o.r[0].type == f.type + 1 && o.r[0].meta == 6 && o.r[0].seq == f.seq
                          && o.r[0].addr == f.addr))
                        vh_fail("no-busy-response", key, "%s: %d reply frames: %s", ctx, o.nf,
                                vh_hex(H.out, H.out_n > 30 ? 30 : H.out_n));
                } else if (!(o.nf == 1 && !o.rerr[0] && (o.r[0].type == RT_META || o.r[0].meta == 6))) {
                    vh_fail("no-busy-response", key, "%s (short frame): %d reply frames: %s", ctx, o.nf,
                            vh_hex(H.out, H.out_n > 30 ? 30 : H.out_n));
                }
            } else if (v == 0) {
                VH_COUNT("request served before/after the failing allocation");
                if (H.ncalls != 1 || o.errid != 0)
                    vh_fail("request-not-served", key, "%s: error.id=%d, %d backend calls", ctx, o.errid, H.ncalls);
            }
        }
    }
    window = 0;
    vh_sig(0x09200000ull ^ idx);
}

/* ---- W4: channel error at every source position ---- */
static void
u_chanerr(uint64_t idx, void *arg)
{
    (void)arg;
    vh_rng rg;
    vh_unit_rng(&rg, "chanerr", idx);
    int serial = (int)(idx & 1), mem16 = (int)(idx >> 1) & 1;
    size_t ws = mem16 ? 2 : 1;
    unsigned char raw[200], pl[64], wire[500], two[1000];
    char key[80], ctx[200];
    for (int rep = 0; rep < 4; rep++) {
        int type = vh_chance(&rg, 1, 2) ? RT_READ_REQ : RT_WRITE_REQ;
        uint32_t n = (uint32_t)vh_below(&rg, 16);
        for (size_t i = 0; i < n * ws; i++)
            pl[i] = vh_chance(&rg, 1, 3) ? 0xc0 : (unsigned char)vh_rand(&rg);
        size_t rn = mk_request(raw, serial, type, mem16, (uint16_t)idx, 0xc0dbc0dbu, n, type == RT_WRITE_REQ ? pl : NULL,
                               type == RT_WRITE_REQ ? n * ws : 0);
        size_t wn = rp_wire(serial, raw, rn, wire);
        for (size_t pos = 0; pos < wn; pos++) {
            fresh(serial, mem16, 160);
            /* the damaged frame is followed by an intact one */
            memcpy(two, wire, wn);
            memcpy(two + wn, wire, wn);
            rp_feed(&H, two, 2 * wn);
            H.in_fail_at = pos;
            VH_CASE4(idx, rep, pos, wn);
            snprintf(key, sizeof key, "workload=channel-error transport=%s", serial ? "serial" : "tcp");
            snprintf(ctx, sizeof ctx, "source error at octet %zu of %zu: %s", pos, wn, vh_hex(wire, wn > 24 ? 24 : wn));
            struct obs o;
            exchange(&o, key, ctx);
            if (pos == 0)
                VH_COUNT("channel error before the first octet of a frame");
            else
                VH_COUNT("channel error after the first octets were stored");
            if (o.rc_recv != -EIO)
                vh_fail("channel-error-not-returned", key, "%s: regp_recv rc=%d", ctx, o.rc_recv);
            if (H.ncalls != 0 || H.out_n != 0)
                vh_fail("channel-error-has-effect", key, "%s: %d backend calls, %zu reply octets", ctx, H.ncalls, H.out_n);
        }
    }
    /* framing errors and a source that ends early */
    for (int k = 0; k < 40; k++) {
        fresh(serial, mem16, 160);
        size_t wn;
        if (serial) {
            /* an invalid escape after some octets */
            wn = 1 + (size_t)vh_below(&rg, 30);
            for (size_t i = 0; i < wn; i++)
                wire[i] = 0x11;
            wire[wn - 1] = 0xdb;
            wire[wn++] = 0x11;
            wire[wn++] = 0xc0;
        } else {
            /* the length prefix promises more than the source holds */
            size_t have = (size_t)vh_below(&rg, 30);
            wn = rp_varint(have + 1 + vh_below(&rg, 300), wire);
            for (size_t i = 0; i < have; i++)
                wire[wn++] = (unsigned char)vh_rand(&rg);
        }
        rp_feed(&H, wire, wn);
        VH_CASE4(idx, 100 + k, wn, 0);
        snprintf(key, sizeof key, "workload=framing-error transport=%s", serial ? "serial" : "tcp");
        snprintf(ctx, sizeof ctx, "wire %s", vh_hex(wire, wn > 30 ? 30 : wn));
        struct obs o;
        exchange(&o, key, ctx);
        VH_COUNT("framing error / source ends inside a frame");
        if (o.rc_recv >= 0)
            vh_fail("framing-error-not-returned", key, "%s: regp_recv rc=%d", ctx, o.rc_recv);
    }
    vh_sig(0x09300000ull ^ idx);
}

/* ---- W5: random and mutated streams ---- */
static void
u_stream(uint64_t idx, void *arg)
{
    (void)arg;
    vh_rng rg;
    vh_unit_rng(&rg, "stream", idx);
    static unsigned char wire[6000], raw[400], pl[300];
    char key[80], ctx[120];
    for (int rep = 0; rep < 6; rep++) {
        int serial = (int)vh_below(&rg, 2), mem16 = (int)vh_below(&rg, 2);
        size_t B = sizeof(RPFrame) + 1 + (size_t)vh_below(&rg, vh_chance(&rg, 1, 2) ? 30 : 300);
        fresh(serial, mem16, B);
        if (vh_chance(&rg, 1, 3))
            H.fail_alloc_at = (long)vh_below(&rg, 6);
        size_t wn = 0;
        int nframes = 1 + (int)vh_below(&rg, 8);
        for (int k = 0; k < nframes && wn < 4000; k++) {
            unsigned x = (unsigned)vh_below(&rg, 10);
            if (x < 3) {
                /* random wire octets */
                size_t n = (size_t)vh_below(&rg, 80);
                for (size_t i = 0; i < n; i++)
                    wire[wn++] = vh_chance(&rg, 1, 6) ? 0xc0 : (unsigned char)vh_rand(&rg);
            } else {
                size_t ws = vh_chance(&rg, 1, 2) ? 2 : 1;
                int type = (int)vh_below(&rg, 4);
                if (vh_chance(&rg, 1, 10))
                    type = RT_META;
                uint32_t n = (uint32_t)vh_below(&rg, vh_chance(&rg, 1, 4) ? 140 : 24);
                size_t plen = (type == RT_READ_REQ || type == RT_META) ? 0 : n * ws;
                for (size_t i = 0; i < plen; i++)
                    pl[i] = (unsigned char)vh_rand(&rg);
                struct rframe f;
                memset(&f, 0, sizeof f);
                f.type = (unsigned)type;
                f.options = (ws == 2 ? ROPT_W16 : 0) | (serial ? ROPT_HDCRC : 0) | (serial && plen ? ROPT_PLCRC : 0);
                if (vh_chance(&rg, 1, 6))
                    f.options = (unsigned)vh_below(&rg, 16);
                f.meta = type == RT_META ? 1 : (type & 1) ? (unsigned)vh_below(&rg, 12) : 0;
                f.seq = (uint16_t)vh_rand(&rg);
                f.addr = (uint32_t)vh_rand(&rg);
                f.bsize = vh_chance(&rg, 1, 8) ? (uint32_t)vh_rand(&rg) : n;
                f.payload = pl;
                f.plen = plen;
                size_t rn = rp_encode_raw(&f, raw);
                /* mutate: bit flips, truncation, extension */
                unsigned m = (unsigned)vh_below(&rg, 6);
                if (m == 0 && rn)
                    raw[vh_below(&rg, rn)] ^= (unsigned char)(1u << vh_below(&rg, 8));
                else if (m == 1)
                    rn = (size_t)vh_below(&rg, rn + 1);
                else if (m == 2)
                    raw[rn++] = (unsigned char)vh_rand(&rg);
                wn += rp_wire(serial, raw, rn, wire + wn);
            }
        }
        rp_feed(&H, wire, wn);
        H.in_bound = (unsigned)(4 * wn + 200);
        if (vh_chance(&rg, 1, 4))
            H.in_fail_at = (size_t)vh_below(&rg, wn + 1);
        H.verdict.status = vh_chance(&rg, 1, 2) ? RP_RESP_ACK : (RPResponse)vh_below(&rg, 12);
        snprintf(key, sizeof key, "workload=stream transport=%s", serial ? "serial" : "tcp");
        for (int round = 0; round < 200; round++) {
            VH_CASE4(idx, rep, round, H.in_pos);
            snprintf(ctx, sizeof ctx, "block=%zu stream of %zu octets, round %d at offset %zu", B, wn, round, H.in_pos);
            struct obs o;
            size_t before = H.in_pos;
            exchange(&o, key, ctx);
            VH_COUNT("stream: recv/process/free rounds");
            if (H.in_pos >= H.in_n && (o.rc_recv < 0 || H.in_pos == before))
                break;
            if (H.in_runaway)
                break;
        }
    }
    vh_sig(0x09400000ull ^ idx);
    if (idx == 0)
        vh_sample("stream", "streams of up to 8 random / valid / mutated frames on block sizes 65..365 with optional "
                            "allocation failure and channel error, drained by the documented recv/process/free loop");
}

/* ---- W6: one frame of about 2^31 / 2^32 octets, really delivered ----
 * The stream is generated (length prefix, a write request's header, zero octets, then an ordinary read request) and
 * handed over through a one-MiB window, so that two to four GiB pass in a second or two. The frame is too large
 * for any receive block: it is drained, answered with a receive-overflow response, and the request behind it is
 * served as usual. */
static struct giant {
    unsigned char head[40], tail[64];
    size_t nhead, ntail;
    uint64_t body, pos;
    unsigned long calls;
} G;
static unsigned char giant_win[1u << 20];

static ssize_t
giant_chunk(void *drv, void *out, size_t n)
{
    (void)drv;
    unsigned char *o = out;
    const uint64_t total = G.nhead + G.body + G.ntail;
    G.calls++;
    if (n == 0)
        return -EINVAL;
    if (G.pos >= total)
        return -ENODATA;
    size_t done = 0;
    while (done < n && G.pos < total) {
        if (G.pos < G.nhead) {
            o[done++] = G.head[G.pos++];
        } else if (G.pos < G.nhead + G.body) {
            uint64_t k = G.nhead + G.body - G.pos;
            if (k > n - done)
                k = n - done;
            memset(o + done, 0, (size_t)k);
            done += (size_t)k;
            G.pos += k;
        } else {
            o[done++] = G.tail[G.pos++ - G.nhead - G.body];
        }
    }
    return (ssize_t)done;
}

static ByteBuffer
giant_getbuffer(Source *s)
{
    (void)s;
    ByteBuffer b;
    byte_buffer_use(&b, giant_win, sizeof giant_win);
    return b;
}

static void
u_giant(uint64_t idx, void *arg)
{
    (void)arg;
    static const uint64_t lens[] = { 0x80000000ull, 0x7ffffff0ull, 0x80000401ull, 0xfffffff0ull };
    static const size_t bs[] = { 128, 80, 365, 96 };
    const uint64_t L = lens[idx % 4];
    const size_t B = bs[idx % 4], cap = B - sizeof(RPFrame);
    window = 0;
    fresh(0, (int)(idx & 1), B);
    memset(&G, 0, sizeof G);
    /* length prefix */
    for (uint64_t v = L;;) {
        unsigned char c = (unsigned char)(v & 0x7f);
        v >>= 7;
        G.head[G.nhead++] = v ? (unsigned char)(c | 0x80) : c;
        if (!v)
            break;
    }
    unsigned char raw[64], pl[4] = { 0, 0, 0, 0 };
    const uint16_t seq = (uint16_t)(0x4000 + idx);
    const uint32_t addr = 0x2000u + (uint32_t)idx;
    /* header of an 8-bit write request; what it says about its block size is beside the point */
    size_t hn = mk_request(raw, 0, RT_WRITE_REQ, 0, seq, addr, 4, pl, 4);
    memcpy(G.head + G.nhead, raw, 12);
    G.nhead += 12;
    (void)hn;
    G.body = L - 12;
    size_t rn = mk_request(raw, 0, RT_READ_REQ, (int)(idx & 1), (uint16_t)(seq + 1), addr + 16, 1, NULL, 0);
    G.ntail = rp_wire(0, raw, rn, G.tail);
    Source src;
    Sink snk;
    chunk_source_init(&src, giant_chunk, &G);
    src.ext.getbuffer = giant_getbuffer;
    chunk_sink_init(&snk, rp_sink_chunk, &H);
    H.out_octet = 0;
    H.out_maxper = 0;
    regp_use_channel(&H.p, RP_EP_TCP, src, snk);
    char key[80], ctx[160];
    snprintf(key, sizeof key, "workload=giant transport=tcp");
    snprintf(ctx, sizeof ctx, "block=%zu (capacity %zu) frame of %" PRIu64 " octets delivered through a 1 MiB window", B, cap, L);
    VH_CASE4(idx, B, 0, 0);
    struct obs o;
    exchange(&o, key, ctx);
    VH_COUNT("giant: frame of 2^31 octets or more delivered in full");
    if (o.rc_recv < 0)
        vh_fail("oversized-frame-channel-error", key, "%s: regp_recv rc=%d although the source delivered every octet (%lu calls, stream position %" PRIu64 ")",
                ctx, o.rc_recv, G.calls, G.pos);
    else {
        if (H.ncalls != 0)
            vh_fail("oversized-frame-executed", key, "%s", ctx);
        if (o.errid != ENOMEM)
            vh_fail("oversized-frame-error-id", key, "%s: error.id=%d expected ENOMEM", ctx, o.errid);
        int ok = o.nf == 1 && !o.rerr[0] && o.r[0].type == RT_WRITE_RESP && o.r[0].meta == 4 && o.r[0].seq == seq && o.r[0].addr == addr;
        if (!ok)
            vh_fail("no-receive-overflow-response", key, "%s: %d reply frames: %s", ctx, o.nf, vh_hex(H.out, H.out_n > 40 ? 40 : H.out_n));
        else if (o.r[0].plen == 4) {
            unsigned char be[4];
            rp_be32(be, (uint32_t)cap);
            if (memcmp(be, o.r[0].payload, 4) != 0)
                vh_fail("receive-overflow-size", key, "%s: payload %s", ctx, vh_hex(o.r[0].payload, 4));
        }
    }
    if (G.pos != G.nhead + G.body)
        vh_fail("oversized-frame-consumption", key, "%s: source position %" PRIu64 " after the round, the frame ends at %" PRIu64, ctx, G.pos, (uint64_t)G.nhead + G.body);
    else {
        /* the request behind it */
        exchange(&o, key, ctx);
        if (o.rc_recv < 0 || o.errid != 0 || H.ncalls != 1 || H.call[0].n != 1 || o.nf != 1 || o.rerr[0] || o.r[0].type != RT_READ_RESP || o.r[0].meta != 0
            || o.r[0].seq != (uint16_t)(seq + 1))
            vh_fail("request-behind-oversized-frame", key, "%s: read request behind it: rc=%d error.id=%d backend calls=%d reply frames=%d %s", ctx,
                    o.rc_recv, o.errid, H.ncalls, o.nf, vh_hex(H.out, H.out_n > 40 ? 40 : H.out_n));
    }
    vh_sig(0x09500000ull ^ idx);
}

void
harness_run(void)
{
    for (uint64_t i = 0; i < 4; i++)
        vh_unit("giant", i, u_giant, NULL);
    for (uint64_t i = 0; i < 28 + 70; i++)
        vh_unit("lengths", i, u_lengths, NULL);
    for (uint64_t i = 0; i < 28; i++)
        vh_unit("reads", i, u_reads, NULL);
    for (uint64_t i = 0; i < (vh_tier ? 8000u : 100u); i++)
        vh_unit("allocfail", i, u_allocfail, NULL);
    for (uint64_t i = 0; i < (vh_tier ? 3000u : 60u); i++)
        vh_unit("chanerr", i, u_chanerr, NULL);
    for (uint64_t i = 0; i < (vh_tier ? 200000u : 2500u); i++)
        vh_unit("stream", i, u_stream, NULL);
    vh_require("giant: frame of 2^31 octets or more delivered in full");
    vh_require("lengths: TCP frame with checksum options");
    static const char *req[] = { "frame larger than the receive block", "empty frame", "frame shorter than a header",
                                 "frame that just fits is executed", "read that cannot fit", "read that fits",
                                 "read in the zone where the header accounting decides (either answer accepted)",
                                 "allocation failure while receiving",
                                 "request served before/after the failing allocation",
                                 "channel error before the first octet of a frame",
                                 "channel error after the first octets were stored",
                                 "framing error / source ends inside a frame", "stream: recv/process/free rounds",
                                 "lengths: multi-octet chunks into the receive sink",
                                 "allocation failure with multi-octet chunks into the fallback buffer" };
    for (size_t i = 0; i < sizeof req / sizeof req[0]; i++)
        vh_require(req[i]);
}
