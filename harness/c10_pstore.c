/* C10 - persistent store/validate/fetch round-trips and stays inside its
 * region.
 *
 * The medium is an exact-size poisoned-arena block covering only the
 * instance's checksum+data region; its callbacks log every access. Oracles:
 * model image, independent checksum implementations, region containment of
 * the access log, "validate succeeds iff the medium is consistent". */
#include "ps_common.h"

const char *harness_name = "c10_pstore";

static void
img(unsigned char *p, size_t n, unsigned salt)
{
    for (size_t i = 0; i < n; i++)
        p[i] = (unsigned char)(((i + 1) * 37u) ^ (salt * 101u) ^ (i >> 3));
}

static const char *
cfgkey(int ck, int with_aux, size_t auxsize)
{
    static char k[96];
    snprintf(k, sizeof k, "checksum=%s aux=%s", ps_ckname[ck],
             !with_aux ? "none" : auxsize == 0 ? "zero-size" : "yes");
    return k;
}

static void
expect_valid_state(PersistentStorage *st, int ck, size_t size, const unsigned char *model, const char *key,
                   const char *ctx)
{
    /* validation verdict must equal what the independent checksum says about the medium */
    ps_log_reset();
    PersistentAccess v = persistent_validate(st);
    int consistent = ps_medium_consistent(ck, size);
    if ((v == PERSISTENT_ACCESS_SUCCESS) != consistent || (v != PERSISTENT_ACCESS_SUCCESS && v != PERSISTENT_ACCESS_INVALID_DATA))
        vh_fail("validate-verdict", key, "%s: validate=%d but medium is %s (stored %x, reference %x)", ctx, v,
                consistent ? "consistent" : "inconsistent", ps_stored_sum(ck),
                ps_ref(ck, ps_medium + ps_cksize(ck), size));
    if (model) {
        if (!consistent)
            vh_fail("checksum-on-medium", key, "%s: stored %x, reference over the data image %x", ctx,
                    ps_stored_sum(ck), ps_ref(ck, ps_medium + ps_cksize(ck), size));
        if (memcmp(ps_medium + ps_cksize(ck), model, size) != 0)
            vh_fail("data-on-medium", key, "%s: medium %s model %s", ctx, vh_hex(ps_medium + ps_cksize(ck), size),
                    vh_hex(model, size));
        unsigned char *dst = vh_arena(size);
        PersistentAccess f = persistent_fetch(dst, st);
        if (f != PERSISTENT_ACCESS_SUCCESS || memcmp(dst, model, size) != 0)
            vh_fail("fetch", key, "%s: rc=%d fetched %s model %s", ctx, f, vh_hex(dst, size), vh_hex(model, size));
    }
    if (ps_outside)
        vh_fail("access-outside-region", key, "%s", ctx);
    if (ps_runaway)
        vh_fail("no-progress", key, "%s: more than %u medium accesses", ctx, ps_call_bound);
    ps_outside = 0;
}

static uint64_t ncase;

static void
one_config(size_t size, uint32_t place, int ck, int with_aux, size_t auxsize, vh_rng *r, int full_pairs)
{
    vh_arena_reset();
    const size_t cks = ps_cksize(ck);
    ps_medium_setup(place, cks + size);
    memset(ps_medium, 0x3C, cks + size);
    unsigned char *aux = with_aux ? vh_arena(auxsize) : NULL;
    PersistentStorage st;
    ps_configure(&st, size, place, ck, aux, auxsize, with_aux);
    const char *key = cfgkey(ck, with_aux, auxsize);
    char ctx[200];
    unsigned char model[160];
    VH_CASE4(size, place, ck, with_aux ? auxsize + 1 : 0);
    if (st.data.address != place + cks || st.checksum.address != place || st.data.size != size)
        vh_fail("layout", key, "size=%zu place=%u: checksum at %u data at %u", size, place, st.checksum.address,
                st.data.address);

    /* reset: every octet of the region = fill */
    for (unsigned fill = 0; fill < 2; fill++) {
        unsigned char fv = fill ? 0xFF : 0x00;
        ps_log_reset();
        PersistentAccess rc = persistent_reset(&st, fv);
        snprintf(ctx, sizeof ctx, "size=%zu place=%u auxsize=%zu reset(%02x)", size, place, auxsize, fv);
        if (ps_runaway) {
            vh_fail("no-progress", key, "%s: more than %u medium accesses", ctx, ps_call_bound);
            return;
        }
        if (rc != PERSISTENT_ACCESS_SUCCESS)
            vh_fail("reset-rc", key, "%s: rc=%d", ctx, rc);
        for (size_t i = 0; i < cks + size; i++)
            if (ps_medium[i] != fv) {
                vh_fail("reset-fill", key, "%s: region %s", ctx, vh_hex(ps_medium, cks + size));
                break;
            }
        expect_valid_state(&st, ck, size, NULL, key, ctx);
        VH_COUNT("reset checked");
        ncase++;
    }

    /* partial stores onto a medium whose checksum does not match its data (it was just filled with ff): every
     * successful store, also one of no octets at all, leaves a medium that validates */
    {
        memset(model, 0xFF, size);
        const size_t wins[][2] = { { 0, 0 }, { size, 0 }, { size / 2, 0 }, { 0, 1 }, { size - 1, 1 } };
        for (size_t w = 0; w < sizeof wins / sizeof wins[0]; w++) {
            /* back to the unsealed state (checksum field ff as well) unless the reference happens to agree */
            memset(ps_medium, 0xFF, cks + size);
            memset(model, 0xFF, size);
            unsigned char one = (unsigned char)(0x40 + w);
            unsigned char *psrc = vh_arena_copy(&one, 1);
            ps_log_reset();
            PersistentAccess prc = persistent_store_part(&st, psrc, wins[w][0], wins[w][1]);
            snprintf(ctx, sizeof ctx, "size=%zu place=%u auxsize=%zu store_part(off=%zu,n=%zu) on a medium that was only reset", size,
                     place, auxsize, wins[w][0], wins[w][1]);
            if (prc != PERSISTENT_ACCESS_SUCCESS)
                vh_fail("store-part-rc", key, "%s: rc=%d", ctx, prc);
            if (wins[w][1])
                model[wins[w][0]] = one;
            expect_valid_state(&st, ck, size, model, key, ctx);
            VH_COUNT("partial store onto an unsealed medium");
            ncase++;
        }
    }
    /* full store */
    img(model, size, (unsigned)(size + place));
    unsigned char *src = vh_arena_copy(model, size);
    ps_log_reset();
    PersistentAccess rc = persistent_store(&st, src);
    snprintf(ctx, sizeof ctx, "size=%zu place=%u auxsize=%zu full store", size, place, auxsize);
    if (rc != PERSISTENT_ACCESS_SUCCESS)
        vh_fail("store-rc", key, "%s: rc=%d", ctx, rc);
    expect_valid_state(&st, ck, size, model, key, ctx);
    VH_COUNT("full store checked");
    ncase++;

    /* partial stores over evolving content */
    unsigned salt = 1;
    for (size_t off = 0; off <= size; off++)
        for (size_t n = 0; off + n <= size; n++) {
            if (!full_pairs && !(n <= 2 || off + n == size || off == 0 || vh_chance(r, 1, 12)))
                continue;
            unsigned char part[160];
            img(part, n, salt++);
            unsigned char *psrc = vh_arena_copy(part, n);
            /* now and then the record is assembled in the very buffer that also serves as the instance's auxiliary
             * buffer (one scratch buffer for both purposes) */
            if (with_aux && n > 0 && n <= auxsize && (salt % 5) == 0) {
                memcpy(aux, part, n);
                psrc = aux;
                VH_COUNT("partial store whose source lies in the auxiliary buffer");
            }
            ps_log_reset();
            rc = persistent_store_part(&st, psrc, off, n);
            snprintf(ctx, sizeof ctx, "size=%zu place=%u auxsize=%zu store_part(off=%zu,n=%zu)", size, place, auxsize,
                     off, n);
            if (ps_runaway) {
                vh_fail("no-progress", key, "%s: more than %u medium accesses", ctx, ps_call_bound);
                return;
            }
            if (rc != PERSISTENT_ACCESS_SUCCESS)
                vh_fail("store-part-rc", key, "%s: rc=%d", ctx, rc);
            memcpy(model + off, part, n);
            expect_valid_state(&st, ck, size, model, key, ctx);
            /* fetch_part of the same window */
            unsigned char *dst = vh_arena(n);
            ps_log_reset();
            PersistentAccess f = persistent_fetch_part(dst, &st, off, n);
            if (f != PERSISTENT_ACCESS_SUCCESS || memcmp(dst, model + off, n) != 0)
                vh_fail("fetch-part", key, "%s: rc=%d got %s", ctx, f, vh_hex(dst, n));
            if (ps_outside)
                vh_fail("access-outside-region", key, "%s (fetch_part)", ctx);
            ps_outside = 0;
            VH_COUNT("partial store + fetch checked");
            ncase++;
            if ((ncase & 31) == 0) {
                /* keep the arena small: re-carve the medium */
                unsigned char save[200];
                memcpy(save, ps_medium, cks + size);
                vh_arena_reset();
                ps_medium = vh_arena(cks + size);
                memcpy(ps_medium, save, cks + size);
                aux = with_aux ? vh_arena(auxsize) : NULL;
                if (with_aux)
                    persistent_buffer(&st, aux, auxsize);
            }
        }

    /* part accesses reaching beyond the data size, incl. pairs whose sum wraps */
    {
        const size_t offs[] = { 0, 1, size, size + 1, size - 1, SIZE_MAX, SIZE_MAX - 1, SIZE_MAX - size,
                                SIZE_MAX / 2 + 1, (size_t)1 << 32, ((size_t)1 << 32) - 1 };
        const size_t lens[] = { 0, 1, 2, size, size + 1, SIZE_MAX, SIZE_MAX - 1, SIZE_MAX - size + 1,
                                SIZE_MAX / 2 + 1, (size_t)1 << 32 };
        unsigned char before[200];
        memcpy(before, ps_medium, cks + size);
        unsigned char *buf = vh_arena(size + 2);
        for (size_t a = 0; a < sizeof offs / sizeof offs[0]; a++)
            for (size_t b = 0; b < sizeof lens / sizeof lens[0]; b++) {
                size_t off = offs[a], n = lens[b];
                int inrange = off <= size && n <= size - off;
                if (inrange)
                    continue;
                for (int wr = 0; wr < 2; wr++) {
                    ps_log_reset();
                    rc = wr ? persistent_store_part(&st, buf, off, n) : persistent_fetch_part(buf, &st, off, n);
                    snprintf(ctx, sizeof ctx, "size=%zu place=%u %s_part(off=%zx,n=%zx)", size, place,
                             wr ? "store" : "fetch", off, n);
                    if (off + n < off)
                        VH_COUNT("out-of-range part access whose offset+length wraps");
                    else
                        VH_COUNT("out-of-range part access");
                    if (rc != PERSISTENT_ACCESS_ADDRESS_OUT_OF_RANGE)
                        vh_fail("out-of-range-rc", key, "%s: rc=%d", ctx, rc);
                    if (ps_nlog != 0)
                        vh_fail("out-of-range-touches-medium", key, "%s: %zu medium accesses, first %s addr=%u len=%zu",
                                ctx, ps_nlog, ps_log[0].write ? "write" : "read", ps_log[0].addr, ps_log[0].len);
                    if (memcmp(before, ps_medium, cks + size) != 0) {
                        vh_fail("out-of-range-modifies", key, "%s", ctx);
                        memcpy(ps_medium, before, cks + size);
                    }
                    ps_outside = 0;
                    ncase++;
                }
            }
    }

    /* single-octet alterations of checksum and data */
    for (size_t pos = 0; pos < cks + size; pos++)
        for (int m = 0; m < 3; m++) {
            unsigned char old = ps_medium[pos];
            ps_medium[pos] = m == 0 ? old ^ 0x01 : m == 1 ? old ^ 0x80 : (unsigned char)(old + 1);
            snprintf(ctx, sizeof ctx, "size=%zu place=%u auxsize=%zu octet %zu altered %02x->%02x", size, place,
                     auxsize, pos, old, ps_medium[pos]);
            if (ps_medium_consistent(ck, size))
                VH_COUNT("alteration the checksum cannot distinguish");
            else
                VH_COUNT("alteration detected by the checksum");
            expect_valid_state(&st, ck, size, NULL, key, ctx);
            ps_medium[pos] = old;
            ncase++;
        }
    vh_sig(((uint64_t)size << 32) ^ ((uint64_t)place << 16) ^ ((uint64_t)ck << 12) ^ (with_aux ? auxsize + 1 : 0));
}

static void
u_cfg(uint64_t idx, void *arg)
{
    (void)arg;
    /* idx = size; all placements, checksums and aux sizes */
    size_t size = (size_t)idx;
    vh_rng r;
    vh_unit_rng(&r, "cfg", idx);
    ncase = 0;
    for (int pl = 0; pl < PS_NPLACES; pl++)
        for (int ck = 0; ck < NCK; ck++) {
            const uint32_t place = ps_place_of(pl, ck, size);
            if (pl == 4)
                VH_COUNT("placement with the last octet at the top of the address space");
            /* aux: none, then sizes 0 (degenerate), 1..size+1 */
            one_config(size, place, ck, 0, 0, &r, vh_tier || size <= 9);
            /* up to size + 5: a buffer that takes the data and the checksum at once */
            for (size_t a = 0; a <= size + 5; a++) {
                if (!vh_tier && size > 9 && !(a <= 3 || a + 2 >= size || vh_chance(&r, 1, 6)))
                    continue;
                if (a == 0)
                    VH_COUNT("auxiliary buffer non-NULL with size 0");
                one_config(size, place, ck, 1, a, &r, (vh_tier && size <= 24) || size <= 6);
            }
        }
    *vh_ncases += ncase;
    vh_countf("data size %zu", size);
    if (size == 5)
        vh_sample("config", "data size 5 x placements {0,1,7,4093} x {default sum16, CRC-16/ARC, sum32} x aux buffer "
                            "{none, sizes 0..6}: reset, full store, every (offset,length) partial store, out-of-range "
                            "and wrapping part accesses, every single-octet alteration");
}

/* data sizes beyond 255 and 65535 octets: counters, chunk arithmetic and addresses in the checksum loop */
static unsigned char big_model[70100], big_tmp[70100];

static void
big_check(PersistentStorage *st, int ck, size_t size, const char *key, const char *ctx, int with_model)
{
    const size_t cks = ps_cksize(ck);
    ps_log_reset();
    PersistentAccess v = persistent_validate(st);
    int consistent = ps_medium_consistent(ck, size);
    if ((v == PERSISTENT_ACCESS_SUCCESS) != consistent || (v != PERSISTENT_ACCESS_SUCCESS && v != PERSISTENT_ACCESS_INVALID_DATA))
        vh_fail("validate-verdict", key, "%s: validate=%d but medium is %s (stored %x, reference %x)", ctx, v,
                consistent ? "consistent" : "inconsistent", ps_stored_sum(ck), ps_ref(ck, ps_medium + cks, size));
    if (with_model) {
        if (!consistent)
            vh_fail("checksum-on-medium", key, "%s: stored %x, reference over the data image %x", ctx, ps_stored_sum(ck),
                    ps_ref(ck, ps_medium + cks, size));
        if (memcmp(ps_medium + cks, big_model, size) != 0) {
            size_t d = 0;
            while (ps_medium[cks + d] == big_model[d])
                d++;
            vh_fail("data-on-medium", key, "%s: first difference at data octet %zu", ctx, d);
        }
        unsigned char *dst = vh_arena(size);
        PersistentAccess f = persistent_fetch(dst, st);
        if (f != PERSISTENT_ACCESS_SUCCESS || memcmp(dst, big_model, size) != 0)
            vh_fail("fetch", key, "%s: rc=%d", ctx, f);
    }
    if (ps_outside)
        vh_fail("access-outside-region", key, "%s", ctx);
    ps_outside = 0;
    ncase++;
}

static void
u_big(uint64_t idx, void *arg)
{
    (void)arg;
    static const size_t sizes[] = { 255, 256, 257, 1000, 4096, 65534, 65535, 65536, 65537, 70000 };
    const size_t size = sizes[idx % 10];
    const int ck = (int)((idx / 10) % NCK);
    const int top = (int)((idx / 30) & 1);
    const size_t cks = ps_cksize(ck);
    const uint32_t place = top ? (uint32_t)(0u - (uint32_t)(cks + size)) : 4093u;
    const size_t auxes[] = { SIZE_MAX, 1, 7, 255, 256, 4096, 65535, 65536, size - 1, size, size + 1 };
    ncase = 0;
    for (size_t ai = 0; ai < sizeof auxes / sizeof auxes[0]; ai++) {
        const int with_aux = auxes[ai] != SIZE_MAX;
        const size_t auxsize = with_aux ? auxes[ai] : 0;
        if (auxsize == 1 && size > 5000 && !vh_tier)
            continue;
        vh_arena_reset();
        ps_medium_setup(place, cks + size);
        ps_call_bound = (unsigned)(8 * (cks + size) + 64);
        memset(ps_medium, 0x3C, cks + size);
        unsigned char *aux = with_aux ? vh_arena(auxsize) : NULL;
        PersistentStorage st;
        ps_configure(&st, size, place, ck, aux, auxsize, with_aux);
        char key[96], ctx[200];
        snprintf(key, sizeof key, "checksum=%s aux=%s size=large", ps_ckname[ck], with_aux ? "yes" : "none");
        VH_CASE4(size, place, ck, with_aux ? auxsize + 1 : 0);
        snprintf(ctx, sizeof ctx, "size=%zu place=%u auxsize=%zu reset(ff)", size, place, auxsize);
        ps_log_reset();
        PersistentAccess rc = persistent_reset(&st, 0xFF);
        if (rc != PERSISTENT_ACCESS_SUCCESS)
            vh_fail("reset-rc", key, "%s: rc=%d", ctx, rc);
        for (size_t i = 0; i < cks + size; i++)
            if (ps_medium[i] != 0xFF) {
                vh_fail("reset-fill", key, "%s: octet %zu of the region is %02x", ctx, i, ps_medium[i]);
                break;
            }
        big_check(&st, ck, size, key, ctx, 0);
        for (size_t i = 0; i < size; i++)
            big_model[i] = (unsigned char)((i * 37u) ^ (i >> 8) ^ (i >> 16) ^ idx);
        unsigned char *src = vh_arena_copy(big_model, size);
        snprintf(ctx, sizeof ctx, "size=%zu place=%u auxsize=%zu full store", size, place, auxsize);
        ps_log_reset();
        rc = persistent_store(&st, src);
        if (rc != PERSISTENT_ACCESS_SUCCESS)
            vh_fail("store-rc", key, "%s: rc=%d", ctx, rc);
        big_check(&st, ck, size, key, ctx, 1);
        const size_t win[][2] = { { 0, 1 }, { size - 1, 1 }, { size / 2, size - size / 2 }, { 254, 3 }, { 0, size },
                                  { size > 65540 ? 65534 : 100, size > 65540 ? 5 : 2 }, { size, 0 }, { 1, size - 1 } };
        for (size_t w = 0; w < sizeof win / sizeof win[0]; w++) {
            size_t off = win[w][0], n = win[w][1];
            if (off > size || n > size - off)
                continue;
            for (size_t i = 0; i < n; i++)
                big_tmp[i] = (unsigned char)(i * 11u + w * 29u + 5u);
            unsigned char *psrc = vh_arena_copy(big_tmp, n);
            snprintf(ctx, sizeof ctx, "size=%zu place=%u auxsize=%zu store_part(off=%zu,n=%zu)", size, place, auxsize, off, n);
            ps_log_reset();
            rc = persistent_store_part(&st, psrc, off, n);
            if (rc != PERSISTENT_ACCESS_SUCCESS)
                vh_fail("store-part-rc", key, "%s: rc=%d", ctx, rc);
            memcpy(big_model + off, big_tmp, n);
            big_check(&st, ck, size, key, ctx, 1);
            unsigned char *dst = vh_arena(n);
            ps_log_reset();
            PersistentAccess f = persistent_fetch_part(dst, &st, off, n);
            if (f != PERSISTENT_ACCESS_SUCCESS || memcmp(dst, big_model + off, n) != 0)
                vh_fail("fetch-part", key, "%s: rc=%d", ctx, f);
            if (ps_outside)
                vh_fail("access-outside-region", key, "%s (fetch_part)", ctx);
            ps_outside = 0;
            /* keep the arena small */
            vh_arena_reset();
            unsigned char *nm = vh_arena(cks + size);
            /* the medium block was released with the arena: its content is in big_model plus the checksum */
            memcpy(nm + cks, big_model, size);
            uint32_t sum = ps_ref(ck, big_model, size);
            for (size_t i = 0; i < cks; i++)
                nm[i] = (unsigned char)(sum >> (8 * i));
            ps_medium = nm;
            aux = with_aux ? vh_arena(auxsize) : NULL;
            persistent_buffer(&st, aux, with_aux ? auxsize : 0);
        }
        /* out of range */
        {
            const size_t pairs[][2] = { { size, 1 }, { 0, size + 1 }, { size + 1, 0 }, { SIZE_MAX, 2 }, { 2, SIZE_MAX },
                                        { (size_t)1 << 32, 1 }, { 1, (size_t)1 << 32 }, { 65536, SIZE_MAX - 65535 } };
            unsigned char *buf = vh_arena(16);
            for (size_t w = 0; w < sizeof pairs / sizeof pairs[0]; w++)
                for (int wr = 0; wr < 2; wr++) {
                    ps_log_reset();
                    rc = wr ? persistent_store_part(&st, buf, pairs[w][0], pairs[w][1])
                            : persistent_fetch_part(buf, &st, pairs[w][0], pairs[w][1]);
                    snprintf(ctx, sizeof ctx, "size=%zu place=%u %s_part(off=%zx,n=%zx)", size, place, wr ? "store" : "fetch",
                             pairs[w][0], pairs[w][1]);
                    if (rc != PERSISTENT_ACCESS_ADDRESS_OUT_OF_RANGE)
                        vh_fail("out-of-range-rc", key, "%s: rc=%d", ctx, rc);
                    if (ps_nlog != 0)
                        vh_fail("out-of-range-touches-medium", key, "%s: %zu medium accesses", ctx, ps_nlog);
                    ps_outside = 0;
                    ncase++;
                }
        }
        /* alterations at positions around the 8- and 16-bit boundaries */
        const size_t pos[] = { 0, cks - 1, cks, cks + 254, cks + 255, cks + 256, cks + 65534, cks + 65535, cks + 65536,
                               cks + size - 1, cks + size / 2 };
        for (size_t pi = 0; pi < sizeof pos / sizeof pos[0]; pi++) {
            if (pos[pi] >= cks + size)
                continue;
            unsigned char old = ps_medium[pos[pi]];
            ps_medium[pos[pi]] = (unsigned char)(old ^ (1u << (pi % 8)));
            snprintf(ctx, sizeof ctx, "size=%zu place=%u auxsize=%zu octet %zu altered", size, place, auxsize, pos[pi]);
            if (ps_medium_consistent(ck, size))
                VH_COUNT("alteration the checksum cannot distinguish");
            else
                VH_COUNT("alteration detected by the checksum");
            big_check(&st, ck, size, key, ctx, 0);
            ps_medium[pos[pi]] = old;
        }
        vh_sig(0x10b00000ull ^ ((uint64_t)size << 32) ^ ((uint64_t)ck << 12) ^ (uint64_t)ai ^ ((uint64_t)top << 20));
    }
    *vh_ncases += ncase;
    vh_countf("large data size %zu", size);
}

/* images whose checksum is a remarkable value: 0 and all-ones, for each algorithm */
static int
remarkable_image(int ck, unsigned char *img, size_t size, uint32_t target, unsigned salt)
{
    for (size_t i = 0; i < size; i++)
        img[i] = (unsigned char)((i * 41u) ^ (salt * 17u) ^ 0x5au);
    if (ck == CK_SUM32) {
        /* the algorithm can be run backwards: choose the initial value */
        uint32_t v = target;
        for (size_t i = size; i-- > 0;) {
            v -= img[i] + 0x9e3779b9u;
            v = (v >> 5) | (v << 27);
        }
        ps_sum32_init = v;
        return ps_ref(ck, img, size) == target;
    }
    if (ck == CK_DEFAULT) {
        /* a plain sum: 0 means all octets zero, all-ones means the octets add up to 65535 */
        size_t need = (target & 0xffffu) ? 65535u : 0u;
        if (need > 255u * size)
            return 0;
        for (size_t i = 0; i < size; i++) {
            size_t take = need > 255 ? 255 : need;
            img[i] = (unsigned char)take;
            need -= take;
        }
        return ps_ref(ck, img, size) == (target & 0xffffu);
    }
    if (size < 2)
        return 0;
    for (unsigned v = 0; v < 65536; v++) {
        img[size - 2] = (unsigned char)v;
        img[size - 1] = (unsigned char)(v >> 8);
        if (ps_ref(ck, img, size) == (target & 0xffffu))
            return 1;
    }
    return 0;
}

static void
u_remarkable(uint64_t idx, void *arg)
{
    (void)arg;
    static const size_t sizes[] = { 2, 3, 8, 33, 64, 257, 300 };
    const size_t size = sizes[idx % 7];
    const int ck = (int)((idx / 7) % NCK);
    const int with_aux = (int)((idx / 21) & 1);
    const size_t auxsize = with_aux ? 1 + (idx / 42) % 7 : 0;
    const size_t cks = ps_cksize(ck);
    const uint32_t place = 7;
    ncase = 0;
    for (int tg = 0; tg < 2; tg++) {
        const uint32_t target = tg ? 0xffffffffu : 0u;
        unsigned char image[320], second[320];
        ps_sum32_init = 0x12345678u;
        if (!remarkable_image(ck, image, size, target, (unsigned)idx)) {
            VH_COUNT("no image with the wanted checksum found (skipped)");
            continue;
        }
        vh_arena_reset();
        ps_medium_setup(place, cks + size);
        memset(ps_medium, 0x3C, cks + size);
        unsigned char *aux = with_aux ? vh_arena(auxsize) : NULL;
        PersistentStorage st;
        ps_configure(&st, size, place, ck, aux, auxsize, with_aux);
        char key[96], ctx[200];
        snprintf(key, sizeof key, "checksum=%s aux=%s image=checksum-%s", ps_ckname[ck], with_aux ? "yes" : "none",
                 tg ? "all-ones" : "zero");
        VH_CASE4(idx, size, ck, tg);
        snprintf(ctx, sizeof ctx, "size=%zu auxsize=%zu full store of an image whose checksum is %s", size, auxsize,
                 tg ? "all-ones" : "zero");
        unsigned char *src = vh_arena_copy(image, size);
        ps_log_reset();
        PersistentAccess rc = persistent_store(&st, src);
        if (rc != PERSISTENT_ACCESS_SUCCESS)
            vh_fail("store-rc", key, "%s: rc=%d", ctx, rc);
        expect_valid_state(&st, ck, size, image, key, ctx);
        vh_countf("image whose checksum is %s stored and validated", tg ? "all-ones" : "zero");
        /* reach the same image through a partial store from a different one */
        memcpy(second, image, size);
        second[0] ^= 0x55;
        src = vh_arena_copy(second, size);
        persistent_store(&st, src);
        unsigned char *one = vh_arena_copy(image, 1);
        ps_log_reset();
        rc = persistent_store_part(&st, one, 0, 1);
        snprintf(ctx, sizeof ctx, "size=%zu auxsize=%zu partial store completing an image whose checksum is %s", size,
                 auxsize, tg ? "all-ones" : "zero");
        if (rc != PERSISTENT_ACCESS_SUCCESS)
            vh_fail("store-part-rc", key, "%s: rc=%d", ctx, rc);
        expect_valid_state(&st, ck, size, image, key, ctx);
        /* a different image with the same checksum stored over it: equal checksums do not make equal images */
        if (size >= 3) {
            memcpy(second, image, size);
            int found = 0;
            if (ck == CK_DEFAULT) {
                /* move one unit from one octet to another */
                for (size_t a = 0; a < size && !found; a++)
                    for (size_t b = 0; b < size && !found; b++)
                        if (a != b && second[a] < 255 && second[b] > 0) {
                            second[a]++;
                            second[b]--;
                            found = 1;
                        }
            } else {
                second[size - 3] ^= 0x01;
            }
            for (unsigned v = 0; v < 65536 && !found; v++) {
                second[size - 2] = (unsigned char)v;
                second[size - 1] = (unsigned char)(v >> 8);
                found = ps_ref(ck, second, size) == ps_ref(ck, image, size);
            }
            if (found) {
                snprintf(ctx, sizeof ctx, "size=%zu auxsize=%zu full store of a different image with the same checksum", size,
                         auxsize);
                src = vh_arena_copy(second, size);
                ps_log_reset();
                rc = persistent_store(&st, src);
                if (rc != PERSISTENT_ACCESS_SUCCESS)
                    vh_fail("store-rc", key, "%s: rc=%d", ctx, rc);
                expect_valid_state(&st, ck, size, second, key, ctx);
                vh_countf("image stored over a different image with the same checksum (%s)", ps_ckname[ck]);
                /* and back through a partial store covering everything that differs */
                unsigned char *tail = vh_arena_copy(image, size);
                ps_log_reset();
                rc = persistent_store_part(&st, tail, 0, size);
                snprintf(ctx, sizeof ctx, "size=%zu auxsize=%zu partial store leading to a different image with the same checksum",
                         size, auxsize);
                if (rc != PERSISTENT_ACCESS_SUCCESS)
                    vh_fail("store-part-rc", key, "%s: rc=%d", ctx, rc);
                expect_valid_state(&st, ck, size, image, key, ctx);
            }
        }
        /* every single-octet alteration of it */
        for (size_t pos = 0; pos < cks + size; pos++) {
            unsigned char old = ps_medium[pos];
            ps_medium[pos] = (unsigned char)(old ^ (1u << (pos & 7)));
            snprintf(ctx, sizeof ctx, "size=%zu auxsize=%zu image with checksum %s, octet %zu altered", size, auxsize,
                     tg ? "all-ones" : "zero", pos);
            expect_valid_state(&st, ck, size, NULL, key, ctx);
            ps_medium[pos] = old;
            ncase++;
        }
        /* and the blank media: everything 00, everything ff */
        for (int fill = 0; fill < 2; fill++) {
            memset(ps_medium, fill ? 0xff : 0x00, cks + size);
            snprintf(ctx, sizeof ctx, "size=%zu auxsize=%zu medium all %s", size, auxsize, fill ? "ff" : "00");
            expect_valid_state(&st, ck, size, NULL, key, ctx);
            ncase++;
        }
        vh_sig(0x10c00000ull ^ (idx << 4) ^ (uint64_t)tg);
    }
    ps_sum32_init = 0x12345678u;
    *vh_ncases += ncase;
}

/* set-up histories: the same instance is placed and given checksum algorithms several times, in any order,
 * before it is used; what counts is the last placement and the last algorithm */
static void
u_reconf(uint64_t idx, void *arg)
{
    (void)arg;
    static const size_t sizes[] = { 1, 2, 3, 5, 8, 9, 16, 33 };
    vh_rng r;
    vh_unit_rng(&r, "reconf", idx);
    ncase = 0;
    for (int rep = 0; rep < 6; rep++) {
        size_t size = sizes[vh_below(&r, sizeof sizes / sizeof sizes[0])];
        int ck = (int)vh_below(&r, NCK);
        uint32_t place = ps_place_of((int)vh_below(&r, PS_NPLACES), ck, size);
        int n = 0, prev_ck = CK_DEFAULT, width_changed_after_place = 0;
        int pre = (int)vh_below(&r, 5);
        for (int i = 0; i < pre; i++) {
            unsigned k = (unsigned)vh_below(&r, 5);
            if (k < 2) {
                ps_hist[n].op = PH_PLACE;
                ps_hist[n++].arg = ps_place_of((int)vh_below(&r, PS_NPLACES), (int)vh_below(&r, NCK), size);
            } else if (k < 4) {
                ps_hist[n].op = PH_SUM;
                prev_ck = (int)vh_below(&r, NCK);
                ps_hist[n++].arg = (uint32_t)prev_ck;
            } else {
                ps_hist[n].op = PH_BUFFER;
                ps_hist[n++].arg = (uint32_t)vh_below(&r, sizeof ps_hist_buf + 1);
            }
        }
        int place_first = (int)vh_below(&r, 2);
        for (int k = 0; k < 2; k++) {
            if ((k == 0) == place_first) {
                ps_hist[n].op = PH_PLACE;
                ps_hist[n++].arg = place;
            } else {
                ps_hist[n].op = PH_SUM;
                ps_hist[n++].arg = (uint32_t)ck;
            }
        }
        if (place_first && ps_cksize(prev_ck) != ps_cksize(ck))
            width_changed_after_place = 1;
        ps_hist_n = n;
        int with_aux = (int)vh_below(&r, 2);
        size_t auxsize = with_aux ? (size_t)vh_below(&r, size + 2) : 0;
        VH_COUNT("set-up history checked");
        if (width_changed_after_place)
            VH_COUNT("set-up history changing the checksum width after the last placement");
        if (ps_cksize(prev_ck) > ps_cksize(ck) && place_first)
            VH_COUNT("set-up history narrowing the checksum after the last placement");
        one_config(size, place, ck, with_aux, auxsize, &r, 0);
        ps_hist_n = 0;
    }
    *vh_ncases += ncase;
}

/* a medium whose write driver stops at page boundaries and reports the short count (an EEPROM page writer): the
 * library may give up on such a write (IO error, nothing is required of the medium then: C11) - but when a store
 * reports success, the medium validates, holds the model and carries the configured checksum over it */
static void
u_pages(uint64_t idx, void *arg)
{
    (void)arg;
    static const size_t pages[] = { 2, 3, 4, 8 };
    const size_t page = pages[idx % 4], size = 1 + (idx / 4) % 9;
    const int ck = (int)((idx / 36) % NCK);
    const size_t cks = ps_cksize(ck);
    unsigned char model[16], img[16];
    unsigned nok = 0, nio = 0;
    for (uint32_t place = 0; place < 2 * page; place++)
        for (int aux_on = 0; aux_on < 2; aux_on++) {
            vh_arena_reset();
            ps_medium_setup(place, cks + size);
            memset(ps_medium, 0x3C, cks + size);
            size_t auxsize = aux_on ? 1 + (place + size) % 5 : 0;
            unsigned char *aux = aux_on ? vh_arena(auxsize) : NULL;
            PersistentStorage st;
            ps_configure(&st, size, place, ck, aux, auxsize, aux_on);
            char key[96], ctx[160];
            snprintf(key, sizeof key, "%s medium=page-writer", cfgkey(ck, aux_on, auxsize));
            VH_CASE4(size, place, ck, page);
            /* a valid image first, written by a driver that takes everything */
            ps_page = 0;
            for (size_t i = 0; i < size; i++)
                model[i] = (unsigned char)(0x10 + i);
            if (persistent_store(&st, model) != PERSISTENT_ACCESS_SUCCESS) {
                vh_fail("store-rc", key, "size=%zu place=%u: plain store fails", size, place);
                continue;
            }
            for (int op = 0; op < 3; op++) {
                for (size_t i = 0; i < size; i++)
                    img[i] = (unsigned char)(0xA0 + 16 * op + i);
                size_t off = op == 2 ? size / 2 : 0, n = op == 2 ? size - size / 2 : size;
                ps_page = page;
                ps_page_cuts = 0;
                ps_log_reset();
                PersistentAccess rc = op == 1 ? persistent_reset(&st, 0x77)
                                      : op == 2 ? persistent_store_part(&st, img, off, n) : persistent_store(&st, img);
                ps_page = 0;
                snprintf(ctx, sizeof ctx, "size=%zu place=%u page=%zu auxsize=%zu %s (%u writes cut at a page boundary)", size, place, page,
                         auxsize, op == 1 ? "reset" : op == 2 ? "store_part" : "store", ps_page_cuts);
                ncase++;
                if (rc == PERSISTENT_ACCESS_SUCCESS) {
                    if (op == 1)
                        memset(model, 0x77, size);
                    else
                        memcpy(model + off, img, n);
                    expect_valid_state(&st, ck, size, op == 1 ? NULL : model, key, ctx);
                    if (op == 1)
                        for (size_t i = 0; i < cks + size; i++)
                            if (ps_medium[i] != 0x77) {
                                vh_fail("reset-fill", key, "%s: region %s", ctx, vh_hex(ps_medium, cks + size));
                                break;
                            }
                    nok++;
                } else if (rc == PERSISTENT_ACCESS_IO_ERROR && ps_page_cuts) {
                    nio++;
                    /* start over from a valid image */
                    for (size_t i = 0; i < size; i++)
                        model[i] = (unsigned char)(0x10 + i);
                    if (persistent_store(&st, model) != PERSISTENT_ACCESS_SUCCESS)
                        vh_fail("store-rc", key, "%s: plain store fails afterwards", ctx);
                } else {
                    vh_fail("store-rc", key, "%s: rc=%d", ctx, rc);
                }
            }
        }
    VH_COUNTN("page writer: operation reported success (medium judged)", nok);
    VH_COUNTN("page writer: operation given up with an IO error", nio);
    VH_COUNT("medium whose writes stop at page boundaries");
    vh_sig(0x10d00000ull ^ idx);
}

void
harness_run(void)
{
    for (uint64_t i = 0; i < 36u * NCK; i++)
        vh_unit("pages", i, u_pages, NULL);
    vh_require("medium whose writes stop at page boundaries");
    static const size_t quick_sizes[] = { 1, 2, 3, 4, 5, 7, 8, 9, 15, 16, 17, 31, 32, 33, 40 };
    if (vh_tier) {
        for (uint64_t s = 1; s <= 130; s++)
            if (s <= 48 || s % 8 <= 1 || s == 127 || s == 130)
                vh_unit("cfg", s, u_cfg, NULL);
    } else {
        for (size_t i = 0; i < sizeof quick_sizes / sizeof quick_sizes[0]; i++)
            vh_unit("cfg", quick_sizes[i], u_cfg, NULL);
    }
    for (uint64_t i = 0; i < (vh_tier ? 4000u : 300u); i++)
        vh_unit("reconf", i, u_reconf, NULL);
    for (uint64_t i = 0; i < 60; i++)
        if (vh_tier || i % 7 == 0 || i % 10 >= 6)
            vh_unit("big", i, u_big, NULL);
    for (uint64_t i = 0; i < (vh_tier ? 294u : 42u); i++)
        vh_unit("remarkable", i, u_remarkable, NULL);
    vh_require("image whose checksum is zero stored and validated");
    vh_require("image whose checksum is all-ones stored and validated");
    vh_require("partial store onto an unsealed medium");
    vh_require("partial store whose source lies in the auxiliary buffer");
    vh_require("image stored over a different image with the same checksum (default-sum16)");
    vh_require("image stored over a different image with the same checksum (crc16-arc)");
    vh_require("large data size 65536");
    vh_require("large data size 70000");
    static const char *req[] = { "set-up history changing the checksum width after the last placement",
                                 "set-up history narrowing the checksum after the last placement", "reset checked", "full store checked", "partial store + fetch checked",
                                 "out-of-range part access", "out-of-range part access whose offset+length wraps",
                                 "alteration detected by the checksum",
                                 "auxiliary buffer non-NULL with size 0", "data size 1", "data size 40",
                                 "placement with the last octet at the top of the address space" };
    for (size_t i = 0; i < sizeof req / sizeof req[0]; i++)
        vh_require(req[i]);
}
