/* C10 - persistent store/validate/fetch round-trips and stays inside its
 * region.
 *
 * The medium is an exact-size poisoned-arena block covering only the
 * instance's checksum+data region; its callbacks log every access. Oracles:
 * model image, independent checksum implementations, region containment of
 * the access log, "validate succeeds iff the medium is consistent". */
#include "ps_common.h"

const char *harness_name = "c10_pstore";

static void
img(unsigned char *p, size_t n, unsigned salt)
{
    for (size_t i = 0; i < n; i++)
        p[i] = (unsigned char)(((i + 1) * 37u) ^ (salt * 101u) ^ (i >> 3));
}

static const char *
cfgkey(int ck, int with_aux, size_t auxsize)
{
    static char k[96];
    snprintf(k, sizeof k, "checksum=%s aux=%s", ps_ckname[ck],
             !with_aux ? "none" : auxsize == 0 ? "zero-size" : "yes");
    return k;
}

static void
expect_valid_state(PersistentStorage *st, int ck, size_t size, const unsigned char *model, const char *key,
                   const char *ctx)
{
    /* validation verdict must equal what the independent checksum says about the medium */
    ps_log_reset();
    PersistentAccess v = persistent_validate(st);
    int consistent = ps_medium_consistent(ck, size);
    if ((v == PERSISTENT_ACCESS_SUCCESS) != consistent || (v != PERSISTENT_ACCESS_SUCCESS && v != PERSISTENT_ACCESS_INVALID_DATA))
        vh_fail("validate-verdict", key, "%s: validate=%d but medium is %s (stored %x, reference %x)", ctx, v,
                consistent ? "consistent" : "inconsistent", ps_stored_sum(ck),
                ps_ref(ck, ps_medium + ps_cksize(ck), size));
    if (model) {
        if (!consistent)
            vh_fail("checksum-on-medium", key, "%s: stored %x, reference over the data image %x", ctx,
                    ps_stored_sum(ck), ps_ref(ck, ps_medium + ps_cksize(ck), size));
        if (memcmp(ps_medium + ps_cksize(ck), model, size) != 0)
            vh_fail("data-on-medium", key, "%s: medium %s model %s", ctx, vh_hex(ps_medium + ps_cksize(ck), size),
                    vh_hex(model, size));
        unsigned char *dst = vh_arena(size);
        PersistentAccess f = persistent_fetch(dst, st);
        if (f != PERSISTENT_ACCESS_SUCCESS || memcmp(dst, model, size) != 0)
            vh_fail("fetch", key, "%s: rc=%d fetched %s model %s", ctx, f, vh_hex(dst, size), vh_hex(model, size));
    }
    if (ps_outside)
        vh_fail("access-outside-region", key, "%s", ctx);
    if (ps_runaway)
        vh_fail("no-progress", key, "%s: more than %u medium accesses", ctx, ps_call_bound);
    ps_outside = 0;
}

static uint64_t ncase;

static void
one_config(size_t size, uint32_t place, int ck, int with_aux, size_t auxsize, vh_rng *r, int full_pairs)
{
    vh_arena_reset();
    const size_t cks = ps_cksize(ck);
    ps_medium_setup(place, cks + size);
    memset(ps_medium, 0x3C, cks + size);
    unsigned char *aux = with_aux ? vh_arena(auxsize) : NULL;
    PersistentStorage st;
    ps_configure(&st, size, place, ck, aux, auxsize, with_aux);
    const char *key = cfgkey(ck, with_aux, auxsize);
    char ctx[200];
    unsigned char model[160];
    VH_CASE4(size, place, ck, with_aux ? auxsize + 1 : 0);
    if (st.data.address != place + cks || st.checksum.address != place || st.data.size != size)
        vh_fail("layout", key, "size=%zu place=%u: checksum at %u data at %u", size, place, st.checksum.address,
                st.data.address);

    /* reset: every octet of the region = fill */
    for (unsigned fill = 0; fill < 2; fill++) {
        unsigned char fv = fill ? 0xFF : 0x00;
        ps_log_reset();
        PersistentAccess rc = persistent_reset(&st, fv);
        snprintf(ctx, sizeof ctx, "size=%zu place=%u auxsize=%zu reset(%02x)", size, place, auxsize, fv);
        if (ps_runaway) {
            vh_fail("no-progress", key, "%s: more than %u medium accesses", ctx, ps_call_bound);
            return;
        }
        if (rc != PERSISTENT_ACCESS_SUCCESS)
            vh_fail("reset-rc", key, "%s: rc=%d", ctx, rc);
        for (size_t i = 0; i < cks + size; i++)
            if (ps_medium[i] != fv) {
                vh_fail("reset-fill", key, "%s: region %s", ctx, vh_hex(ps_medium, cks + size));
                break;
            }
        expect_valid_state(&st, ck, size, NULL, key, ctx);
        VH_COUNT("reset checked");
        ncase++;
    }

    /* full store */
    img(model, size, (unsigned)(size + place));
    unsigned char *src = vh_arena_copy(model, size);
    ps_log_reset();
    PersistentAccess rc = persistent_store(&st, src);
    snprintf(ctx, sizeof ctx, "size=%zu place=%u auxsize=%zu full store", size, place, auxsize);
    if (rc != PERSISTENT_ACCESS_SUCCESS)
        vh_fail("store-rc", key, "%s: rc=%d", ctx, rc);
    expect_valid_state(&st, ck, size, model, key, ctx);
    VH_COUNT("full store checked");
    ncase++;

    /* partial stores over evolving content */
    unsigned salt = 1;
    for (size_t off = 0; off <= size; off++)
        for (size_t n = 0; off + n <= size; n++) {
            if (!full_pairs && !(n <= 2 || off + n == size || off == 0 || vh_chance(r, 1, 12)))
                continue;
            unsigned char part[160];
            img(part, n, salt++);
            unsigned char *psrc = vh_arena_copy(part, n);
            ps_log_reset();
            rc = persistent_store_part(&st, psrc, off, n);
            snprintf(ctx, sizeof ctx, "size=%zu place=%u auxsize=%zu store_part(off=%zu,n=%zu)", size, place, auxsize,
                     off, n);
            if (ps_runaway) {
                vh_fail("no-progress", key, "%s: more than %u medium accesses", ctx, ps_call_bound);
                return;
            }
            if (rc != PERSISTENT_ACCESS_SUCCESS)
                vh_fail("store-part-rc", key, "%s: rc=%d", ctx, rc);
            memcpy(model + off, part, n);
            expect_valid_state(&st, ck, size, model, key, ctx);
            /* fetch_part of the same window */
            unsigned char *dst = vh_arena(n);
            ps_log_reset();
            PersistentAccess f = persistent_fetch_part(dst, &st, off, n);
            if (f != PERSISTENT_ACCESS_SUCCESS || memcmp(dst, model + off, n) != 0)
                vh_fail("fetch-part", key, "%s: rc=%d got %s", ctx, f, vh_hex(dst, n));
            if (ps_outside)
                vh_fail("access-outside-region", key, "%s (fetch_part)", ctx);
            ps_outside = 0;
            VH_COUNT("partial store + fetch checked");
            ncase++;
            if ((ncase & 31) == 0) {
                /* keep the arena small: re-carve the medium */
                unsigned char save[200];
                memcpy(save, ps_medium, cks + size);
                vh_arena_reset();
                ps_medium = vh_arena(cks + size);
                memcpy(ps_medium, save, cks + size);
                aux = with_aux ? vh_arena(auxsize) : NULL;
                if (with_aux)
                    persistent_buffer(&st, aux, auxsize);
            }
        }

    /* part accesses reaching beyond the data size, incl. pairs whose sum wraps */
    {
        const size_t offs[] = { 0, 1, size, size + 1, size - 1, SIZE_MAX, SIZE_MAX - 1, SIZE_MAX - size,
                                SIZE_MAX / 2 + 1, (size_t)1 << 32, ((size_t)1 << 32) - 1 };
        const size_t lens[] = { 0, 1, 2, size, size + 1, SIZE_MAX, SIZE_MAX - 1, SIZE_MAX - size + 1,
                                SIZE_MAX / 2 + 1, (size_t)1 << 32 };
        unsigned char before[200];
        memcpy(before, ps_medium, cks + size);
        unsigned char *buf = vh_arena(size + 2);
        for (size_t a = 0; a < sizeof offs / sizeof offs[0]; a++)
            for (size_t b = 0; b < sizeof lens / sizeof lens[0]; b++) {
                size_t off = offs[a], n = lens[b];
                int inrange = off <= size && n <= size - off;
                if (inrange)
                    continue;
                for (int wr = 0; wr < 2; wr++) {
                    ps_log_reset();
                    rc = wr ? persistent_store_part(&st, buf, off, n) : persistent_fetch_part(buf, &st, off, n);
                    snprintf(ctx, sizeof ctx, "size=%zu place=%u %s_part(off=%zx,n=%zx)", size, place,
                             wr ? "store" : "fetch", off, n);
                    if (off + n < off)
                        VH_COUNT("out-of-range part access whose offset+length wraps");
                    else
                        VH_COUNT("out-of-range part access");
                    if (rc != PERSISTENT_ACCESS_ADDRESS_OUT_OF_RANGE)
                        vh_fail("out-of-range-rc", key, "%s: rc=%d", ctx, rc);
                    if (ps_nlog != 0)
                        vh_fail("out-of-range-touches-medium", key, "%s: %zu medium accesses, first %s addr=%u len=%zu",
                                ctx, ps_nlog, ps_log[0].write ? "write" : "read", ps_log[0].addr, ps_log[0].len);
                    if (memcmp(before, ps_medium, cks + size) != 0) {
                        vh_fail("out-of-range-modifies", key, "%s", ctx);
                        memcpy(ps_medium, before, cks + size);
                    }
                    ps_outside = 0;
                    ncase++;
                }
            }
    }

    /* single-octet alterations of checksum and data */
    for (size_t pos = 0; pos < cks + size; pos++)
        for (int m = 0; m < 3; m++) {
            unsigned char old = ps_medium[pos];
            ps_medium[pos] = m == 0 ? old ^ 0x01 : m == 1 ? old ^ 0x80 : (unsigned char)(old + 1);
            snprintf(ctx, sizeof ctx, "size=%zu place=%u auxsize=%zu octet %zu altered %02x->%02x", size, place,
                     auxsize, pos, old, ps_medium[pos]);
            if (ps_medium_consistent(ck, size))
                VH_COUNT("alteration the checksum cannot distinguish");
            else
                VH_COUNT("alteration detected by the checksum");
            expect_valid_state(&st, ck, size, NULL, key, ctx);
            ps_medium[pos] = old;
            ncase++;
        }
    vh_sig(((uint64_t)size << 32) ^ ((uint64_t)place << 16) ^ ((uint64_t)ck << 12) ^ (with_aux ? auxsize + 1 : 0));
}

static void
u_cfg(uint64_t idx, void *arg)
{
    (void)arg;
    /* idx = size; all placements, checksums and aux sizes */
    size_t size = (size_t)idx;
    vh_rng r;
    vh_unit_rng(&r, "cfg", idx);
    ncase = 0;
    for (int pl = 0; pl < PS_NPLACES; pl++)
        for (int ck = 0; ck < NCK; ck++) {
            const uint32_t place = ps_place_of(pl, ck, size);
            if (pl == 4)
                VH_COUNT("placement with the last octet at the top of the address space");
            /* aux: none, then sizes 0 (degenerate), 1..size+1 */
            one_config(size, place, ck, 0, 0, &r, vh_tier || size <= 9);
            for (size_t a = 0; a <= size + 1; a++) {
                if (!vh_tier && size > 9 && !(a <= 3 || a + 2 >= size || vh_chance(&r, 1, 6)))
                    continue;
                if (a == 0)
                    VH_COUNT("auxiliary buffer non-NULL with size 0");
                one_config(size, place, ck, 1, a, &r, (vh_tier && size <= 24) || size <= 6);
            }
        }
    *vh_ncases += ncase;
    vh_countf("data size %zu", size);
    if (size == 5)
        vh_sample("config", "data size 5 x placements {0,1,7,4093} x {default sum16, CRC-16/ARC, sum32} x aux buffer "
                            "{none, sizes 0..6}: reset, full store, every (offset,length) partial store, out-of-range "
                            "and wrapping part accesses, every single-octet alteration");
}

/* set-up histories: the same instance is placed and given checksum algorithms several times, in any order,
 * before it is used; what counts is the last placement and the last algorithm */
static void
u_reconf(uint64_t idx, void *arg)
{
    (void)arg;
    static const size_t sizes[] = { 1, 2, 3, 5, 8, 9, 16, 33 };
    vh_rng r;
    vh_unit_rng(&r, "reconf", idx);
    ncase = 0;
    for (int rep = 0; rep < 6; rep++) {
        size_t size = sizes[vh_below(&r, sizeof sizes / sizeof sizes[0])];
        int ck = (int)vh_below(&r, NCK);
        uint32_t place = ps_place_of((int)vh_below(&r, PS_NPLACES), ck, size);
        int n = 0, prev_ck = CK_DEFAULT, width_changed_after_place = 0;
        int pre = (int)vh_below(&r, 5);
        for (int i = 0; i < pre; i++) {
            unsigned k = (unsigned)vh_below(&r, 5);
            if (k < 2) {
                ps_hist[n].op = PH_PLACE;
                ps_hist[n++].arg = ps_place_of((int)vh_below(&r, PS_NPLACES), (int)vh_below(&r, NCK), size);
            } else if (k < 4) {
                ps_hist[n].op = PH_SUM;
                prev_ck = (int)vh_below(&r, NCK);
                ps_hist[n++].arg = (uint32_t)prev_ck;
            } else {
                ps_hist[n].op = PH_BUFFER;
                ps_hist[n++].arg = (uint32_t)vh_below(&r, sizeof ps_hist_buf + 1);
            }
        }
        int place_first = (int)vh_below(&r, 2);
        for (int k = 0; k < 2; k++) {
            if ((k == 0) == place_first) {
                ps_hist[n].op = PH_PLACE;
                ps_hist[n++].arg = place;
            } else {
                ps_hist[n].op = PH_SUM;
                ps_hist[n++].arg = (uint32_t)ck;
            }
        }
        if (place_first && ps_cksize(prev_ck) != ps_cksize(ck))
            width_changed_after_place = 1;
        ps_hist_n = n;
        int with_aux = (int)vh_below(&r, 2);
        size_t auxsize = with_aux ? (size_t)vh_below(&r, size + 2) : 0;
        VH_COUNT("set-up history checked");
        if (width_changed_after_place)
            VH_COUNT("set-up history changing the checksum width after the last placement");
        if (ps_cksize(prev_ck) > ps_cksize(ck) && place_first)
            VH_COUNT("set-up history narrowing the checksum after the last placement");
        one_config(size, place, ck, with_aux, auxsize, &r, 0);
        ps_hist_n = 0;
    }
    *vh_ncases += ncase;
}

void
harness_run(void)
{
    static const size_t quick_sizes[] = { 1, 2, 3, 4, 5, 7, 8, 9, 15, 16, 17, 31, 32, 33, 40 };
    if (vh_tier) {
        for (uint64_t s = 1; s <= 130; s++)
            if (s <= 48 || s % 8 <= 1 || s == 127 || s == 130)
                vh_unit("cfg", s, u_cfg, NULL);
    } else {
        for (size_t i = 0; i < sizeof quick_sizes / sizeof quick_sizes[0]; i++)
            vh_unit("cfg", quick_sizes[i], u_cfg, NULL);
    }
    for (uint64_t i = 0; i < (vh_tier ? 4000u : 300u); i++)
        vh_unit("reconf", i, u_reconf, NULL);
    static const char *req[] = { "set-up history changing the checksum width after the last placement",
                                 "set-up history narrowing the checksum after the last placement", "reset checked", "full store checked", "partial store + fetch checked",
                                 "out-of-range part access", "out-of-range part access whose offset+length wraps",
                                 "alteration detected by the checksum",
                                 "auxiliary buffer non-NULL with size 0", "data size 1", "data size 40",
                                 "placement with the last octet at the top of the address space" };
    for (size_t i = 0; i < sizeof req / sizeof req[0]; i++)
        vh_require(req[i]);
}
