/* Shared by C06..C09: reference encoder/decoder of the register protocol
 * written from doc/regp.txt (big-endian header, bitwise CRC-16/ARC, SLIP and
 * varint framing) - it shares no code with ufw - plus the harness side of a
 * RegP instance: logging memory backend, ledger allocator on exact-size
 * poisoned blocks, wire source with error injection, collecting sink. */
#ifndef RP_COMMON_H
#define RP_COMMON_H

#include "common/vh.h"

#include <errno.h>
#include <sys/types.h>
#include <ufw/allocator.h>
#include <ufw/endpoints.h>
#include <ufw/register-protocol.h>

/* ---------------- reference codec ---------------- */

enum { RT_READ_REQ = 0, RT_READ_RESP = 1, RT_WRITE_REQ = 2, RT_WRITE_RESP = 3, RT_META = 15 };
#define ROPT_W16 1u
#define ROPT_HDCRC 2u
#define ROPT_PLCRC 4u

struct rframe {
    unsigned version, type, options, meta;
    uint16_t seq;
    uint32_t addr, bsize;
    const unsigned char *payload;
    size_t plen;
    uint16_t hdcrc, plcrc; /* as found on the wire (decoder) */
};

static uint16_t
rp_crc(uint16_t crc, const unsigned char *p, size_t n)
{
    for (size_t i = 0; i < n; i++) {
        crc ^= p[i];
        for (int b = 0; b < 8; b++)
            crc = (crc & 1u) ? (uint16_t)((crc >> 1) ^ 0xA001u) : (uint16_t)(crc >> 1);
    }
    return crc;
}

static void
rp_be16(unsigned char *o, uint16_t v)
{
    o[0] = (unsigned char)(v >> 8);
    o[1] = (unsigned char)v;
}

static void
rp_be32(unsigned char *o, uint32_t v)
{
    rp_be16(o, (uint16_t)(v >> 16));
    rp_be16(o + 2, (uint16_t)v);
}

/* raw frame (header + payload) with correct checksums as the option bits demand */
static size_t
rp_encode_raw(const struct rframe *f, unsigned char *out)
{
    size_t n = 0;
    rp_be16(out, (uint16_t)((f->meta & 15u) << 12 | (f->options & 15u) << 8 | (f->type & 15u) << 4 | (f->version & 15u)));
    rp_be16(out + 2, f->seq);
    rp_be32(out + 4, f->addr);
    rp_be32(out + 8, f->bsize);
    n = 12;
    uint16_t plcrc = rp_crc(0, f->payload, f->plen);
    if (f->options & ROPT_HDCRC) {
        /* the header checksum covers the six fixed words and the payload checksum word, if there is one */
        unsigned char tmp[14];
        memcpy(tmp, out, 12);
        size_t tn = 12;
        if (f->options & ROPT_PLCRC) {
            rp_be16(tmp + 12, plcrc);
            tn = 14;
        }
        rp_be16(out + n, rp_crc(0, tmp, tn));
        n += 2;
    }
    if (f->options & ROPT_PLCRC) {
        rp_be16(out + n, plcrc);
        n += 2;
    }
    if (f->plen)
        memcpy(out + n, f->payload, f->plen);
    return n + f->plen;
}

static size_t
rp_slip(const unsigned char *raw, size_t n, unsigned char *out)
{
    size_t o = 0;
    for (size_t i = 0; i < n; i++) {
        if (raw[i] == 0xc0) {
            out[o++] = 0xdb;
            out[o++] = 0xdc;
        } else if (raw[i] == 0xdb) {
            out[o++] = 0xdb;
            out[o++] = 0xdd;
        } else
            out[o++] = raw[i];
    }
    out[o++] = 0xc0;
    return o;
}

static size_t
rp_varint(uint64_t v, unsigned char *out)
{
    size_t o = 0;
    do {
        unsigned char c = v & 0x7f;
        v >>= 7;
        if (v)
            c |= 0x80;
        out[o++] = c;
    } while (v);
    return o;
}

static size_t
rp_wire(int serial, const unsigned char *raw, size_t n, unsigned char *out)
{
    if (serial)
        return rp_slip(raw, n, out);
    size_t o = rp_varint(n, out);
    memcpy(out + o, raw, n);
    return o + n;
}

/* Reference decoder of a raw (unframed) message: 0 or the error identifier
 * regp_recv documents (EBADMSG header encoding, EILSEQ header checksum,
 * EFAULT payload size, EPROTO payload checksum). Reading choices are stated
 * in DESIGN.md section 7, C07. */
static int
rp_decode_raw(const unsigned char *raw, size_t n, struct rframe *f)
{
    memset(f, 0, sizeof *f);
    if (n < 12)
        return EBADMSG;
    unsigned motv = (unsigned)raw[0] << 8 | raw[1];
    f->version = motv & 15u;
    f->type = (motv >> 4) & 15u;
    f->options = (motv >> 8) & 15u;
    f->meta = (motv >> 12) & 15u;
    if (f->version != 0)
        return EBADMSG;
    if (f->options & 8u)
        return EBADMSG;
    switch (f->type) {
    case RT_READ_REQ:
    case RT_WRITE_REQ:
        if (f->meta != 0)
            return EBADMSG;
        break;
    case RT_READ_RESP:
    case RT_WRITE_RESP:
        if (f->meta > 11)
            return EBADMSG;
        break;
    case RT_META:
        if (f->meta != 1 && f->meta != 2)
            return EBADMSG;
        break;
    default: return EBADMSG;
    }
    f->seq = (uint16_t)(raw[2] << 8 | raw[3]);
    f->addr = (uint32_t)raw[4] << 24 | (uint32_t)raw[5] << 16 | (uint32_t)raw[6] << 8 | raw[7];
    f->bsize = (uint32_t)raw[8] << 24 | (uint32_t)raw[9] << 16 | (uint32_t)raw[10] << 8 | raw[11];
    size_t hs = 12;
    int hd = (f->options & ROPT_HDCRC) != 0, pl = (f->options & ROPT_PLCRC) != 0;
    if (n < 12 + 2 * (size_t)(hd + pl))
        return EBADMSG;
    if (hd) {
        f->hdcrc = (uint16_t)(raw[hs] << 8 | raw[hs + 1]);
        hs += 2;
    }
    if (pl) {
        f->plcrc = (uint16_t)(raw[hs] << 8 | raw[hs + 1]);
        hs += 2;
    }
    if (hd) {
        unsigned char tmp[14];
        memcpy(tmp, raw, 12);
        size_t tn = 12;
        if (pl) {
            rp_be16(tmp + 12, f->plcrc);
            tn = 14;
        }
        if (rp_crc(0, tmp, tn) != f->hdcrc)
            return EILSEQ;
    }
    f->payload = raw + hs;
    f->plen = n - hs;
    size_t ws = (f->options & ROPT_W16) ? 2 : 1;
    if (f->type == RT_READ_REQ || f->type == RT_META) {
        if (f->plen != 0)
            return EFAULT;
    } else {
        if (f->plen % ws != 0 || f->plen / ws != f->bsize)
            return EFAULT;
    }
    if (pl && f->plen > 0 && rp_crc(0, f->payload, f->plen) != f->plcrc)
        return EPROTO;
    return 0;
}

/* split the octets a sink received into raw frames; returns the number of frames or -1 if the framing is broken */
struct rp_split {
    unsigned char raw[8][20000];
    size_t len[8];
};

static int
rp_unframe_into(int serial, const unsigned char *w, size_t n, unsigned char *rawbase, size_t stride, int maxf,
                size_t *lens)
{
    int nf = 0;
    size_t i = 0;
    while (i < n) {
        if (nf >= maxf)
            return -1;
        unsigned char *rawf = rawbase + (size_t)nf * stride;
        size_t o = 0;
        if (serial) {
            int done = 0;
            while (i < n) {
                unsigned char c = w[i++];
                if (c == 0xc0) {
                    done = 1;
                    break;
                }
                if (c == 0xdb) {
                    if (i >= n)
                        return -1;
                    unsigned char e = w[i++];
                    if (e == 0xdc)
                        c = 0xc0;
                    else if (e == 0xdd)
                        c = 0xdb;
                    else
                        return -1;
                }
                if (o >= stride)
                    return -1;
                rawf[o++] = c;
            }
            if (!done)
                return -1;
        } else {
            uint64_t len = 0;
            int sh = 0;
            for (;;) {
                if (i >= n || sh > 63)
                    return -1;
                unsigned char c = w[i++];
                len |= (uint64_t)(c & 0x7f) << sh;
                sh += 7;
                if (!(c & 0x80))
                    break;
            }
            if (len > n - i || len > stride)
                return -1;
            memcpy(rawf, w + i, (size_t)len);
            o = (size_t)len;
            i += (size_t)len;
        }
        lens[nf++] = o;
    }
    return nf;
}

static int
rp_unframe(int serial, const unsigned char *w, size_t n, struct rp_split *s)
{
    return rp_unframe_into(serial, w, n, &s->raw[0][0], sizeof s->raw[0], 8, s->len);
}

/* ---------------- harness side of a RegP ---------------- */

#define RP_WIREMAX 330000
#define RP_MAXBLOCKS 16
#define RP_RECMAX 400

struct rp_block {
    unsigned char *p;
    size_t size;
    int live;
    unsigned frees;
};

struct rp_becall {
    int write;
    uint32_t addr;
    size_t n;
    size_t room;       /* octets available behind the pointer inside its block (SIZE_MAX: pointer not in a live block) */
    unsigned char payload[300];
    size_t plcopy;     /* octets of payload copied (writes) */
    size_t plseen;     /* octets of payload that were readable behind the pointer (writes) */
    uint64_t plhash;   /* hash over all of them */
    const void *buf;
};

struct rp_h {
    RegP p;
    BlockAllocator alloc;
    int serial, mem16;
    size_t blocksize;
    /* allocator ledger */
    struct rp_block blk[RP_MAXBLOCKS];
    int nblk;
    unsigned nalloc, alloc_calls;
    long fail_alloc_at;  /* index of the allocation that fails (-1: never) */
    int bad_free;        /* double or foreign free seen */
    /* wire in */
    const unsigned char *in;
    size_t in_n, in_pos;
    size_t in_fail_at;   /* the source reports -EIO instead of delivering this octet (SIZE_MAX: never) */
    unsigned in_calls, in_bound;
    int in_runaway;
    /* wire out */
    unsigned char out[RP_WIREMAX];
    size_t out_n;
    size_t out_calls, out_fail_from; /* sink calls so far; index of the first one that fails (SIZE_MAX: never) */
    unsigned out_failed;
    size_t out_maxper; /* > 0: the reply sink takes at most this many octets per call */
    int out_octet;     /* the reply sink is an octet-style driver */
    size_t nest_at;    /* when the sink holds exactly this many octets ... */
    void (*nest_fn)(struct rp_h *); /* ... this is called once from inside the sink driver (a transmit-complete hook) */
    size_t out_hiccup_at; /* index of the one sink call that moves nothing and reports out_hiccup_code (SIZE_MAX: none) */
    int out_hiccup_code;
    unsigned out_hiccups;
    /* recycling pool (one block of up to RP_RECMAX octets that is handed out again and again, content intact) */
    int recycle, rec_live;
    unsigned char recmem[64 + RP_RECMAX + 64];
    /* backend */
    struct rp_becall call[8];
    int ncalls;
    RPBlockAccess verdict;      /* what the backend answers */
    unsigned char fill_seed;    /* reads deliver word i = f(seed, i) */
    int backend_small_buffer;   /* handed a buffer with less room than asked */
    /* optional: the source exposes a window through the getbuffer extension, so that the plumbing moves
     * several octets at a time into the receiver's sink */
    unsigned char win[80], win2[80]; /* two banks: the window source is double-buffered */
    unsigned winbank;
    size_t winsize;
};

static struct rp_h *rp_cur;

static int
rp_alloc_cb(void *drv, void **m, size_t n)
{
    struct rp_h *h = drv;
    long idx = (long)h->alloc_calls++;
    if (idx == h->fail_alloc_at) {
        /* what a failing allocator leaves in the out-parameter is its own business (NULL, or the candidate it
         * looked at before it gave up): nobody may use it */
        static unsigned char offlimits[32];
        static int poisoned;
        if (!poisoned) {
            vh_poison(offlimits, sizeof offlimits);
            poisoned = 1;
        }
        *m = ((idx + (long)(vh_unit_salt & 1u)) & 1) ? NULL : (void *)(offlimits + 8);
        return -ENOMEM;
    }
    if (h->nblk >= RP_MAXBLOCKS) {
        *m = NULL;
        return -ENOMEM;
    }
    struct rp_block *b = &h->blk[h->nblk++];
    if (h->recycle && !h->rec_live && n <= RP_RECMAX) {
        /* a pool that hands the same block out again: what the previous frame left in it is still there */
        h->rec_live = 1;
        b->p = h->recmem + 64;
        vh_unpoison(b->p, n);
        b->size = n;
        b->live = 1;
        b->frees = 0;
        h->nalloc++;
        *m = b->p;
        return 0;
    }
    b->p = vh_arena(n);
    /* what a fresh block holds is nobody's business: erased flash (ff), zeroes, a debug fill - and as far as
     * MemorySanitizer is concerned it has no content at all */
    {
        static const unsigned char fills[4] = { 0xA5, 0xFF, 0x00, 0xFF };
        memset(b->p, fills[(h->alloc_calls + vh_unit_salt / 32) % 4], n);
        vh_mark_uninit(b->p, n);
    }
    b->size = n;
    b->live = 1;
    b->frees = 0;
    h->nalloc++;
    *m = b->p;
    return 0;
}

/* the same allocator in slab form (the block size is the allocator's, not an argument) */
static int
rp_slab_alloc_cb(void *drv, void **m)
{
    struct rp_h *h = drv;
    return rp_alloc_cb(drv, m, h->blocksize);
}

static void
rp_free_cb(void *drv, void *m)
{
    struct rp_h *h = drv;
    /* a recycled block appears in the ledger once per life: the live entry is the one being released */
    int hit = -1;
    for (int i = 0; i < h->nblk; i++)
        if (h->blk[i].p == m && (hit < 0 || h->blk[i].live))
            hit = i;
    for (int i = hit; i >= 0 && i < h->nblk; i = h->nblk)
        if (h->blk[i].p == m) {
            h->blk[i].frees++;
            if (!h->blk[i].live)
                h->bad_free = 1;
            h->blk[i].live = 0;
            /* a freed block must not be touched again */
            vh_poison(h->blk[i].p, h->blk[i].size);
            if (h->blk[i].p == h->recmem + 64)
                h->rec_live = 0;
            return;
        }
    h->bad_free = 1;
}

static int
rp_live_blocks(const struct rp_h *h)
{
    int n = 0;
    for (int i = 0; i < h->nblk; i++)
        n += h->blk[i].live;
    return n;
}

static size_t
rp_room(const struct rp_h *h, const void *p)
{
    const unsigned char *c = p;
    for (int i = 0; i < h->nblk; i++)
        if (h->blk[i].live && c >= h->blk[i].p && c <= h->blk[i].p + h->blk[i].size)
            return (size_t)(h->blk[i].p + h->blk[i].size - c);
    return SIZE_MAX;
}

static int
rp_src_octet(void *drv, void *out)
{
    struct rp_h *h = drv;
    if (++h->in_calls > h->in_bound) {
        h->in_runaway = 1;
        return -EIO;
    }
    if (h->in_pos == h->in_fail_at) {
        h->in_fail_at = SIZE_MAX;
        return -EIO;
    }
    if (h->in_pos >= h->in_n)
        return -ENODATA;
    *(unsigned char *)out = h->in[h->in_pos++];
    return 1;
}

static ssize_t
rp_src_chunk(void *drv, void *out, size_t n)
{
    struct rp_h *h = drv;
    if (++h->in_calls > h->in_bound) {
        h->in_runaway = 1;
        return -EIO;
    }
    if (n == 0)
        return -EINVAL;
    if (h->in_pos == h->in_fail_at) {
        h->in_fail_at = SIZE_MAX;
        return -EIO;
    }
    if (h->in_pos >= h->in_n)
        return -ENODATA;
    size_t k = h->in_n - h->in_pos;
    if (k > n)
        k = n;
    /* a channel error inside the span cuts the read short in front of it */
    if (h->in_fail_at > h->in_pos && h->in_fail_at - h->in_pos < k)
        k = h->in_fail_at - h->in_pos;
    memcpy(out, h->in + h->in_pos, k);
    h->in_pos += k;
    return (ssize_t)k;
}

static ByteBuffer
rp_getbuffer(Source *s)
{
    struct rp_h *h = s->driver;
    ByteBuffer b;
    unsigned char *cur = (h->winbank & 1u) ? h->win2 : h->win, *nxt = (h->winbank & 1u) ? h->win : h->win2;
    memset(cur, 0xEE, sizeof h->win);
    h->winbank++;
    byte_buffer_use(&b, nxt, h->winsize);
    return b;
}

static ssize_t
rp_sink_chunk(void *drv, const void *p, size_t n)
{
    struct rp_h *h = drv;
    /* a driver that is interrupted once: nothing moved, try again */
    if (h->out_calls == h->out_hiccup_at) {
        h->out_calls++;
        h->out_hiccups++;
        return h->out_hiccup_code;
    }
    /* a reply channel that is down: every write from the out_fail_from-th on is refused */
    if (h->out_calls++ >= h->out_fail_from) {
        /* what the library tried to send is kept for the record (an acknowledgement among it still counts) */
        if (h->out_n + n <= RP_WIREMAX) {
            memcpy(h->out + h->out_n, p, n);
            h->out_n += n;
        }
        h->out_failed++;
        return -EIO;
    }
    /* a chunk driver may take only part of what it is offered */
    if (h->out_maxper && n > h->out_maxper)
        n = h->out_maxper;
    if (h->out_n + n > RP_WIREMAX)
        return -ENOMEM;
    memcpy(h->out + h->out_n, p, n);
    h->out_n += n;
    if (h->nest_fn && h->out_n == h->nest_at) {
        void (*fn)(struct rp_h *) = h->nest_fn;
        h->nest_fn = NULL;
        fn(h);
    }
    return (ssize_t)n;
}

static int
rp_sink_octet(void *drv, unsigned char c)
{
    ssize_t rc = rp_sink_chunk(drv, &c, 1);
    return rc < 0 ? (int)rc : 1;
}

static uint64_t
rp_hash(const void *p, size_t n)
{
    const unsigned char *b = p;
    uint64_t h = 1469598103934665603ull;
    for (size_t i = 0; i < n; i++)
        h = (h ^ b[i]) * 1099511628211ull;
    return h;
}

static unsigned char
rp_fill(unsigned char seed, size_t i)
{
    return (unsigned char)(seed * 7u + i * 13u + 1u);
}

static RPBlockAccess
rp_be(int write, int ws, uint32_t addr, size_t n, void *rbuf, const void *wbuf)
{
    struct rp_h *h = rp_cur;
    if (h->ncalls < 8) {
        struct rp_becall *c = &h->call[h->ncalls];
        c->write = write;
        c->addr = addr;
        c->n = n;
        c->buf = write ? wbuf : rbuf;
        c->room = rp_room(h, c->buf);
        c->plcopy = 0;
        size_t need = n * (size_t)ws;
        if (c->room != SIZE_MAX && c->room < need) {
            h->backend_small_buffer = 1;
            need = c->room; /* stay inside the block */
        }
        if (write) {
            c->plcopy = need < sizeof c->payload ? need : sizeof c->payload;
            c->plseen = 0;
            c->plhash = 0;
            if (c->room != SIZE_MAX) {
                memcpy(c->payload, wbuf, c->plcopy);
                c->plseen = need;
                c->plhash = rp_hash(wbuf, need);
            }
        } else if (h->verdict.status == RP_RESP_ACK && c->room != SIZE_MAX) {
            unsigned char *o = rbuf;
            for (size_t i = 0; i < need; i++)
                o[i] = rp_fill(h->fill_seed, i);
        }
    }
    h->ncalls++;
    return h->verdict;
}

static RPBlockAccess rp_r16(uint32_t a, size_t n, uint16_t *b) { return rp_be(0, 2, a, n, b, NULL); }
static RPBlockAccess rp_w16(uint32_t a, size_t n, const uint16_t *b) { return rp_be(1, 2, a, n, NULL, b); }
static RPBlockAccess rp_r8(uint32_t a, size_t n, uint8_t *b) { return rp_be(0, 1, a, n, b, NULL); }
static RPBlockAccess rp_w8(uint32_t a, size_t n, const uint8_t *b) { return rp_be(1, 1, a, n, NULL, b); }

static unsigned rp_setup_toggle;
static size_t rp_next_window; /* set before rp_setup() to get a getbuffer source with that window size */
static int rp_next_sink_octet; /* set before rp_setup() to get an octet-style reply sink */

static void
rp_setup(struct rp_h *h, int serial, int mem16, size_t blocksize)
{
    memset(h, 0, offsetof(struct rp_h, out));
    h->winsize = rp_next_window > sizeof h->win ? sizeof h->win : rp_next_window;
    rp_next_window = 0;
    h->out_n = 0;
    h->ncalls = 0;
    h->verdict = (RPBlockAccess){ .status = RP_RESP_ACK, .address = 0 };
    h->fill_seed = 1;
    h->backend_small_buffer = 0;
    h->serial = serial;
    h->mem16 = mem16;
    h->blocksize = blocksize;
    h->fail_alloc_at = -1;
    h->in_fail_at = SIZE_MAX;
    h->out_calls = 0;
    h->out_fail_from = SIZE_MAX;
    h->out_failed = 0;
    h->out_hiccup_at = SIZE_MAX;
    h->out_hiccups = 0;
    h->nest_fn = NULL;
    h->nest_at = 0;
    h->out_octet = rp_next_sink_octet;
    rp_next_sink_octet = 0;
    {
        static const size_t pers[] = { 0, 0, 1, 0, 3, 7, 0, 64 };
        h->out_maxper = blocksize > 1000 ? 0 : pers[(rp_setup_toggle / 2 + vh_unit_salt / 4) % 8];
    }
    /* one instance in three draws its frame blocks from a recycling pool */
    h->recycle = ((rp_setup_toggle / 2 + vh_unit_salt / 8) % 3) == 0 && blocksize <= RP_RECMAX;
    h->rec_live = 0;
    vh_unpoison(h->recmem, sizeof h->recmem);
    if (h->recycle) {
        memset(h->recmem, 0xA5, sizeof h->recmem);
        vh_poison(h->recmem, sizeof h->recmem);
    }
    /* every second instance uses a slab-type allocator */
    if ((rp_setup_toggle++ + vh_unit_salt) & 1u)
        h->alloc = (BlockAllocator)MAKE_SLAB_BLOCKALLOC(h, rp_slab_alloc_cb, rp_free_cb, blocksize);
    else
        h->alloc = (BlockAllocator)MAKE_GENERIC_BLOCKALLOC(h, rp_alloc_cb, rp_free_cb, blocksize);
    regp_init(&h->p);
    Source src;
    Sink snk;
    if (h->winsize) {
        chunk_source_init(&src, rp_src_chunk, h);
        src.ext.getbuffer = rp_getbuffer;
    } else {
        octet_source_init(&src, rp_src_octet, h);
    }
    if (h->out_octet)
        octet_sink_init(&snk, rp_sink_octet, h);
    else
        chunk_sink_init(&snk, rp_sink_chunk, h);
    /* memory, channel and allocator are independent settings: they are made in each of the six possible orders */
    {
        static const unsigned char order[6][3] = { { 0, 1, 2 }, { 0, 2, 1 }, { 1, 0, 2 }, { 1, 2, 0 }, { 2, 0, 1 }, { 2, 1, 0 } };
        const unsigned char *o = order[(rp_setup_toggle + vh_unit_salt / 16) % 6];
        for (int k = 0; k < 3; k++) {
            if (o[k] == 0) {
                if (mem16)
                    regp_use_memory16(&h->p, rp_r16, rp_w16);
                else
                    regp_use_memory8(&h->p, rp_r8, rp_w8);
            } else if (o[k] == 1) {
                regp_use_channel(&h->p, serial ? RP_EP_SERIAL : RP_EP_TCP, src, snk);
            } else {
                regp_use_allocator(&h->p, &h->alloc);
            }
        }
    }
    rp_cur = h;
}

/* present wire octets to the instance (exact-size arena copy) */
static void
rp_feed(struct rp_h *h, const unsigned char *w, size_t n)
{
    h->in = vh_arena_copy(w, n);
    h->in_n = n;
    h->in_pos = 0;
    h->in_calls = 0;
    h->in_bound = (unsigned)(2 * n + 64);
    h->in_runaway = 0;
}

/* forget blocks that were released properly, so that the ledger does not fill up */
static void
rp_ledger_gc(struct rp_h *h)
{
    int k = 0;
    for (int i = 0; i < h->nblk; i++)
        if (h->blk[i].live)
            h->blk[k++] = h->blk[i];
    h->nblk = k;
}

static const char *rp_respname[] = { "ACK", "EWORDSIZE", "EPAYLOADCRC", "EPAYLOADSIZE", "ERXOVERFLOW", "ETXOVERFLOW",
                                     "EBUSY", "EUNMAPPED", "EACCESS", "ERANGE", "EINVALID", "EIO" };

/* does response code c carry a 32-bit payload (doc section 3.1)? */
static int
rp_code_has_payload(unsigned c)
{
    return c == 4 || c == 5 || c == 7 || c == 8 || c == 9 || c == 10;
}

#endif
