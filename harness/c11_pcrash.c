/* C11 - interrupted or failing stores never validate a mixed image silently.
 *
 * Part A (crash points): run an operation on a valid medium, record the
 * write log, then build offline every medium image reachable by cutting
 * after any prefix of the writes, with the last write torn at every octet,
 * and validate each on a fresh instance. Part B (faults): the k-th medium
 * access of every operation fails or transfers short, for every k. */
#include "ps_common.h"

const char *harness_name = "c11_pcrash";

static void
img(unsigned char *p, size_t n, unsigned salt)
{
    for (size_t i = 0; i < n; i++)
        p[i] = (unsigned char)(((i + 3) * 29u) ^ (salt * 57u) ^ (i >> 2));
}

struct cfg {
    size_t size;
    uint32_t place;
    int ck;
    int with_aux;
    size_t auxsize;
};

enum { OP_STORE, OP_STORE_PART, OP_RESET, OP_VALIDATE, OP_FETCH, OP_FETCH_PART, NOPS };
static const char *opname[] = { "store", "store_part", "reset", "validate", "fetch", "fetch_part" };

#define PC_MAX 70100
static unsigned char imgA[PC_MAX], imgB[PC_MAX], part[PC_MAX];

static PersistentAccess
run_op(PersistentStorage *st, int op, size_t off, size_t n, unsigned char *dst)
{
    switch (op) {
    case OP_STORE: return persistent_store(st, imgB);
    case OP_STORE_PART: return persistent_store_part(st, part, off, n);
    case OP_RESET: return persistent_reset(st, 0x5A);
    case OP_VALIDATE: return persistent_validate(st);
    case OP_FETCH: return persistent_fetch(dst, st);
    default: return persistent_fetch_part(dst, st, off, n);
    }
}

static const char *
cfgkey(const struct cfg *c, int op)
{
    static char k[96];
    snprintf(k, sizeof k, "op=%s checksum=%s aux=%s", opname[op], ps_ckname[c->ck], c->with_aux ? "yes" : "none");
    return k;
}

/* prepare a medium holding the valid image A */
static int prepare_validates; /* faults(): the instance validates its medium before the operation under test */

static void
prepare(const struct cfg *c, PersistentStorage *st, unsigned char **aux)
{
    vh_arena_reset();
    size_t cks = ps_cksize(c->ck);
    ps_medium_setup(c->place, cks + c->size);
    memset(ps_medium, 0xEE, cks + c->size);
    *aux = c->with_aux ? vh_arena(c->auxsize) : NULL;
    ps_configure(st, c->size, c->place, c->ck, *aux, c->auxsize, c->with_aux);
    if (persistent_store(st, imgA) != PERSISTENT_ACCESS_SUCCESS || !ps_medium_consistent(c->ck, c->size))
        vh_broken("could not prepare a valid medium (size=%zu)", c->size);
    /* the instance has seen its medium validate before the operation under test (it lives on after an I/O error,
     * unlike after a crash) */
    if (prepare_validates && persistent_validate(st) != PERSISTENT_ACCESS_SUCCESS)
        vh_broken("the prepared medium does not validate (size=%zu)", c->size);
    ps_log_reset();
}

static uint64_t ncase;

/* validate a constructed medium image on a fresh instance */
static void
judge_image(const struct cfg *c, const unsigned char *image, int op, const char *what, int whole_write,
            const unsigned char *newimg)
{
    size_t cks = ps_cksize(c->ck), total = cks + c->size;
    vh_arena_reset();
    ps_medium_setup(c->place, total);
    memcpy(ps_medium, image, total);
    unsigned char *aux = c->with_aux ? vh_arena(c->auxsize) : NULL;
    PersistentStorage st;
    ps_configure(&st, c->size, c->place, c->ck, aux, c->auxsize, c->with_aux);
    PersistentAccess v = persistent_validate(&st);
    int consistent = ps_medium_consistent(c->ck, c->size);
    const char *key = cfgkey(c, op);
    ncase++;
    if (consistent)
        VH_COUNT("crash image: checksum matches data (validation must succeed)");
    else
        VH_COUNT("crash image: checksum does not match data (validation must fail)");
    if ((v == PERSISTENT_ACCESS_SUCCESS) != consistent
        || (v != PERSISTENT_ACCESS_SUCCESS && v != PERSISTENT_ACCESS_INVALID_DATA)) {
        vh_fail("validates-mixed-image", key, "size=%zu place=%u aux=%zu %s: validate=%d, medium %s (image %s)", c->size,
                c->place, c->auxsize, what, v, consistent ? "consistent" : "inconsistent", vh_hex(image, total > 64 ? 64 : total));
        return;
    }
    if (v == PERSISTENT_ACCESS_SUCCESS && whole_write && newimg) {
        unsigned char *dst = vh_arena(c->size);
        PersistentAccess f = persistent_fetch(dst, &st);
        int isA = memcmp(dst, imgA, c->size) == 0, isB = memcmp(dst, newimg, c->size) == 0;
        if (f != PERSISTENT_ACCESS_SUCCESS || !(isA || isB))
            vh_fail("valid-but-neither-old-nor-new", key, "size=%zu %s: fetch rc=%d data %s", c->size, what, f,
                    vh_hex(dst, c->size > 64 ? 64 : c->size));
        else if (isA && !isB)
            VH_COUNT("crash image validates and holds the previous image");
        else
            VH_COUNT("crash image validates and holds the new image");
    }
}

static void
crash_points(const struct cfg *c, int op, size_t off, size_t n)
{
    PersistentStorage st;
    unsigned char *aux;
    prepare_validates = 0;
    prepare(c, &st, &aux);
    size_t cks = ps_cksize(c->ck), total = cks + c->size;
    static unsigned char m0[PC_MAX], cur[PC_MAX], cut[PC_MAX], newimg[PC_MAX];
    memcpy(m0, ps_medium, total);
    PersistentAccess rc = run_op(&st, op, off, n, NULL);
    if (rc != PERSISTENT_ACCESS_SUCCESS) {
        vh_fail("fault-free-op-fails", cfgkey(c, op), "size=%zu rc=%d", c->size, rc);
        return;
    }
    if (ps_log_overflow) {
        vh_broken("access log overflow (size=%zu aux=%zu)", c->size, c->auxsize);
        return;
    }
    /* copy the write log (judge_image reuses the medium and its log) */
    static struct ps_access wl[PS_MAXLOG];
    static unsigned char wd[sizeof ps_wdata];
    size_t nw = 0;
    for (size_t i = 0; i < ps_nlog; i++)
        if (ps_log[i].write)
            wl[nw++] = ps_log[i];
    memcpy(wd, ps_wdata, ps_nwdata);
    /* the complete new data image */
    memset(newimg, 0x5A, c->size);
    if (op != OP_RESET)
        memcpy(newimg, imgA, c->size);
    if (op == OP_STORE)
        memcpy(newimg, imgB, c->size);
    else if (op == OP_STORE_PART)
        memcpy(newimg + off, part, n);
    memcpy(cur, m0, total);
    char what[160];
    int data_written = 0;
    for (size_t j = 0; j <= nw; j++) {
        /* cut after j complete writes */
        snprintf(what, sizeof what, "%s(off=%zu,n=%zu) cut after %zu of %zu writes", opname[op], off, n, j, nw);
        VH_SUB(4, j);
        VH_SUB(5, 0);
        if (j > 0 && j < nw && data_written && wl[j].addr == c->place)
            VH_COUNT("cut between the data write and the checksum write");
        judge_image(c, cur, op, what, 1, op == OP_RESET ? NULL : newimg);
        if (j == nw)
            break;
        const struct ps_access *w = &wl[j];
        if (w->addr >= c->place + cks)
            data_written = 1;
        for (size_t t = 1; t < w->len; t++) {
            /* long writes: tear positions around the 8- and 16-bit boundaries, the ends and a stride */
            if (w->len > 300 && !(t <= 2 || t + 2 >= w->len || (t >= 254 && t <= 257) || (t >= 65534 && t <= 65537) || t % 9973 == 0))
                continue;
            memcpy(cut, cur, total);
            memcpy(cut + (w->addr - c->place), wd + w->dataoff, t);
            snprintf(what, sizeof what, "%s(off=%zu,n=%zu) write %zu of %zu (addr=%u len=%zu) torn after %zu octets",
                     opname[op], off, n, j + 1, nw, w->addr, w->len, t);
            VH_SUB(5, t);
            if (w->addr == c->place)
                VH_COUNT("torn checksum write");
            else
                VH_COUNT("torn data write");
            judge_image(c, cut, op, what, 0, NULL);
        }
        memcpy(cur + (w->addr - c->place), wd + w->dataoff, w->len);
    }
}

static void
faults(const struct cfg *c, int op, size_t off, size_t n)
{
    PersistentStorage st;
    unsigned char *aux;
    static unsigned nfaults;
    prepare_validates = (int)(++nfaults & 1u);
    /* fault-free run to learn the number of accesses */
    prepare(c, &st, &aux);
    unsigned char *dst = vh_arena(c->size);
    PersistentAccess rc0 = run_op(&st, op, off, n, dst);
    size_t naccess = ps_nlog;
    const char *key0 = cfgkey(c, op);
    if (rc0 != PERSISTENT_ACCESS_SUCCESS) {
        vh_fail("fault-free-op-fails", key0, "size=%zu rc=%d", c->size, rc0);
        return;
    }
    for (size_t k = 0; k < naccess; k++)
        for (int shrt = 0; shrt < 3; shrt++) {
            prepare(c, &st, &aux);
            dst = vh_arena(c->size);
            ps_fault_at = (long)k;
            ps_fault_short = shrt;
            VH_SUB(4, k);
            VH_SUB(5, shrt);
            PersistentAccess rc = run_op(&st, op, off, n, dst);
            ps_fault_at = -1;
            ncase++;
            if (!ps_fault_fired) {
                vh_fail("fault-not-reached", key0, "size=%zu access %zu of %zu", c->size, k, naccess);
                continue;
            }
            const struct ps_access *a = &ps_log[k];
            if (a->done == a->len)
                continue; /* a zero-length access cannot fail visibly */
            char key[128];
            static const char *const mode[] = { "fail", "short", "minus-one" }, *const modec[] = { "fails", "short", "reports (size_t)-1" };
            snprintf(key, sizeof key, "%s fault=%s-%s", key0, ps_fault_was_write ? "write" : "read", mode[shrt]);
            vh_countf("fault injected: %s %s %s", opname[op], ps_fault_was_write ? "write" : "read", modec[shrt]);
            if (rc != PERSISTENT_ACCESS_IO_ERROR)
                vh_fail("fault-not-reported", key,
                        "size=%zu place=%u aux=%zu (off=%zu,n=%zu): access %zu of %zu (addr=%u len=%zu moved %zu): rc=%d",
                        c->size, c->place, c->auxsize, off, n, k, naccess, a->addr, a->len, a->done, rc);
            if (ps_nlog > k + 1 && op != OP_RESET) {
                /* carrying on after the failure is not forbidden by the statement, but worth counting */
                VH_COUNT("accesses after the injected fault");
            }
            /* whatever the fault left behind must not validate unless it is consistent */
            static unsigned char image[PC_MAX];
            size_t total = ps_cksize(c->ck) + c->size;
            memcpy(image, ps_medium, total);
            /* a store that failed while writing data must not go on to seal what it left: if the medium holds neither
             * the previous nor the new image and nevertheless carries a checksum that matches, then that checksum must
             * be the one that was there before (a chance collision), not a freshly written one */
            if ((op == OP_STORE || op == OP_STORE_PART) && ps_fault_was_write && a->addr >= c->place + ps_cksize(c->ck)) {
                size_t cks = ps_cksize(c->ck);
                static unsigned char newimg[PC_MAX];
                memcpy(newimg, imgA, c->size);
                if (op == OP_STORE)
                    memcpy(newimg, imgB, c->size);
                else
                    memcpy(newimg + off, part, n);
                uint32_t oldsum = ps_ref(c->ck, imgA, c->size);
                int is_old = memcmp(image + cks, imgA, c->size) == 0, is_new = memcmp(image + cks, newimg, c->size) == 0;
                VH_COUNT("store failing in a data write: medium inspected");
                if (!is_old && !is_new && ps_medium_consistent(c->ck, c->size) && ps_stored_sum(c->ck) != oldsum)
                    vh_fail("mixed-image-sealed", key, "size=%zu place=%u aux=%zu (off=%zu,n=%zu): access %zu (addr=%u len=%zu moved %zu) failed, "
                            "rc=%d; the medium now holds neither the previous nor the new image, with a newly written checksum %x that "
                            "matches it", c->size, c->place, c->auxsize, off, n, k, a->addr, a->len, a->done, rc, ps_stored_sum(c->ck));
            }
            /* the instance that met the fault lives on: its own verdict on the medium it left behind, then that of a
             * fresh instance */
            if (prepare_validates) {
                int consistent = ps_medium_consistent(c->ck, c->size);
                PersistentAccess v2 = persistent_validate(&st);
                if ((v2 == PERSISTENT_ACCESS_SUCCESS) != consistent)
                    vh_fail("validates-mixed-image", key, "size=%zu place=%u aux=%zu (off=%zu,n=%zu): access %zu of %zu failed (rc=%d); the same "
                            "instance, which had validated the medium before, now says validate=%d, medium %s", c->size, c->place, c->auxsize,
                            off, n, k, naccess, rc, v2, consistent ? "consistent" : "inconsistent");
                VH_COUNT("medium validated again by the instance that met the fault");
            }
            judge_image(c, image, op, "medium after an injected fault", 0, NULL);
        }
}

static void
u_cfg(uint64_t idx, void *arg)
{
    (void)arg;
    vh_rng r;
    vh_unit_rng(&r, "cfg", idx);
    struct cfg c;
    c.size = (size_t)(idx & 0xff);
    c.ck = (int)((idx >> 11) & 3);
    c.place = ps_place_of((int)((idx >> 8) & 7), c.ck, c.size);
    if (((idx >> 8) & 7) == 4)
        VH_COUNT("placement with the last octet at the top of the address space");
    ncase = 0;
    img(imgA, c.size, 1);
    img(imgB, c.size, 2);
    static const size_t auxes_quick[] = { 0, 1, 2, 3, 5 };
    for (size_t ai = 0; ai <= c.size + 5; ai++) {
        /* ai == 0: no aux buffer; otherwise aux size ai */
        if (!vh_tier) {
            int keep = 0;
            for (size_t q = 0; q < sizeof auxes_quick / sizeof auxes_quick[0]; q++)
                keep |= ai == auxes_quick[q];
            keep |= ai == c.size || ai == c.size + 1 || ai == c.size + 2 || ai == c.size + 4 || ai == c.size + 5;
            if (!keep)
                continue;
        } else if (c.size > 16 && !(ai <= 4 || ai + 2 >= c.size || ai % 5 == 0)) {
            continue;
        }
        c.with_aux = ai > 0;
        c.auxsize = ai;
        VH_CASE4(c.size, c.place, c.ck, ai);
        crash_points(&c, OP_STORE, 0, c.size);
        crash_points(&c, OP_RESET, 0, 0);
        faults(&c, OP_STORE, 0, c.size);
        faults(&c, OP_RESET, 0, 0);
        faults(&c, OP_VALIDATE, 0, 0);
        faults(&c, OP_FETCH, 0, c.size);
        /* the same for images that end in zero octets (padding, a blank tail) and for the all-zero image: what an
         * additive checksum has summed up before a read fails already equals the stored checksum there */
        {
            static unsigned char keep[PC_MAX];
            memcpy(keep, imgA, c.size);
            memset(imgA + c.size / 2, 0, c.size - c.size / 2);
            faults(&c, OP_VALIDATE, 0, 0);
            faults(&c, OP_STORE_PART, 0, c.size / 2 ? c.size / 2 : 1);
            memset(imgA, 0, c.size);
            faults(&c, OP_VALIDATE, 0, 0);
            memcpy(imgA, keep, c.size);
            VH_COUNT("faults on images with a zero tail and on the all-zero image");
        }
        /* partial windows */
        for (size_t off = 0; off < c.size; off++)
            for (size_t n = 1; off + n <= c.size; n++) {
                int boundary = off == 0 || off + n == c.size || n == 1;
                if (c.size > 6 && !(boundary && vh_chance(&r, 1, 3)) && !vh_chance(&r, 1, vh_tier ? 10 : 40))
                    continue;
                if (off == 0 && n == c.size)
                    continue;
                img(part, n, (unsigned)(off * 7 + n));
                crash_points(&c, OP_STORE_PART, off, n);
                faults(&c, OP_STORE_PART, off, n);
                faults(&c, OP_FETCH_PART, off, n);
            }
        vh_sig(idx ^ ((uint64_t)ai << 40));
    }
    *vh_ncases += ncase;
    if (idx == 5)
        vh_sample("config", "data size 5 at placement 0, default checksum: store/reset/partial stores cut after every "
                            "write prefix and torn at every octet; every medium access of store, store_part, reset, "
                            "validate, fetch, fetch_part failing or transferring one octet short");
}

/* data sizes beyond 255 and 65535 octets with auxiliary buffers large enough to keep the access count small */
static void
u_big(uint64_t idx, void *arg)
{
    (void)arg;
    static const size_t sizes[] = { 300, 65536, 65539 };
    struct cfg c;
    c.size = sizes[idx % 3];
    c.ck = (int)((idx / 3) % NCK);
    c.place = (idx / 9) & 1 ? (uint32_t)(0u - (uint32_t)(ps_cksize(c.ck) + c.size)) : 7u;
    ncase = 0;
    img(imgA, c.size, 1);
    img(imgB, c.size, 2);
    const size_t auxes[] = { 4096, 65535, 65536, c.size + 1 };
    for (size_t ai = 0; ai < 4; ai++) {
        if (!vh_tier && ai != (idx + 1) % 4 && ai != 0)
            continue;
        c.with_aux = 1;
        c.auxsize = auxes[ai];
        VH_CASE4(c.size, c.place, c.ck, c.auxsize);
        crash_points(&c, OP_STORE, 0, c.size);
        crash_points(&c, OP_RESET, 0, 0);
        faults(&c, OP_STORE, 0, c.size);
        faults(&c, OP_RESET, 0, 0);
        faults(&c, OP_VALIDATE, 0, 0);
        faults(&c, OP_FETCH, 0, c.size);
        size_t off = c.size / 3, n = c.size / 2;
        img(part, n, 77);
        crash_points(&c, OP_STORE_PART, off, n);
        faults(&c, OP_STORE_PART, off, n);
        faults(&c, OP_FETCH_PART, off, n);
        vh_sig(0x11b00000ull ^ idx ^ ((uint64_t)ai << 40));
    }
    *vh_ncases += ncase;
    vh_countf("large data size %zu", c.size);
}

/* large data sizes with no auxiliary buffer or a tiny one: the checksum over the medium takes tens of thousands of
 * accesses (only the writes are recorded; crash points of stores, no fault injection) */
static void
u_manyreads(uint64_t idx, void *arg)
{
    (void)arg;
    static const struct { size_t size, aux; } v[] = { { 40000, 0 }, { 40000, 1 }, { 65539, 0 }, { 65539, 2 }, { 33000, 0 }, { 70000, 2 } };
    struct cfg c;
    c.size = v[idx % 6].size;
    c.ck = (int)((idx / 6) % NCK);
    c.place = 7u;
    c.with_aux = v[idx % 6].aux > 0;
    c.auxsize = v[idx % 6].aux;
    ncase = 0;
    img(imgA, c.size, 1);
    img(imgB, c.size, 2);
    /* the second image differs from the first only towards the end in every second unit */
    if ((idx / 6) & 1)
        memcpy(imgB, imgA, c.size - 3000);
    ps_log_reads = 0;
    ps_log_overflow = 0;
    VH_CASE4(c.size, c.place, c.ck, c.auxsize);
    crash_points(&c, OP_STORE, 0, c.size);
    size_t off = c.size - 5000, n = 3000;
    img(part, n, 78);
    crash_points(&c, OP_STORE_PART, off, n);
    ps_log_reads = 1;
    *vh_ncases += ncase;
    vh_sig(0x11c00000ull ^ idx);
    VH_COUNT("large data size read in tens of thousands of accesses");
}

void
harness_run(void)
{
    for (uint64_t i = 0; i < 18; i++)
        vh_unit("big", i, u_big, NULL);
    for (uint64_t i = 0; i < (vh_tier ? 6u * NCK * 2 : 12u); i++)
        vh_unit("manyreads", i, u_manyreads, NULL);
    vh_require("large data size read in tens of thousands of accesses");
    vh_require("large data size 65536");
    static const size_t quick_sizes[] = { 1, 2, 3, 5, 8, 9, 16, 17, 33 };
    static const size_t thorough_sizes[] = { 1, 2, 3, 4, 5, 6, 7, 8, 9, 12, 15, 16, 17, 24, 31, 32, 33, 40, 64, 65, 100, 130 };
    const size_t *sizes = vh_tier ? thorough_sizes : quick_sizes;
    size_t nsizes = vh_tier ? sizeof thorough_sizes / sizeof thorough_sizes[0] : sizeof quick_sizes / sizeof quick_sizes[0];
    for (size_t i = 0; i < nsizes; i++)
        for (uint64_t pl = 0; pl < PS_NPLACES; pl++)
            for (uint64_t ck = 0; ck < NCK; ck++) {
                if (!vh_tier && sizes[i] > 9 && pl != 4 && pl != (sizes[i] + ck) % 4)
                    continue;
                vh_unit("cfg", (uint64_t)sizes[i] | (pl << 8) | (ck << 11), u_cfg, NULL);
            }
    static const char *req[] = { "crash image: checksum matches data (validation must succeed)",
                                 "crash image: checksum does not match data (validation must fail)",
                                 "cut between the data write and the checksum write", "torn checksum write",
                                 "torn data write", "crash image validates and holds the previous image",
                                 "crash image validates and holds the new image",
                                 "fault injected: store write fails", "fault injected: store write short",
                                 "fault injected: store_part read fails", "fault injected: store_part read short",
                                 "fault injected: store_part write fails", "fault injected: reset write short",
                                 "fault injected: validate read fails", "fault injected: validate read short",
                                 "fault injected: fetch read short", "fault injected: fetch_part read fails",
                                 "fault injected: validate read reports (size_t)-1",
                                 "fault injected: store_part read reports (size_t)-1",
                                 "fault injected: store write reports (size_t)-1",
                                 "fault injected: reset write reports (size_t)-1",
                                 "placement with the last octet at the top of the address space",
                                 "store failing in a data write: medium inspected" };
    for (size_t i = 0; i < sizeof req / sizeof req[0]; i++)
        vh_require(req[i]);
    vh_require("medium validated again by the instance that met the fault");
}
