/* Shared by C10 and C11: a medium with access log and fault injection, the
 * checksum algorithms and their independent references, configuration grid. */
#ifndef PS_COMMON_H
#define PS_COMMON_H

#include "common/vh.h"

#include <unistd.h>

#include <ufw/crc/crc16-arc.h>
#include <ufw/persistent-storage.h>

/* ---- medium ---- */
#define PS_MAXLOG 4096
struct ps_access {
    int write;
    uint32_t addr;
    size_t len;
    size_t done;      /* octets actually transferred */
    size_t dataoff;   /* offset of the written octets in ps_wdata */
};

static unsigned char *ps_medium; /* exact-size arena block holding the region only */
static uint32_t ps_base;         /* medium address of its first octet */
static size_t ps_len;
static struct ps_access ps_log[PS_MAXLOG];
static size_t ps_nlog;
static unsigned char ps_wdata[1 << 18];
static size_t ps_nwdata;
static int ps_outside;           /* an access left the region */
static unsigned ps_calls, ps_call_bound;
static int ps_log_reads = 1, ps_log_overflow;
static size_t ps_page; /* > 0: a write never crosses a multiple of ps_page (a page writer that reports the short count) */
static unsigned ps_page_cuts;
static int ps_runaway;
/* fault injection: the ps_fault_at-th access (0-based, reads and writes counted together) fails */
static long ps_fault_at = -1;
static int ps_fault_short;       /* 0: transfers nothing, 1: transfers n-1, 2: transfers nothing and returns (size_t)-1 */
static int ps_fault_fired;
static int ps_fault_was_write;

static void
ps_medium_setup(uint32_t base, size_t len)
{
    ps_medium = vh_arena(len);
    ps_base = base;
    ps_len = len;
    ps_nlog = 0;
    ps_nwdata = 0;
    ps_outside = 0;
    ps_calls = 0;
    ps_call_bound = (unsigned)(6 * len + 64);
    ps_runaway = 0;
    ps_fault_at = -1;
    ps_fault_fired = 0;
}

static void
ps_log_reset(void)
{
    ps_nlog = 0;
    ps_nwdata = 0;
    ps_calls = 0;
    ps_fault_fired = 0;
    ps_log_overflow = 0;
}

static size_t
ps_access(int write, uint32_t addr, void *rbuf, const void *wbuf, size_t n)
{
    if (++ps_calls > ps_call_bound) {
        /* The library keeps calling although nothing can make progress any
         * more (a zero-length transfer "succeeds" forever): report and end
         * this unit - no return value can stop such a loop. */
        ps_runaway = 1;
        vh_fail("no-progress", "where=medium-callback",
                "more than %u medium accesses in one operation (last: %s addr=%u len=%zu)", ps_call_bound,
                write ? "write" : "read", addr, n);
        _exit(0);
    }
    size_t idx = ps_nlog;
    size_t todo = n;
    if (ps_page && write && n > ps_page - addr % ps_page) {
        todo = ps_page - addr % ps_page;
        ps_page_cuts++;
    }
    if (ps_fault_at >= 0 && (long)idx == ps_fault_at) {
        ps_fault_fired = 1;
        ps_fault_was_write = write;
        todo = (ps_fault_short == 1 && n > 0) ? n - 1 : 0;
    }
    /* what the callback reports: the octets moved, or - the way a driver forwards a failing pread()/pwrite() -
     * (size_t)-1 */
    const size_t report_minus_one = ps_fault_at >= 0 && (long)idx == ps_fault_at && ps_fault_short == 2;
    uint64_t lo = addr, hi = (uint64_t)addr + n;
    /* a zero-length access touches nothing, wherever its (possibly wrapped) address points */
    int inside = n == 0 || (n <= ps_len && lo >= ps_base && hi <= (uint64_t)ps_base + ps_len);
    if (!inside)
        ps_outside = 1;
    if (!write && !ps_log_reads) {
        /* operations with tens of thousands of reads: only the writes are kept (no fault injection then) */
    } else if (ps_nlog >= PS_MAXLOG) {
        ps_log_overflow = 1;
    } else {
        struct ps_access *a = &ps_log[ps_nlog++];
        a->write = write;
        a->addr = addr;
        a->len = n;
        a->done = todo;
        a->dataoff = ps_nwdata;
        if (write && ps_nwdata + todo <= sizeof ps_wdata && inside) {
            memcpy(ps_wdata + ps_nwdata, wbuf, todo);
            ps_nwdata += todo;
        }
    }
    if (!inside || n == 0)
        return report_minus_one ? (size_t)-1 : todo; /* pretend, without touching memory */
    if (write)
        memcpy(ps_medium + (addr - ps_base), wbuf, todo);
    else
        memcpy(rbuf, ps_medium + (addr - ps_base), todo);
    return report_minus_one ? (size_t)-1 : todo;
}

static size_t
ps_read(void *dst, uint32_t addr, size_t n)
{
    return ps_access(0, addr, dst, NULL, n);
}

static size_t
ps_write(uint32_t addr, const void *src, size_t n)
{
    return ps_access(1, addr, NULL, src, n);
}

/* ---- checksum algorithms handed to the library ---- */
static uint16_t
ps_crc16(const unsigned char *d, size_t n, uint16_t init)
{
    return ufw_crc16_arc(init, d, n);
}

static uint32_t
ps_sum32(const unsigned char *d, size_t n, uint32_t init)
{
    for (size_t i = 0; i < n; i++)
        init = ((init << 5) | (init >> 27)) + d[i] + 0x9e3779b9u;
    return init;
}

/* initial value of the 32-bit algorithm (a unit may choose it so that an image gets a particular checksum) */
static uint32_t ps_sum32_init = 0x12345678u;

/* ---- independent references ---- */
enum { CK_DEFAULT, CK_CRC16, CK_SUM32, NCK };
static const char *ps_ckname[] = { "default-sum16", "crc16-arc", "sum32" };

static uint32_t
ps_ref(int ck, const unsigned char *d, size_t n)
{
    if (ck == CK_DEFAULT) {
        uint32_t s = 0;
        for (size_t i = 0; i < n; i++)
            s += d[i];
        return s & 0xffffu;
    }
    if (ck == CK_CRC16) {
        uint16_t crc = 0;
        for (size_t i = 0; i < n; i++) {
            crc ^= d[i];
            for (int b = 0; b < 8; b++)
                crc = (crc & 1u) ? (uint16_t)((crc >> 1) ^ 0xA001u) : (uint16_t)(crc >> 1);
        }
        return crc;
    }
    return ps_sum32(d, n, ps_sum32_init);
}

static size_t
ps_cksize(int ck)
{
    return ck == CK_SUM32 ? 4 : 2;
}

/* checksum field as stored on the medium (native = little endian here) */
static uint32_t
ps_stored_sum(int ck)
{
    uint32_t v = 0;
    for (size_t i = 0; i < ps_cksize(ck); i++)
        v |= (uint32_t)ps_medium[i] << (8 * i);
    return v;
}

static int
ps_medium_consistent(int ck, size_t datasize)
{
    return ps_ref(ck, ps_medium + ps_cksize(ck), datasize) == ps_stored_sum(ck);
}

/* the library's default algorithm, for histories that switch back to it */
static uint16_t
ps_triv16(const unsigned char *d, size_t n, uint16_t init)
{
    for (size_t i = 0; i < n; i++)
        init = (uint16_t)(init + d[i]);
    return init;
}

/* optional set-up history: steps executed on the instance after persistent_init and before the final
 * configuration calls; the last placement and the last checksum selection are what counts */
enum { PH_PLACE, PH_SUM, PH_BUFFER };
static struct {
    int op;
    uint32_t arg;
} ps_hist[12];
static int ps_hist_n;
static unsigned char ps_hist_buf[8];

static void
ps_select_sum(PersistentStorage *st, int ck, int explicit_default)
{
    if (ck == CK_CRC16)
        persistent_sum16(st, ps_crc16, 0);
    else if (ck == CK_SUM32)
        persistent_sum32(st, ps_sum32, ps_sum32_init);
    else if (explicit_default)
        persistent_sum16(st, ps_triv16, 0);
}

/* configure an instance over the current medium */
static void
ps_configure(PersistentStorage *st, size_t datasize, uint32_t place, int ck, unsigned char *aux, size_t auxsize,
             int with_aux)
{
    persistent_init(st, datasize, ps_read, ps_write);
    if (ps_hist_n > 0) {
        /* the caller made the history end in this placement and this checksum, in either order */
        for (int i = 0; i < ps_hist_n; i++) {
            if (ps_hist[i].op == PH_PLACE)
                persistent_place(st, ps_hist[i].arg);
            else if (ps_hist[i].op == PH_SUM)
                ps_select_sum(st, (int)ps_hist[i].arg, 1);
            else
                persistent_buffer(st, ps_hist_buf, ps_hist[i].arg);
        }
        persistent_buffer(st, with_aux ? aux : NULL, with_aux ? auxsize : 0);
        return;
    }
    ps_select_sum(st, ck, 0);
    persistent_place(st, place);
    if (with_aux)
        persistent_buffer(st, aux, auxsize);
}

static const uint32_t ps_places[4] = { 0, 1, 7, 4093 };
#define PS_NPLACES 5
/* placement i: the four small ones, or the region's last octet at the very top of the medium's address space */
static uint32_t
ps_place_of(int i, int ck, size_t datasize)
{
    if (i < 4)
        return ps_places[i];
    return (uint32_t)(0u - (uint32_t)(ps_cksize(ck) + datasize));
}

#endif
