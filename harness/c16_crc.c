/* C16 - the checksum is CRC-16/ARC for every input.
 *
 * Oracle: bitwise definition (reflected polynomial 0x8005 = 0xA001, initial
 * value as given, no final xor), independent of the table in ufw. */
#include "common/vh.h"

#include <ufw/crc/crc16-arc.h>

const char *harness_name = "c16_crc";

static uint16_t
ref_crc_octet(uint16_t crc, uint8_t o)
{
    crc ^= o;
    for (int i = 0; i < 8; i++)
        crc = (crc & 1u) ? (uint16_t)((crc >> 1) ^ 0xA001u) : (uint16_t)(crc >> 1);
    return crc;
}

static uint16_t
ref_crc(uint16_t crc, const uint8_t *p, size_t n)
{
    for (size_t i = 0; i < n; i++)
        crc = ref_crc_octet(crc, p[i]);
    return crc;
}

/* all (state, octet) pairs for states [idx*256, idx*256+256) */
static void
u_step(uint64_t idx, void *arg)
{
    (void)arg;
    uint8_t *o = vh_arena(1);
    for (unsigned s = (unsigned)idx * 256u; s < (unsigned)idx * 256u + 256u; s++) {
        for (unsigned b = 0; b < 256; b++) {
            VH_CASE2(s, b);
            *o = (uint8_t)b;
            uint16_t got = ufw_crc16_arc((uint16_t)s, o, 1);
            uint16_t exp = ref_crc_octet((uint16_t)s, (uint8_t)b);
            if (got != exp)
                vh_fail("step", "api=ufw_crc16_arc", "state=%04x octet=%02x got=%04x exp=%04x", s, b, got, exp);
            VH_COUNT("step pairs compared");
        }
        vh_sig(0x1000000u | s);
    }
    if (idx == 0) {
        /* the well-known check value */
        uint16_t c = ufw_buffer_crc16_arc("123456789", 9);
        if (c != 0xBB3D)
            vh_fail("checkvalue", "api=ufw_buffer_crc16_arc", "crc(123456789)=%04x exp=bb3d", c);
        if (CRC16_ARC_INITIAL != 0)
            vh_fail("initial", "api=CRC16_ARC_INITIAL", "initial=%04x", (unsigned)CRC16_ARC_INITIAL);
        VH_COUNT("check value compared");
        vh_sample("step", "state=0x1234 octet=0x56 -> %04x (ref %04x)",
                  ufw_crc16_arc(0x1234, "\x56", 1), ref_crc_octet(0x1234, 0x56));
    }
}

/* all two-octet buffers from state idx (thorough) */
static void
u_two(uint64_t idx, void *arg)
{
    (void)arg;
    uint8_t *o = vh_arena(2);
    uint16_t s = (uint16_t)idx;
    for (unsigned v = 0; v < 65536; v++) {
        VH_CASE2(s, v);
        o[0] = (uint8_t)(v >> 8);
        o[1] = (uint8_t)v;
        uint16_t got = ufw_crc16_arc(s, o, 2);
        uint16_t exp = ref_crc(s, o, 2);
        if (got != exp)
            vh_fail("two", "api=ufw_crc16_arc", "state=%04x buf=%04x got=%04x exp=%04x", s, v, got, exp);
    }
    VH_COUNTN("two-octet buffers compared", 65536);
    vh_sig(0x2000000u | s);
}

/* the word variant's update step: every 16-bit word from state idx, alone, behind a zero word and in front of
 * one (a zero word from a non-zero state is where "nothing to add" shortcuts go wrong) */
static void
u_wstep(uint64_t idx, void *arg)
{
    (void)arg;
    uint16_t *w1 = vh_arena(2), *w2 = vh_arena(4);
    uint16_t s = (uint16_t)idx;
    for (unsigned v = 0; v < 65536; v++) {
        VH_CASE2(s, v);
        w1[0] = (uint16_t)v;
        uint16_t got = ufw_crc16_arc_u16(s, w1, 1);
        uint16_t exp = ref_crc(s, (const uint8_t *)w1, 2);
        if (got != exp)
            vh_fail("word-step", "api=ufw_crc16_arc_u16", "state=%04x word=%04x got=%04x exp=%04x", s, v, got, exp);
        for (int lead = 0; lead < 2; lead++) {
            w2[lead] = 0;
            w2[!lead] = (uint16_t)v;
            got = ufw_crc16_arc_u16(s, w2, 2);
            exp = ref_crc(s, (const uint8_t *)w2, 4);
            if (got != exp)
                vh_fail("word-step", "api=ufw_crc16_arc_u16", "state=%04x words=%04x,%04x got=%04x exp=%04x", s, w2[0],
                        w2[1], got, exp);
        }
    }
    VH_COUNTN("word update steps compared", 3 * 65536);
    vh_sig(0x5000000u | s);
}

/* random buffers, split at every position; word variant */
static void
u_buf(uint64_t idx, void *arg)
{
    (void)arg;
    vh_rng r;
    vh_unit_rng(&r, "buf", idx);
    int nbuf = 8;
    for (int k = 0; k < nbuf; k++) {
        vh_arena_reset();
        size_t maxlen = (k == 0) ? 4096 : 700;
        size_t n = (size_t)vh_below(&r, maxlen + 1);
        uint16_t init = (uint16_t)vh_rand(&r);
        if (vh_chance(&r, 1, 4))
            init = 0;
        uint8_t *b = vh_arena(n);
        int mode = (int)vh_below(&r, 4);
        for (size_t i = 0; i < n; i++)
            b[i] = mode == 0 ? 0 : mode == 1 ? 0xff : (uint8_t)vh_rand(&r);
        VH_CASE4(idx, k, n, init);
        uint16_t exp = ref_crc(init, b, n);
        uint16_t got = ufw_crc16_arc(init, b, n);
        if (got != exp)
            vh_fail("buffer", "api=ufw_crc16_arc", "n=%zu init=%04x got=%04x exp=%04x", n, init, got, exp);
        VH_COUNT("random buffers compared");
        /* an empty part may be given as (NULL, 0) - the register protocol does that for an absent payload: the
         * state passes through both variants unchanged, in the middle of a computation as well */
        {
            uint16_t e1 = ufw_crc16_arc(init, NULL, 0), e2 = ufw_crc16_arc_u16(init, NULL, 0);
            size_t cut = n / 2;
            uint16_t a = ufw_crc16_arc(init, b, cut);
            a = ufw_crc16_arc(a, NULL, 0);
            a = ufw_crc16_arc_u16(a, NULL, 0);
            a = ufw_crc16_arc(a, b + cut, n - cut);
            if (e1 != init || e2 != init || a != exp)
                vh_fail("empty-part", "api=ufw_crc16_arc", "n=%zu init=%04x: over (NULL,0) octets -> %04x, words -> %04x; with empty parts "
                        "in the middle %04x, expected %04x", n, init, e1, e2, a, exp);
            VH_COUNT("empty part given as (NULL, 0)");
        }
        if (init == 0) {
            uint16_t g2 = ufw_buffer_crc16_arc(b, n);
            if (g2 != exp)
                vh_fail("buffer", "api=ufw_buffer_crc16_arc", "n=%zu got=%04x exp=%04x", n, g2, exp);
            VH_COUNT("ufw_buffer_crc16_arc compared");
        }
        for (size_t cut = 0; cut <= n; cut++) {
            VH_SUB(4, cut);
            /* place both parts exact-size so that an over-read is seen */
            uint16_t a = ufw_crc16_arc(init, b, cut);
            /* another computation in between: the state of a checksum is its value, nothing else */
            if ((cut & 3) == 1) {
                static const uint8_t other[5] = { 0xff, 0x00, 0xa5, 0x3c, 0xc0 };
                static const uint16_t ow[2] = { 0x1234, 0x0000 };
                volatile uint16_t sinkv = ufw_crc16_arc((uint16_t)cut, other, 1 + cut % 5);
                sinkv = ufw_crc16_arc_u16((uint16_t)(cut * 7u), ow, 1 + cut % 2);
                (void)sinkv;
            }
            uint16_t c = ufw_crc16_arc(a, b + cut, n - cut);
            if (c != exp)
                vh_fail("split", "api=ufw_crc16_arc", "n=%zu cut=%zu init=%04x got=%04x exp=%04x", n, cut, init, c,
                        exp);
            VH_COUNT("split positions compared");
        }
        vh_sig(0x3000000u ^ ((uint64_t)n << 32) ^ init ^ ((uint64_t)mode << 60));
        if (k == 1)
            vh_sample("buffer", "n=%zu init=%04x crc=%04x first=%s", n, init, got, vh_hex(b, n > 16 ? 16 : n));
    }
    /* word variant at every length 0..64 */
    for (size_t n = 0; n <= 64; n++) {
        vh_arena_reset();
        uint16_t *w = vh_arena(n * 2);
        /* content: random, all zero, all ones, mostly zero words, zero words in front / behind */
        int wmode = (int)vh_below(&r, 6);
        for (size_t i = 0; i < n; i++)
            w[i] = wmode == 1 ? 0 : wmode == 2 ? 0xffff : wmode == 3 ? (vh_chance(&r, 1, 4) ? (uint16_t)vh_rand(&r) : 0)
                   : wmode == 4 ? (i < n / 2 ? 0 : (uint16_t)vh_rand(&r))
                   : wmode == 5 ? (i >= n / 2 ? 0 : (uint16_t)vh_rand(&r)) : (uint16_t)vh_rand(&r);
        uint16_t init = (uint16_t)vh_rand(&r);
        if (n % 3 == 0)
            init = 0;
        if (wmode && init)
            VH_COUNT("word buffers with zero words from a non-zero state");
        VH_CASE4(idx, 1000, n, init);
        uint16_t exp = ref_crc(init, (const uint8_t *)w, n * 2);
        uint16_t got = ufw_crc16_arc_u16(init, w, n);
        if (got != exp)
            vh_fail("word", "api=ufw_crc16_arc_u16", "words=%zu init=%04x got=%04x exp=%04x", n, init, got, exp);
        /* and against ufw's own octet variant over the memory image */
        uint16_t o = ufw_crc16_arc(init, w, n * 2);
        if (o != got)
            vh_fail("word-vs-octet", "api=ufw_crc16_arc_u16", "words=%zu init=%04x word=%04x octet=%04x", n, init,
                    got, o);
        if (init == 0) {
            uint16_t g2 = ufw_buffer_crc16_arc_u16(w, n);
            if (g2 != exp)
                vh_fail("word", "api=ufw_buffer_crc16_arc_u16", "words=%zu got=%04x exp=%04x", n, g2, exp);
        }
        /* continuation: the checksum of the first k words continued over the rest */
        for (size_t cut = 0; cut <= n; cut++) {
            uint16_t a = ufw_crc16_arc_u16(init, w, cut);
            uint16_t c = ufw_crc16_arc_u16(a, w + cut, n - cut);
            if (c != exp)
                vh_fail("word-split", "api=ufw_crc16_arc_u16", "words=%zu cut=%zu init=%04x got=%04x exp=%04x", n, cut, init,
                        c, exp);
        }
        VH_COUNT("word buffers compared");
        vh_sig(0x4000000u ^ ((uint64_t)n << 32));
        if (n == 3)
            vh_sample("word", "words=%04x,%04x,%04x init=%04x crc=%04x", w[0], w[1], w[2], init, got);
    }
}

/* long buffers: lengths beyond 255, 65535 and 2^16 words, odd and even addresses */
static void
u_longbuf(uint64_t idx, void *arg)
{
    (void)arg;
    vh_rng r;
    vh_unit_rng(&r, "long", idx);
    static const size_t lens[] = { 255, 256, 257, 4097, 65535, 65536, 65537, 70001, 131072, 200003 };
    size_t n = lens[idx % 10];
    unsigned align = (unsigned)(idx / 10) % 2;
    vh_arena_reset();
    uint8_t *raw = vh_arena(n + 1);
    uint8_t *b = raw + align;
    if (align == 0)
        vh_poison(raw + n, 1);
    for (size_t i = 0; i < n; i++)
        b[i] = (uint8_t)vh_rand(&r);
    uint16_t init = (uint16_t)vh_rand(&r);
    VH_CASE4(idx, n, align, init);
    uint16_t exp = ref_crc(init, b, n);
    uint16_t got = ufw_crc16_arc(init, b, n);
    if (got != exp)
        vh_fail("buffer", "api=ufw_crc16_arc size=long", "n=%zu align=%u init=%04x got=%04x exp=%04x", n, align, init, got, exp);
    static const size_t cuts[] = { 1, 2, 3, 255, 256, 257, 4095, 4096, 65535, 65536, 65537 };
    for (size_t ci = 0; ci < 11; ci++) {
        size_t cut = cuts[ci];
        if (cut > n)
            continue;
        uint16_t a = ufw_crc16_arc(init, b, cut);
        uint16_t c = ufw_crc16_arc(a, b + cut, n - cut);
        if (c != exp)
            vh_fail("split", "api=ufw_crc16_arc size=long", "n=%zu cut=%zu got=%04x exp=%04x", n, cut, c, exp);
        a = ufw_crc16_arc(init, b, n - cut);
        c = ufw_crc16_arc(a, b + n - cut, cut);
        if (c != exp)
            vh_fail("split", "api=ufw_crc16_arc size=long", "n=%zu cut=%zu from the end got=%04x exp=%04x", n, cut, c, exp);
    }
    if (align == 0 && n % 2 == 0) {
        uint16_t w = ufw_crc16_arc_u16(init, (const uint16_t *)(const void *)b, n / 2);
        if (w != exp)
            vh_fail("word", "api=ufw_crc16_arc_u16 size=long", "words=%zu got=%04x exp=%04x", n / 2, w, exp);
    }
    if (align == 0) {
        /* word variant on its own exact block for odd octet counts too */
        size_t words = n / 2;
        uint16_t *wb = vh_arena(words * 2);
        memcpy(wb, b, words * 2);
        uint16_t w = ufw_crc16_arc_u16(init, wb, words);
        if (w != ref_crc(init, b, words * 2))
            vh_fail("word", "api=ufw_crc16_arc_u16 size=long", "words=%zu got=%04x", words, w);
    }
    VH_COUNT("long buffers compared");
    vh_sig(0x5000000u ^ idx);
}

void
harness_run(void)
{
    for (uint64_t i = 0; i < 20; i++)
        vh_unit("long", i, u_longbuf, NULL);
    for (uint64_t i = 0; i < 256; i++)
        vh_unit("step", i, u_step, NULL);
    if (vh_tier) {
        for (uint64_t i = 0; i < 65536; i += (vh_light ? 16 : 1))
            vh_unit("two", i, u_two, NULL);
    } else {
        /* quick: two-octet buffers from 64 seeded states */
        vh_rng r;
        vh_unit_rng(&r, "twosel", 0);
        vh_unit("two", 0, u_two, NULL);
        for (int i = 0; i < 63; i++)
            vh_unit("two", vh_below(&r, 65536), u_two, NULL);
    }
    if (vh_tier) {
        for (uint64_t i = 0; i < 65536; i += (vh_light ? 64 : 4))
            vh_unit("wstep", i, u_wstep, NULL);
    } else {
        vh_rng r;
        vh_unit_rng(&r, "wstepsel", 0);
        vh_unit("wstep", 0, u_wstep, NULL);
        vh_unit("wstep", 1, u_wstep, NULL);
        vh_unit("wstep", 0xffff, u_wstep, NULL);
        for (int i = 0; i < 29; i++)
            vh_unit("wstep", vh_below(&r, 65536), u_wstep, NULL);
    }
    vh_require("word update steps compared");
    vh_require("word buffers with zero words from a non-zero state");
    uint64_t nb = vh_tier ? 4000 : 200;
    for (uint64_t i = 0; i < nb; i++)
        vh_unit("buf", i, u_buf, NULL);
    vh_require("step pairs compared");
    vh_require("two-octet buffers compared");
    vh_require("random buffers compared");
    vh_require("split positions compared");
    vh_require("word buffers compared");
    vh_require("ufw_buffer_crc16_arc compared");
    vh_require("long buffers compared");
}
