/* C01 - typed register set/get is lossless and constraint-enforcing.
 *
 * One register under test between two neighbours, in a memory- or
 * callback-backed area, little- or big-endian, with every constraint kind.
 * Oracle: rt_common.h reference codec + constraint evaluator; the complete
 * storage image is compared after every call. */
#include "rt_common.h"

const char *harness_name = "c01_typed";

struct cfg {
    int type, be, custom, ck;
    RegisterValueU lo, hi;
    int cbkind;
};

static struct rt_inst inst;
static uint64_t nset;

static void
setup(const struct cfg *c, struct rt_desc *d)
{
    memset(d, 0, sizeof *d);
    d->nareas = 1;
    d->bigendian = c->be;
    d->area[0].base = 20;
    d->area[0].size = 1 + rt_tsize[c->type] + 2;
    d->area[0].readable = d->area[0].writeable = 1;
    d->area[0].custom = c->custom;
    d->area[0].has_write = 1;
    /* one configuration in four keeps what its storage holds at start-up (defaults are not loaded there; typed
     * access works all the same) */
    d->area[0].skipdef = ((c->type + 2 * c->be + c->ck + c->custom) % 4) == 1;
    d->nregs = 3;
    d->reg[0].type = REG_TYPE_UINT16;
    d->reg[0].addr = 20;
    d->reg[0].def.u16 = 0x1234;
    d->reg[1].type = c->type;
    d->reg[1].addr = 21;
    d->reg[1].ck = c->ck;
    d->reg[1].lo = c->lo;
    d->reg[1].hi = c->hi;
    d->reg[1].cbkind = c->cbkind;
    /* default: something the constraint accepts */
    RegisterValueU def = rt_from_bits(c->type, 0);
    if (c->ck == REGV_TYPE_MIN || c->ck == REGV_TYPE_RANGE)
        def = c->lo;
    else if (c->ck == REGV_TYPE_MAX)
        def = c->hi;
    d->reg[1].def = def;
    d->reg[2].type = REG_TYPE_SINT32;
    d->reg[2].addr = 21 + rt_tsize[c->type];
    d->reg[2].def.s32 = -559038737;
    /* every second configuration has a second, register-less area behind the populated one (scratch memory):
     * whatever initialisation does per area, it must finish properly when the last areas hold no register */
    if ((c->type + c->ck + c->be) & 1) {
        d->nareas = 2;
        d->area[1].base = d->area[0].base + d->area[0].size + (uint32_t)(c->ck & 1);
        d->area[1].size = 2;
        d->area[1].readable = d->area[1].writeable = 1;
        d->area[1].custom = !c->custom;
        d->area[1].has_write = 1;
    }
}

static const char *
ckey(const struct cfg *c, const char *api)
{
    static char k[128];
    snprintf(k, sizeof k, "api=%s type=%s order=%s backing=%s constraint=%s", api, rt_tname[c->type],
             c->be ? "be" : "le", c->custom ? "callback" : "memory", rt_ckname[c->ck]);
    return k;
}

/* what the device hook does while an unchecked set is at work: a checked set, on the same table, of a value the
 * register's constraint rejects */
static RegisterValue nest_bad;
static int nest_code, nest_calls;

static void
nested_checked_set(void)
{
    RegisterAccess a = register_set(&inst.t, 1, nest_bad);
    nest_code = (int)a.code;
    nest_calls++;
}

/* one typed value through checked set, get, unchecked set */
static void
one_value(const struct cfg *c, uint64_t bits)
{
    const struct rt_reg *r = &inst.d.reg[1];
    RegisterValue v = { .type = (RegisterType)c->type, .value = rt_from_bits(c->type, bits) };
    /* a RegisterValue that was used for a wider type before: two times in three the octets of the union behind the
     * member in use are not zero */
    static unsigned dirt;
    if (++dirt % 3) {
        RegisterValueU d;
        memset(&d, dirt % 3 == 1 ? 0xff : 0xa5, sizeof d);
        switch (c->type) {
        case REG_TYPE_UINT16: d.u16 = v.value.u16; break;
        case REG_TYPE_UINT32: d.u32 = v.value.u32; break;
        case REG_TYPE_SINT16: d.s16 = v.value.s16; break;
        case REG_TYPE_SINT32: d.s32 = v.value.s32; break;
        case REG_TYPE_FLOAT32: d.f32 = v.value.f32; break;
        default: d = v.value; break;
        }
        v.value = d;
    }
    int finite = rt_bits_valid(c->type, bits);
    int accept = finite && rt_satisfies(r, v.value, 0);
    unsigned char *mw = rt_model_word(&inst, r->addr);
    unsigned char enc[8];
    rt_encode(c->type, c->be, bits, enc);
    char ctx[96];
    nset++;

    /* behind a callback the device may refuse the write (one word of the register cannot be programmed): a set that
     * would otherwise be accepted then fails - with whatever code - and nothing is stored; every 16th value */
    if (c->custom && (nset & 15u) == 7u)
        for (int unsafe = 0; unsafe < 2; unsafe++) {
            if (!(unsafe ? finite : accept))
                continue;
            static const int devcodes[] = { REG_ACCESS_IO_ERROR, REG_ACCESS_FAILURE, REG_ACCESS_READONLY };
            rt_cb_fail_area = 0;
            rt_cb_fail_word = r->addr - inst.d.area[0].base + (uint32_t)((nset >> 4) % rt_tsize[c->type]);
            rt_cb_fail_code = devcodes[(nset >> 6) % 3];
            rt_cb_fail_hits = 0;
            RegisterAccess a = unsafe ? register_set_unsafe(&inst.t, 1, v) : register_set(&inst.t, 1, v);
            rt_cb_fail_area = -1;
            const char *key = ckey(c, unsafe ? "register_set_unsafe" : "register_set");
            snprintf(ctx, sizeof ctx, "value bits %016" PRIx64 ", device refuses word %u", bits, rt_cb_fail_word);
            if (rt_cb_fail_hits && a.code == REG_ACCESS_SUCCESS)
                vh_fail("device-refusal-reported-as-success", key, "%s (%u refusals, code %d): set returns success", ctx, rt_cb_fail_hits,
                        rt_cb_fail_code);
            if (!rt_compare_storage(&inst, "device-refusal-changes-storage", key, ctx))
                rt_sync_model_from_storage(&inst);
            VH_COUNT("set refused by the device behind the callback");
        }
    /* the unchecked variant skips the checks of ITS value, not those of the table: while its write is under way the
     * device driver issues a checked set of its own, with a value the constraint rejects - that one is refused as
     * ever, and the unchecked set stores its value (every 8th storable value behind a callback) */
    if (c->custom && finite && (nset & 7u) == 3u && r->ck != REGV_TYPE_TRIVIAL) {
        RegisterValueU bad = rt_from_bits(c->type, 0);
        int have = 1;
        if (r->ck == REGV_TYPE_MIN || (r->ck == REGV_TYPE_RANGE && (nset & 8u)))
            bad = rt_neighbour(c->type, r->lo, -1);
        else if (r->ck == REGV_TYPE_MAX || r->ck == REGV_TYPE_RANGE)
            bad = rt_neighbour(c->type, r->hi, +1);
        else if (r->ck == REGV_TYPE_CALLBACK)
            bad = r->cbkind == RT_CB_EVEN ? rt_from_bits(c->type, 1) : (c->type == REG_TYPE_FLOAT32 ? (RegisterValueU){ .f32 = 100.5f } : (RegisterValueU){ .f64 = -1e3 });
        if (!rt_bits_valid(c->type, rt_bits(c->type, bad)) || rt_satisfies(r, bad, 0))
            have = 0;
        if (have) {
            nest_bad = (RegisterValue){ .type = (RegisterType)c->type, .value = bad };
            nest_calls = 0;
            nest_code = -1;
            rt_cb_write_hook = nested_checked_set;
            RegisterAccess a = register_set_unsafe(&inst.t, 1, v);
            rt_cb_write_hook = NULL;
            const char *key = ckey(c, "register_set_unsafe");
            snprintf(ctx, sizeof ctx, "value bits %016" PRIx64 ", device hook sets bits %016" PRIx64, bits, rt_bits(c->type, bad));
            VH_COUNT("checked set issued by the device hook while an unchecked set is at work");
            if (nest_calls && nest_code == REG_ACCESS_SUCCESS)
                vh_fail("nested-checked-set-accepted", key, "%s: the checked set of a value that violates the constraint returned success", ctx);
            if (a.code != REG_ACCESS_SUCCESS)
                vh_fail("set-refused", key, "%s: code=%d", ctx, a.code);
            else
                memcpy(mw, enc, rt_tsize[c->type] * 2);
            if (!rt_compare_storage(&inst, "set-storage", key, ctx))
                rt_sync_model_from_storage(&inst);
        }
    }
    for (int unsafe = 0; unsafe < 2; unsafe++) {
        int expect_ok = unsafe ? finite : accept;
        const unsigned vcalls = rt_val_calls, wcalls = inst.cb_writes;
        RegisterAccess a = unsafe ? register_set_unsafe(&inst.t, 1, v) : register_set(&inst.t, 1, v);
        const char *key = ckey(c, unsafe ? "register_set_unsafe" : "register_set");
        snprintf(ctx, sizeof ctx, "value bits %016" PRIx64, bits);
        /* what the register's own validator was asked by the checked variant: this register, this value */
        if (r->ck == REGV_TYPE_CALLBACK) {
            if (!unsafe && finite && (rt_val_calls == vcalls || rt_val_last_idx != 1 || rt_val_last_bits != bits))
                vh_fail("validator-arguments", key, "%s: %u validator calls, the last one about entry %d with bits %016" PRIx64, ctx,
                        rt_val_calls - vcalls, rt_val_last_idx, rt_val_last_bits);
            VH_COUNT("validator callback arguments checked");
        }
        if (expect_ok) {
            if (a.code != REG_ACCESS_SUCCESS) {
                vh_fail("set-refused", key, "%s: code=%d", ctx, a.code);
                rt_sync_model_from_storage(&inst);
                continue;
            }
            memcpy(mw, enc, rt_tsize[c->type] * 2);
            if (!rt_compare_storage(&inst, "set-storage", key, ctx)) {
                rt_sync_model_from_storage(&inst);
                continue;
            }
            RegisterValue g;
            memset(&g, 0x77, sizeof g);
            /* every fourth get behind a callback meets a device that serves the register's own words and refuses
             * anything wider (its neighbours may be unimplemented, or react to being read) */
            if (c->custom && (nset & 3u) == 1u) {
                rt_cb_rwin_area = 0;
                rt_cb_rwin_lo = r->addr - inst.d.area[0].base;
                rt_cb_rwin_hi = rt_cb_rwin_lo + rt_tsize[c->type];
                VH_COUNT("get from a device that serves register-shaped reads only");
            }
            RegisterAccess ga = register_get(&inst.t, 1, &g);
            rt_cb_rwin_area = -1;
            if (ga.code != REG_ACCESS_SUCCESS || (int)g.type != c->type || rt_bits(c->type, g.value) != bits)
                vh_fail("get-differs", key, "%s: get code=%d type=%d bits=%016" PRIx64, ctx, ga.code, (int)g.type,
                        rt_bits(c->type, g.value));
            if (unsafe)
                VH_COUNT("unchecked set stored");
            else
                VH_COUNT("checked set accepted");
        } else {
            if (a.code == REG_ACCESS_SUCCESS)
                vh_fail("set-accepted", key, "%s (%s): code=%d", ctx,
                        !finite ? "NaN/infinite/subnormal" : "violates the constraint", a.code);
            if (!rt_compare_storage(&inst, "refused-set-changes-storage", key, ctx))
                rt_sync_model_from_storage(&inst);
            /* behind a callback "unchanged" means that the device was not written at all (a write that is taken
             * back afterwards has happened as far as the device is concerned) */
            if (a.code != REG_ACCESS_SUCCESS && inst.cb_writes != wcalls)
                vh_fail("refused-set-writes-device", key, "%s: code=%d, yet the area's write callback was called %u times", ctx, a.code,
                        inst.cb_writes - wcalls);
            if (!finite)
                VH_COUNT("non-finite float refused");
            else
                VH_COUNT("constraint violation refused");
        }
    }
}

static void
bad_handles_and_types(const struct cfg *c, vh_rng *rg)
{
    /* incl. handles whose low 8/16 bits name a register of the table */
    const RegisterHandle bad[] = { 3, 4, 5, UINT32_MAX, UINT32_MAX - 1, 0x80000000u, 1000,
                                   3 + (RegisterHandle)vh_below(rg, 100000), 0x100u, 0x101u, 0x102u, 0x10000u, 0x10001u,
                                   0x10002u, 0x20001u, 0xffff0000u, 0xffff0001u, 0xffff0002u, 0x80000001u, 0x7fff0002u,
                                   0x01000000u | (RegisterHandle)vh_below(rg, 3), (RegisterHandle)vh_below(rg, 3) | ((RegisterHandle)(1 + vh_below(rg, 0xffff)) << 16) };
    RegisterValue v = { .type = (RegisterType)c->type, .value = inst.d.reg[1].def };
    for (size_t i = 0; i < sizeof bad / sizeof bad[0]; i++)
        for (int unsafe = 0; unsafe < 2; unsafe++) {
            /* the unchecked variant is only ever given a value of the right type for whatever it might reach */
            RegisterAccess a = unsafe ? register_set_unsafe(&inst.t, bad[i], v) : register_set(&inst.t, bad[i], v);
            const char *key = unsafe ? "api=register_set_unsafe" : "api=register_set";
            if (a.code != REG_ACCESS_NOENTRY)
                vh_fail("bad-handle", key, "handle=%u (table has 3 registers): code=%d", bad[i], a.code);
            char ctx[48];
            snprintf(ctx, sizeof ctx, "handle=%u", bad[i]);
            if (!rt_compare_storage(&inst, "bad-handle-changes-storage", key, ctx))
                rt_sync_model_from_storage(&inst);
            VH_COUNT("bad handle probed");
        }
    for (size_t i = 0; i < sizeof bad / sizeof bad[0]; i++) {
        RegisterValue g;
        RegisterAccess a = register_get(&inst.t, bad[i], &g);
        if (a.code == REG_ACCESS_SUCCESS)
            vh_fail("bad-handle-get", ckey(c, "register_get"), "handle=%u: code=%d", bad[i], a.code);
    }
    /* value of a different type: refused by the checked variant */
    for (int t = 0; t < 8; t++) {
        if (t == c->type)
            continue;
        RegisterValue w = { .type = (RegisterType)t, .value = rt_from_bits(t, 1) };
        RegisterAccess a = register_set(&inst.t, 1, w);
        if (a.code == REG_ACCESS_SUCCESS)
            vh_fail("type-mismatch-accepted", ckey(c, "register_set"), "value type %s: code=%d", rt_tname[t], a.code);
        if (!rt_compare_storage(&inst, "type-mismatch-changes-storage", ckey(c, "register_set"), rt_tname[t]))
            rt_sync_model_from_storage(&inst);
        VH_COUNT("type mismatch refused");
    }
}

static void
run_cfg(const struct cfg *c, uint64_t unit, vh_rng *rg)
{
    vh_arena_reset();
    struct rt_desc d;
    setup(c, &d);
    /* per (type, constraint variant): little-endian/memory and big-endian/callback tables come from the header's
     * macros, the other two are written field by field */
    rt_build_mode = c->be == c->custom;
    rt_build(&inst, &d);
    rt_build_mode = -1;
    RegisterInit ri = register_init(&inst.t);
    if (ri.code != REG_INIT_SUCCESS) {
        vh_fail("init", ckey(c, "register_init"), "code=%d pos=%u", ri.code, ri.pos.entry);
        return;
    }
    rt_model_init(&inst);
    rt_compare_storage(&inst, "init-storage", ckey(c, "register_init"), "after init");
    rt_sync_model_from_storage(&inst);
    bad_handles_and_types(c, rg);

    const unsigned w = rt_tsize[c->type] * 16;
    const uint64_t mask = w == 64 ? ~0ull : ((1ull << w) - 1);
    if (w == 16) {
        for (uint64_t b = 0; b < 65536; b++) {
            vh_cur[4] = b;
            one_value(c, b);
        }
        VH_COUNT("16-bit register: all 65536 values");
    } else {
        for (unsigned i = 0; i < w; i++) {
            one_value(c, 1ull << i);
            one_value(c, mask & ~(1ull << i));
        }
        static const unsigned char lanev[] = { 0x00, 0x01, 0x7f, 0x80, 0xff };
        for (unsigned lane = 0; lane < w / 8; lane++)
            for (unsigned k = 0; k < 5; k++) {
                one_value(c, (uint64_t)lanev[k] << (8 * lane));
                one_value(c, (mask & ~(0xffull << (8 * lane))) | ((uint64_t)lanev[k] << (8 * lane)));
            }
        const uint64_t edge[] = { 0, 1, mask, mask - 1, mask >> 1, (mask >> 1) + 1, (mask >> 1) + 2, (mask >> 1) - 1,
                                  0x0123456789abcdefull & mask, 0xfedcba9876543210ull & mask };
        for (size_t k = 0; k < sizeof edge / sizeof edge[0]; k++)
            one_value(c, edge[k]);
        /* bounds and their neighbours */
        for (int d2 = -2; d2 <= 2; d2++) {
            RegisterValueU lo = c->lo, hi = c->hi;
            for (int s = 0; s < (d2 < 0 ? -d2 : d2); s++) {
                lo = rt_neighbour(c->type, lo, d2 < 0 ? -1 : 1);
                hi = rt_neighbour(c->type, hi, d2 < 0 ? -1 : 1);
            }
            one_value(c, rt_bits(c->type, lo));
            one_value(c, rt_bits(c->type, hi));
        }
        if (c->type == REG_TYPE_FLOAT32 || c->type == REG_TYPE_FLOAT64) {
            static const uint32_t f32[] = { 0x00000000, 0x80000000, 0x00000001, 0x007fffff, 0x80000001, 0x807fffff,
                                            0x00800000, 0x80800000, 0x7f7fffff, 0xff7fffff, 0x7f800000, 0xff800000,
                                            0x7fc00000, 0xffc00000, 0x7fa00000, 0x7f800001, 0xffc12345, 0x3f800000 };
            static const uint64_t f64[] = { 0x0ull, 0x8000000000000000ull, 0x1ull, 0x000fffffffffffffull,
                                            0x8000000000000001ull, 0x800fffffffffffffull, 0x0010000000000000ull,
                                            0x8010000000000000ull, 0x7fefffffffffffffull, 0xffefffffffffffffull,
                                            0x7ff0000000000000ull, 0xfff0000000000000ull, 0x7ff8000000000000ull,
                                            0xfff8000000000000ull, 0x7ff4000000000000ull, 0x7ff0000000000001ull,
                                            0xfff8123456789abcull, 0x3ff0000000000000ull };
            for (size_t k = 0; k < 18; k++)
                one_value(c, c->type == REG_TYPE_FLOAT32 ? f32[k] : f64[k]);
            VH_COUNT("float classes: zero, subnormal, normal, infinite, quiet and signalling NaN");
        }
        uint64_t nr = vh_tier ? 300000 : 6000;
        for (uint64_t k = 0; k < nr; k++) {
            uint64_t b = vh_rand(rg) & mask;
            if (vh_chance(rg, 1, 3))
                b >>= vh_below(rg, w);
            vh_cur[4] = b;
            one_value(c, b);
        }
    }
    (void)unit;
}

static void
u_cfg(uint64_t idx, void *arg)
{
    (void)arg;
    vh_rng rg;
    vh_unit_rng(&rg, "cfg", idx);
    struct cfg c;
    memset(&c, 0, sizeof c);
    c.type = (int)(idx % 8);
    c.be = (int)(idx / 8) % 2;
    c.custom = (int)(idx / 16) % 2;
    int variant = (int)(idx / 32);
    /* variants: 0 none, 1 fail, 2 callback, 3..5 min, 6..8 max, 9..12 range */
    c.cbkind = (c.type >= REG_TYPE_FLOAT32) ? RT_CB_SMALL : RT_CB_EVEN;
    c.lo = rt_pick_value(&rg, c.type);
    c.hi = rt_pick_value(&rg, c.type);
    if (!rt_bits_valid(c.type, rt_bits(c.type, c.lo)))
        c.lo = rt_from_bits(c.type, 0);
    if (!rt_bits_valid(c.type, rt_bits(c.type, c.hi)))
        c.hi = rt_from_bits(c.type, 0);
    if (rt_cmp(c.type, c.lo, c.hi) > 0) {
        RegisterValueU t = c.lo;
        c.lo = c.hi;
        c.hi = t;
    }
    if (variant == 0)
        c.ck = REGV_TYPE_TRIVIAL;
    else if (variant == 1)
        c.ck = REGV_TYPE_FAIL;
    else if (variant == 2)
        c.ck = REGV_TYPE_CALLBACK;
    else if (variant <= 5)
        c.ck = REGV_TYPE_MIN;
    else if (variant <= 8)
        c.ck = REGV_TYPE_MAX;
    else
        c.ck = REGV_TYPE_RANGE;
    if (variant == 3 || variant == 6) {
        /* bounds at the type's extremes */
        c.lo = rt_from_bits(c.type, c.type >= REG_TYPE_SINT16 && c.type <= REG_TYPE_SINT64
                                        ? 1ull << (rt_tsize[c.type] * 16 - 1) : 0);
        c.hi = c.lo;
    }
    if (variant == 9) /* single-value range */
        c.hi = c.lo;
    VH_CASE4(c.type, c.be, c.custom, variant);
    nset = 0;
    run_cfg(&c, idx, &rg);
    *vh_ncases += nset;
    vh_sig(0x01000000ull ^ idx);
    vh_countf("configuration: %s %s", rt_tname[c.type], rt_ckname[c.ck]);
    if (idx % 97 == 5)
        vh_sample("config", "%s register, %s-endian, %s-backed area, constraint %s lo=%016" PRIx64 " hi=%016" PRIx64,
                  rt_tname[c.type], c.be ? "big" : "little", c.custom ? "callback" : "memory", rt_ckname[c.ck],
                  rt_bits(c.type, c.lo), rt_bits(c.type, c.hi));
}

/* tables with other register counts, above all none at all (a description may consist of areas only): every handle
 * is "not a register of the table" there, the first one included */
static void
u_counts(uint64_t idx, void *arg)
{
    (void)arg;
    static const int counts[] = { 0, 1, 2, 7 };
    const int n = counts[idx % 4], be = (int)(idx / 4) % 2, nareas = 1 + (int)(idx / 16) % 2;
    /* units 64..95: callback-backed areas without read callback (devices that can only be written) */
    const int noread = idx >= 64, custom = noread || (int)(idx / 8) % 2;
    vh_arena_reset();
    struct rt_desc d;
    memset(&d, 0, sizeof d);
    d.nareas = nareas;
    d.bigendian = be;
    for (int i = 0; i < nareas; i++) {
        d.area[i].base = i ? 0x40 : 0;
        d.area[i].size = 8;
        d.area[i].readable = d.area[i].writeable = 1;
        d.area[i].custom = custom;
        d.area[i].has_write = 1;
        d.area[i].noread = noread;
    }
    d.nregs = n;
    for (int i = 0; i < n; i++) {
        d.reg[i].type = REG_TYPE_UINT16;
        d.reg[i].addr = (uint32_t)i;
        d.reg[i].def.u16 = (uint16_t)(0x1001 * (i + 1));
    }
    rt_build_mode = (int)(idx / 32) % 2;
    rt_build(&inst, &d);
    rt_build_mode = -1;
    char key[96];
    snprintf(key, sizeof key, "registers=%d order=%s backing=%s", n, be ? "be" : "le", custom ? "callback" : "memory");
    RegisterInit ri = register_init(&inst.t);
    if (ri.code != REG_INIT_SUCCESS) {
        vh_fail("init", key, "table with %d registers in %d areas: code=%d pos=%u", n, nareas, ri.code, ri.pos.entry);
        return;
    }
    rt_model_init(&inst);
    rt_compare_storage(&inst, "init-storage", key, "after init");
    rt_sync_model_from_storage(&inst);
    const RegisterHandle bad[] = { (RegisterHandle)n, (RegisterHandle)n + 1, (RegisterHandle)n + 2, 8, 16, 0xff, 0x100, 0xffff,
                                   0x10000u, 0x10000u + (RegisterHandle)n, 0x7fffffffu, 0x80000000u, UINT32_MAX - 1, UINT32_MAX };
    for (size_t i = 0; i < sizeof bad / sizeof bad[0]; i++) {
        VH_CASE4(idx, n, i, 0);
        for (int t = 0; t < 8; t++) {
            RegisterValue v = { .type = (RegisterType)t, .value = rt_from_bits(t, 1) };
            RegisterAccess a = register_set(&inst.t, bad[i], v);
            if (a.code != REG_ACCESS_NOENTRY)
                vh_fail("bad-handle", "api=register_set", "handle=%u value type %s (table has %d registers): code=%d", bad[i],
                        rt_tname[t], n, a.code);
            nset++;
        }
        RegisterValue v = { .type = REG_TYPE_UINT16, .value.u16 = 0x4242 };
        RegisterAccess a = register_set_unsafe(&inst.t, bad[i], v);
        if (a.code != REG_ACCESS_NOENTRY)
            vh_fail("bad-handle", "api=register_set_unsafe", "handle=%u (table has %d registers): code=%d", bad[i], n, a.code);
        RegisterValue g;
        a = register_get(&inst.t, bad[i], &g);
        if (a.code == REG_ACCESS_SUCCESS)
            vh_fail("bad-handle-get", key, "handle=%u (table has %d registers): code=%d", bad[i], n, a.code);
        char ctx[48];
        snprintf(ctx, sizeof ctx, "handle=%u", bad[i]);
        if (!rt_compare_storage(&inst, "bad-handle-changes-storage", key, ctx))
            rt_sync_model_from_storage(&inst);
        vh_countf("bad handle probed on a table with %s", n == 0 ? "no registers" : n == 1 ? "one register" : "several registers");
    }
    /* and the registers that are there work */
    for (int i = 0; i < n; i++) {
        RegisterValue v = { .type = REG_TYPE_UINT16, .value.u16 = (uint16_t)(0xa000 + i) }, g;
        RegisterAccess a = register_set(&inst.t, (RegisterHandle)i, v);
        RegisterAccess b = register_get(&inst.t, (RegisterHandle)i, &g);
        if (noread) {
            /* the set goes to the device (the storage comparison below looks there), a get has nothing to read: it
             * reports an error - and does not call a callback that is not there */
            if (a.code != REG_ACCESS_SUCCESS || b.code == REG_ACCESS_SUCCESS)
                vh_fail("write-only-area", key, "register %d of %d in an area without read callback: set code=%d get code=%d", i, n, a.code, b.code);
            VH_COUNT("typed access to a register in a write-only device area");
        } else if (a.code != REG_ACCESS_SUCCESS || b.code != REG_ACCESS_SUCCESS || g.type != REG_TYPE_UINT16 || g.value.u16 != v.value.u16)
            vh_fail("round-trip", key, "register %d of %d: set code=%d get code=%d value=%04x", i, n, a.code, b.code, g.value.u16);
        rt_encode(REG_TYPE_UINT16, be, v.value.u16, rt_model_word(&inst, (uint32_t)i));
        rt_compare_storage(&inst, "storage", key, "after set");
        nset++;
    }
    vh_sig(0x01c00000ull ^ idx);
}

void
harness_run(void)
{
    for (uint64_t i = 0; i < 32 * 13; i++)
        vh_unit("cfg", i, u_cfg, NULL);
    for (uint64_t i = 0; i < 96; i++)
        vh_unit("counts", i, u_counts, NULL);
    vh_require("typed access to a register in a write-only device area");
    vh_require("bad handle probed on a table with no registers");
    vh_require("set refused by the device behind the callback");
    vh_require("get from a device that serves register-shaped reads only");
    vh_require("bad handle probed on a table with one register");
    static const char *req[] = { "checked set accepted", "unchecked set stored", "constraint violation refused",
                                 "non-finite float refused", "bad handle probed", "type mismatch refused",
                                 "16-bit register: all 65536 values",
                                 "float classes: zero, subnormal, normal, infinite, quiet and signalling NaN",
                                 "configuration: u16 range", "configuration: s64 min", "configuration: f32 max",
                                 "configuration: f64 callback", "configuration: u32 fail" };
    for (size_t i = 0; i < sizeof req / sizeof req[0]; i++)
        vh_require(req[i]);
}
