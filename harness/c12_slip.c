/* C12 - SLIP framing is transparent, bounded and self-resynchronising.
 *
 * Oracles: reference encoder, reference per-call decoder (written from RFC
 * 1055 and the documented start-of-frame extension), frame-level resync
 * checker over garbage-prefixed streams, error-injecting sources and sinks
 * with call counting (progress bound). */
#include "common/vh.h"

#include <errno.h>
#include <sys/types.h>
#include <ufw/endpoints.h>
#include <ufw/rfc1055.h>

const char *harness_name = "c12_slip";

#define END 0xc0u
#define ESC 0xdbu
#define ESC_END 0xdcu
#define ESC_ESC 0xddu

/* what injected driver errors report: values the codec gives no meaning to (it does to EILSEQ and ENODATA),
 * varied with the injection position */
static const int err_codes[] = { -EPROTO, -ENOSPC, -EIO, -EPIPE, -EPERM, -ETIMEDOUT, -4095, -65541, -0x7fffff00, -256, -ENOMEM };
/* what a sink may report: the same, and the codes that mean something special elsewhere (-ENODATA is a source's
 * end, -EILSEQ the decoder's own verdict) - from a sink they are errors like any other */
static const int sink_codes[] = { -ENOSPC, -EIO, -ENODATA, -EPIPE, -EILSEQ, -ENOMEM, -EBUSY, -4095, -EINVAL, -65541, -ENODATA, -256, -EILSEQ };
#define NSINKERR (sizeof sink_codes / sizeof sink_codes[0])
#define NERR (sizeof err_codes / sizeof err_codes[0])
static int ERR_SRC = -EPROTO, ERR_SINK = -ENOSPC;

static const unsigned char alpha[5] = { END, ESC, ESC_END, ESC_ESC, 0x41 };

/* ---- scripted source and sink ---- */
struct tsrc {
    const unsigned char *p;
    size_t n, pos;
    size_t fail_at; /* position at which the source reports ERR_SRC instead (SIZE_MAX: never) */
    unsigned calls, bound;
    int runaway;
};

static int
tsrc_octet(void *drv, void *out)
{
    struct tsrc *s = drv;
    if (++s->calls > s->bound) {
        s->runaway = 1;
        return -EIO;
    }
    if (s->pos == s->fail_at) {
        s->fail_at = SIZE_MAX; /* one-shot */
        return ERR_SRC;
    }
    if (s->pos >= s->n)
        return -ENODATA;
    *(unsigned char *)out = s->p[s->pos++];
    return 1;
}

static ssize_t
tsrc_chunk(void *drv, void *out, size_t n)
{
    if (n == 0)
        return -EINVAL;
    return tsrc_octet(drv, out);
}

struct tsink {
    unsigned char buf[4200];
    size_t n;
    size_t fail_at; /* octet index at which the sink reports ERR_SINK */
    int oneshot;    /* the failure happens once; afterwards the sink works again */
    size_t maxper;  /* chunk style: takes at most this many octets per call (0: all); 100 + k: never across a k-octet page */
};

static int
tsink_octet(void *drv, unsigned char c)
{
    struct tsink *s = drv;
    if (s->n == s->fail_at) {
        if (s->oneshot)
            s->fail_at = SIZE_MAX;
        return ERR_SINK;
    }
    if (s->n >= sizeof s->buf)
        return -ENOMEM;
    s->buf[s->n++] = c;
    return 1;
}

static ssize_t
tsink_chunk(void *drv, const void *p, size_t n)
{
    struct tsink *s = drv;
    const unsigned char *c = p;
    /* accepts as much as fits before the failure point; a short write is legal for a chunk driver */
    size_t i;
    if (s->maxper >= 100) {
        size_t page = s->maxper - 100, room = page - s->n % page;
        if (n > room)
            n = room;
    } else if (s->maxper && n > s->maxper) {
        n = s->maxper;
    }
    for (i = 0; i < n; i++) {
        if (s->n == s->fail_at) {
            if (i == 0 && s->oneshot)
                s->fail_at = SIZE_MAX;
            return i ? (ssize_t)i : ERR_SINK;
        }
        if (s->n >= sizeof s->buf)
            return i ? (ssize_t)i : -ENOMEM;
        s->buf[s->n++] = c[i];
    }
    return (ssize_t)n;
}

static void
mk_source(Source *src, struct tsrc *t, int chunk, const unsigned char *p, size_t n)
{
    memset(t, 0, sizeof *t);
    t->p = p;
    t->n = n;
    t->fail_at = SIZE_MAX;
    t->bound = (unsigned)(2 * n + 16);
    if (chunk)
        chunk_source_init(src, tsrc_chunk, t);
    else
        octet_source_init(src, tsrc_octet, t);
}

static void
mk_sink(Sink *snk, struct tsink *t, int chunk)
{
    t->n = 0;
    t->fail_at = SIZE_MAX;
    t->oneshot = 0;
    /* chunk sinks take everything, one, two or three octets per call, or write in pages of 4 / 16 octets */
    static const size_t pers[] = { 0, 1, 0, 2, 104, 3, 0, 116 };
    static unsigned sink_toggle;
    t->maxper = chunk ? pers[(sink_toggle++ + vh_unit_salt) % 8] : 0;
    if (t->maxper)
        VH_COUNT("chunk sink that takes only part of what it is offered");
    if (chunk)
        chunk_sink_init(snk, tsink_chunk, t);
    else
        octet_sink_init(snk, tsink_octet, t);
}

/* ---- reference encoder ---- */
static size_t
ref_encode(int sof, const unsigned char *p, size_t n, unsigned char *out)
{
    size_t o = 0;
    if (sof)
        out[o++] = END;
    for (size_t i = 0; i < n; i++) {
        if (p[i] == END) {
            out[o++] = ESC;
            out[o++] = ESC_END;
        } else if (p[i] == ESC) {
            out[o++] = ESC;
            out[o++] = ESC_ESC;
        } else {
            out[o++] = p[i];
        }
    }
    out[o++] = END;
    return o;
}

/* ---- reference decoder: one call = one attempt to deliver a frame ---- */
enum { RS_START, RS_SKIP, RS_FRAME };
struct refdec {
    int sof;
    int state;
};

static void
refdec_init(struct refdec *d, int sof)
{
    d->sof = sof;
    d->state = sof ? RS_START : RS_FRAME;
}

/* returns 1 (frame, payload in out/outn), -EILSEQ, or -ENODATA when input ends */
static int
refdec_call(struct refdec *d, const unsigned char *in, size_t n, size_t *pos, unsigned char *out, size_t *outn)
{
    *outn = 0;
    for (;;) {
        if (*pos >= n)
            return -ENODATA;
        unsigned char c = in[(*pos)++];
        switch (d->state) {
        case RS_START:
            if (c == END) {
                d->state = RS_FRAME;
            } else {
                d->state = RS_SKIP;
                return -EILSEQ;
            }
            break;
        case RS_SKIP:
            if (c == END)
                d->state = d->sof ? RS_START : RS_FRAME;
            break;
        default:
            if (c == END) {
                if (d->sof)
                    d->state = RS_START;
                return 1;
            }
            if (c == ESC) {
                if (*pos >= n)
                    return -ENODATA;
                unsigned char e = in[(*pos)++];
                if (e == ESC_END) {
                    out[(*outn)++] = END;
                } else if (e == ESC_ESC) {
                    out[(*outn)++] = ESC;
                } else {
                    /* invalid escape: the rest of this frame is lost. If the offending
                     * octet is itself the delimiter the damaged frame ends right here. */
                    if (e == END)
                        d->state = d->sof ? RS_START : RS_FRAME;
                    else
                        d->state = RS_SKIP;
                    return -EILSEQ;
                }
            } else {
                out[(*outn)++] = c;
            }
            break;
        }
    }
}

/* a context is set up by the initialisation function or by the header's static initialisers, alternately */
static unsigned ctx_toggle;
static void
ctx_setup(RFC1055Context *c, int sof)
{
    if ((ctx_toggle++ + vh_unit_salt) & 1u) {
        const RFC1055Context with_sof = RFC1055_CONTEXT_INIT_WITH_SOF, classic = RFC1055_CONTEXT_INIT_DEFAULT;
        *c = sof ? with_sof : classic;
    } else {
        rfc1055_context_init(c, sof ? RFC1055_WITH_SOF : RFC1055_DEFAULT);
    }
}

/* ---- checks ---- */

static const char *
modekey(int sof, int srcchunk, int sinkchunk)
{
    static char k[64];
    snprintf(k, sizeof k, "mode=%s source=%s sink=%s", sof ? "sof" : "classic", srcchunk ? "chunk" : "octet",
             sinkchunk ? "chunk" : "octet");
    return k;
}

/* encode payload with ufw, compare with the reference; decode it again */
static void
check_payload(const unsigned char *p, size_t n, int sof, int srcchunk, int sinkchunk)
{
    const char *key = modekey(sof, srcchunk, sinkchunk);
    RFC1055Context ctx;
    ctx_setup(&ctx, sof);
    Source src;
    Sink snk;
    struct tsrc ts;
    static struct tsink tk;
    unsigned char *pin = vh_arena_copy(p, n);
    mk_source(&src, &ts, srcchunk, pin, n);
    mk_sink(&snk, &tk, sinkchunk);
    int rc = rfc1055_encode(&ctx, &src, &snk);
    static unsigned char ref[4200];
    size_t rn = ref_encode(sof, p, n, ref);
    if (rc < 0 || tk.n != rn || memcmp(tk.buf, ref, rn) != 0) {
        vh_fail("encode", key, "payload=%s rc=%d encoded=%s expected=%s", vh_hex(p, n), rc, vh_hex(tk.buf, tk.n),
                vh_hex(ref, rn));
        return;
    }
    if (ts.runaway)
        vh_fail("encode-progress", key, "payload=%s: more than %u source calls", vh_hex(p, n), ts.bound);
    if (tk.n > RFC1055_WORST_CASE(n, sof))
        vh_fail("encode-bound", key, "payload length %zu encoded length %zu > %zu", n, tk.n,
                (size_t)RFC1055_WORST_CASE(n, sof));
    for (size_t i = (sof ? 1 : 0); i + 1 < tk.n; i++)
        if (tk.buf[i] == END)
            vh_fail("encode-delimiter-inside", key, "payload=%s encoded=%s", vh_hex(p, n), vh_hex(tk.buf, tk.n));
    if (tk.buf[tk.n - 1] != END || (sof && tk.buf[0] != END))
        vh_fail("encode-delimiter-missing", key, "payload=%s encoded=%s", vh_hex(p, n), vh_hex(tk.buf, tk.n));
    /* decode what ufw encoded: exact-size input */
    unsigned char *enc = vh_arena_copy(tk.buf, tk.n);
    size_t encn = tk.n;
    Source s2;
    struct tsrc t2;
    static struct tsink k2;
    mk_source(&s2, &t2, srcchunk, enc, encn);
    mk_sink(&snk, &k2, sinkchunk);
    RFC1055Context dctx;
    ctx_setup(&dctx, sof);
    rc = rfc1055_decode(&dctx, &s2, &snk);
    if (rc != 1 || k2.n != n || memcmp(k2.buf, p, n) != 0 || t2.pos != encn)
        vh_fail("roundtrip", key, "payload=%s encoded=%s decode rc=%d payload=%s consumed=%zu/%zu", vh_hex(p, n),
                vh_hex(enc, encn), rc, vh_hex(k2.buf, k2.n), t2.pos, encn);
    VH_COUNT("payload encoded, compared and round-tripped");
}

/* feed raw input to repeated decode calls; compare the event sequence with the reference decoder */
static void
check_raw(const unsigned char *in, size_t n, int sof, int srcchunk, int sinkchunk)
{
    const char *key = modekey(sof, srcchunk, sinkchunk);
    RFC1055Context ctx;
    ctx_setup(&ctx, sof);
    struct refdec rd;
    refdec_init(&rd, sof);
    unsigned char *pin = vh_arena_copy(in, n);
    Source src;
    Sink snk;
    struct tsrc ts;
    static struct tsink tk;
    mk_source(&src, &ts, srcchunk, pin, n);
    size_t rpos = 0;
    for (unsigned call = 0; call < n + 2; call++) {
        mk_sink(&snk, &tk, sinkchunk);
        size_t before = ts.pos;
        int rc = rfc1055_decode(&ctx, &src, &snk);
        unsigned char rout[256];
        size_t routn = 0;
        int rrc = refdec_call(&rd, in, n, &rpos, rout, &routn);
        if (tk.n > ts.pos - before)
            vh_fail("emits-more-than-consumed", key, "input=%s call %u: emitted %zu consumed %zu", vh_hex(in, n), call,
                    tk.n, ts.pos - before);
        if (ts.runaway) {
            vh_fail("decode-progress", key, "input=%s: more than %u source calls", vh_hex(in, n), ts.bound);
            return;
        }
        if (rc != rrc) {
            vh_fail("decode-result", key, "input=%s call %u: rc=%d reference=%d", vh_hex(in, n), call, rc, rrc);
            return;
        }
        if (rc == 1) {
            VH_COUNT("raw input: frame delivered");
            if (tk.n != routn || memcmp(tk.buf, rout, routn) != 0) {
                vh_fail("decode-frame", key, "input=%s call %u: frame=%s reference=%s", vh_hex(in, n), call,
                        vh_hex(tk.buf, tk.n), vh_hex(rout, routn));
                return;
            }
        } else if (rc == -EILSEQ) {
            VH_COUNT("raw input: illegal sequence reported");
        }
        if (ts.pos != rpos) {
            vh_fail("decode-consumed", key, "input=%s call %u: consumed up to %zu reference %zu", vh_hex(in, n), call,
                    ts.pos, rpos);
            return;
        }
        /* one context may serve both directions of a link (the encoder takes it const): whatever the decoder just
         * made of it - frame delivered, illegal sequence, input ran dry in mid-frame - an encoding produced with it
         * now is the reference encoding, and the context is left as it was */
        {
            static const unsigned char pl[3][4] = { { 0x41, END, ESC, 0x42 }, { ESC_END, 0x00, 0xff, ESC_ESC }, { END, END, 0x7e, ESC } };
            static unsigned prot;
            const unsigned char *q = pl[prot % 3];
            const size_t qn = 1 + prot++ % 4;
            const RFC1055Context snap = ctx;
            Source es;
            Sink ek;
            struct tsrc ets;
            static struct tsink etk;
            mk_source(&es, &ets, srcchunk, vh_arena_copy(q, qn), qn);
            mk_sink(&ek, &etk, sinkchunk);
            int erc = rfc1055_encode(&ctx, &es, &ek);
            unsigned char eref[16];
            size_t ern = ref_encode(sof, q, qn, eref);
            if (erc < 0 || etk.n != ern || memcmp(etk.buf, eref, ern) != 0 || memcmp(&snap, &ctx, sizeof ctx) != 0)
                vh_fail("encode-with-the-decoders-context", key, "input=%s, after decode call %u (rc=%d) payload=%s: rc=%d encoded=%s expected=%s%s",
                        vh_hex(in, n), call, rc, vh_hex(q, qn), erc, vh_hex(etk.buf, etk.n), vh_hex(eref, ern),
                        memcmp(&snap, &ctx, sizeof ctx) ? "; context changed" : "");
            VH_COUNT("encoding with a context the decoder has been working with");
        }
        if (rc == -ENODATA) {
            VH_COUNT("raw input: source end returned unchanged");
            return;
        }
    }
    vh_fail("decode-calls", key, "input=%s: still not at the end after %zu calls", vh_hex(in, n), n + 2);
}

/* SLIP over SLIP: the outer encoder writes into a sink whose driver encodes every chunk it is handed as a frame of
 * its own on a lower sink (a nested encoder call while the outer one is still at work). Taking the lower stream
 * apart frame by frame with the reference decoder must give back the outer encoding octet for octet. */
struct stunnel {
    Sink *lower;
    int sof;
    unsigned calls;
    int err;
};

static ssize_t
stunnel_chunk(void *drv, const void *p, size_t n)
{
    struct stunnel *t = drv;
    t->calls++;
    RFC1055Context c;
    ctx_setup(&c, t->sof);
    Source src;
    struct tsrc ts;
    mk_source(&src, &ts, (int)(t->calls & 1), p, n);
    int rc = rfc1055_encode(&c, &src, t->lower);
    if (rc < 0 && rc != -ENODATA) {
        t->err = rc;
        return rc;
    }
    return (ssize_t)n;
}

static int
stunnel_octet(void *drv, unsigned char c)
{
    return (int)stunnel_chunk(drv, &c, 1);
}

static void
check_tunnel(const unsigned char *p, size_t n, int sof, int srcchunk, int sinkchunk)
{
    const char *key = modekey(sof, srcchunk, sinkchunk);
    unsigned char ref[2200];
    size_t rn = ref_encode(sof, p, n, ref);
    RFC1055Context ctx;
    ctx_setup(&ctx, sof);
    Source src;
    struct tsrc ts;
    mk_source(&src, &ts, srcchunk, vh_arena_copy(p, n), n);
    Sink lower, tun;
    static struct tsink tk;
    mk_sink(&lower, &tk, 1);
    tk.maxper = 0;
    struct stunnel t = { &lower, !sof, 0, 0 };
    if (sinkchunk)
        chunk_sink_init(&tun, stunnel_chunk, &t);
    else
        octet_sink_init(&tun, stunnel_octet, &t);
    int rc = rfc1055_encode(&ctx, &src, &tun);
    /* take the lower stream apart */
    struct refdec rd;
    refdec_init(&rd, !sof);
    unsigned char got[2200], frame[256];
    size_t gn = 0, pos = 0, fl;
    int bad = 0;
    for (;;) {
        int r = refdec_call(&rd, tk.buf, tk.n, &pos, frame, &fl);
        if (r == -ENODATA)
            break;
        if (r != 1 || gn + fl > sizeof got) {
            bad = 1;
            break;
        }
        memcpy(got + gn, frame, fl);
        gn += fl;
    }
    if (rc < 0 && rc != -ENODATA)
        vh_fail("tunnel", key, "payload=%s: outer encoder rc=%d (inner %d)", vh_hex(p, n > 16 ? 16 : n), rc, t.err);
    else if (bad || gn != rn || memcmp(got, ref, rn) != 0)
        vh_fail("tunnel", key, "payload=%s: through a nested encoder the outer encoding reads %s, reference %s", vh_hex(p, n > 16 ? 16 : n),
                vh_hex(got, gn > 24 ? 24 : gn), vh_hex(ref, rn > 24 ? 24 : rn));
    VH_COUNT("encoder writing into a sink that encodes what it receives (nested encoder calls)");
}

/* two decoders at work alternately - one classic, one start-of-frame, each on its own stream, one decode call at
 * a time: every call must still match that stream's reference decoder (nothing of a context may live outside it) */
static void
check_interleaved(const unsigned char *in1, size_t n1, const unsigned char *in2, size_t n2, int srcchunk, int sinkchunk)
{
    const char *key = modekey(2, srcchunk, sinkchunk);
    RFC1055Context ctx[2];
    struct refdec rd[2];
    struct tsrc ts[2];
    Source src[2];
    size_t rpos[2] = { 0, 0 };
    int done[2] = { 0, 0 };
    const unsigned char *in[2] = { in1, in2 };
    const size_t n[2] = { n1, n2 };
    for (int k = 0; k < 2; k++) {
        ctx_setup(&ctx[k], k);
        refdec_init(&rd[k], k);
        mk_source(&src[k], &ts[k], srcchunk, vh_arena_copy(in[k], n[k]), n[k]);
    }
    for (unsigned call = 0; call < 2 * (n1 + n2 + 4) && !(done[0] && done[1]); call++) {
        int k = (int)(call & 1);
        if (done[k])
            k = !k;
        Sink snk;
        static struct tsink tk;
        mk_sink(&snk, &tk, sinkchunk);
        int rc = rfc1055_decode(&ctx[k], &src[k], &snk);
        unsigned char rout[256];
        size_t routn = 0;
        int rrc = refdec_call(&rd[k], in[k], n[k], &rpos[k], rout, &routn);
        if (rc != rrc || ts[k].pos != rpos[k] || (rc == 1 && (tk.n != routn || memcmp(tk.buf, rout, routn) != 0))) {
            vh_fail("interleaved-decoders", key, "streams %s (classic) and %s (start-of-frame), call %u on the %s one: rc=%d "
                    "reference %d, consumed %zu reference %zu", vh_hex(in1, n1 > 20 ? 20 : n1), vh_hex(in2, n2 > 20 ? 20 : n2), call,
                    k ? "second" : "first", rc, rrc, ts[k].pos, rpos[k]);
            return;
        }
        if (rc == -ENODATA)
            done[k] = 1;
    }
    VH_COUNT("two decoders interleaved call by call");
}

/* garbage prefix followed by three well-formed non-empty frames */
static const unsigned char P0[] = { 0x41 };
static const unsigned char P1[] = { END };
static const unsigned char P2[] = { ESC, 0x42 };
static const unsigned char P3[] = { 0x43, END, ESC, 0x44 };
static const unsigned char P4[] = { ESC_END, ESC_ESC };
static const struct {
    const unsigned char *p;
    size_t n;
} PAY[5] = { { P0, 1 }, { P1, 1 }, { P2, 2 }, { P3, 4 }, { P4, 2 } };

static void
check_garbage(const unsigned char *g, size_t gn, int sof, int srcchunk, int sinkchunk, unsigned sel)
{
    const char *key = modekey(sof, srcchunk, sinkchunk);
    unsigned char stream[128];
    size_t sn = 0;
    memcpy(stream, g, gn);
    sn = gn;
    int pi[3] = { (int)(sel % 5), (int)((sel / 5) % 5), (int)((sel / 25) % 5) };
    for (int k = 0; k < 3; k++)
        sn += ref_encode(sof, PAY[pi[k]].p, PAY[pi[k]].n, stream + sn);
    /* the stream is read in one piece, and again with the source failing once (a transient error, decoding carries
     * on with the same context) behind the prefix, before its last octet and at one more position inside it: what
     * has to arrive does not depend on that */
    static unsigned rotpos;
    const size_t failpos[4] = { SIZE_MAX, gn, gn ? gn - 1 : SIZE_MAX, gn > 2 ? rotpos++ % (gn - 1) : SIZE_MAX };
  for (int variant = 0; variant < 4; variant++) {
    if (variant && failpos[variant] == SIZE_MAX)
        continue;
    unsigned char *pin = vh_arena_copy(stream, sn);
    RFC1055Context ctx;
    ctx_setup(&ctx, sof);
    Source src;
    Sink snk;
    struct tsrc ts;
    static struct tsink tk;
    mk_source(&src, &ts, srcchunk, pin, sn);
    ts.fail_at = failpos[variant];
    ts.bound = (unsigned)(3 * sn + 32);
    ERR_SRC = err_codes[(sel + (unsigned)variant) % NERR];
    int nerr = 0;
    if (variant)
        VH_COUNT("garbage: transient source error inside or right behind the prefix");
    /* delivered non-empty frames */
    unsigned char frames[140][16];
    size_t flen[140];
    size_t nf = 0;
    for (unsigned call = 0; call < sn + 4; call++) {
        mk_sink(&snk, &tk, sinkchunk);
        int rc = rfc1055_decode(&ctx, &src, &snk);
        if (ts.runaway) {
            vh_fail("decode-progress", key, "stream=%s: more than %u source calls", vh_hex(stream, sn), ts.bound);
            return;
        }
        if (variant && rc == ERR_SRC && nerr == 0) {
            nerr++;
            continue;
        }
        if (rc == 1 && tk.n > 0 && nf < 140) {
            flen[nf] = tk.n > 16 ? 16 : tk.n;
            memcpy(frames[nf], tk.buf, flen[nf]);
            if (tk.n > 16)
                flen[nf] = 99; /* cannot equal any payload */
            nf++;
        } else if (rc == -ENODATA) {
            break;
        } else if (rc != 1 && rc != -EILSEQ) {
            vh_fail("resync-result", key, "stream=%s: unexpected rc=%d", vh_hex(stream, sn), rc);
            return;
        }
    }
    /* the source's error came back to the caller, unchanged, whatever the decoder was doing at that moment (also
     * while it was skipping the rest of a damaged frame) */
    if (variant && ts.fail_at == SIZE_MAX && nerr == 0)
        vh_fail("source-error-not-returned", key, "garbage=%s stream=%s: the source reported %d once before octet %zu, no decode call returned it",
                vh_hex(g, gn), vh_hex(stream, sn), ERR_SRC, failpos[variant]);
    int synced = (gn == 0) || (!sof && g[gn - 1] == END);
    int need = synced ? 3 : 2;
    int ok = nf >= (size_t)need;
    for (int k = 0; ok && k < need; k++) {
        int want = pi[3 - need + k];
        size_t at = nf - (size_t)need + (size_t)k;
        if (flen[at] != PAY[want].n || memcmp(frames[at], PAY[want].p, PAY[want].n) != 0)
            ok = 0;
    }
    if (synced)
        VH_COUNT("garbage: prefix empty or ending in a delimiter (all three frames required)");
    else
        VH_COUNT("garbage: unsynchronised prefix (at most the first frame may be lost)");
    if (!ok) {
        char got[400];
        size_t o = 0;
        got[0] = 0;
        for (size_t i = 0; i < nf && o < 350; i++)
            o += (size_t)snprintf(got + o, sizeof got - o, "[%s]", flen[i] == 99 ? "long" : vh_hex(frames[i], flen[i]));
        if (variant)
            vh_fail("resync-after-source-error", key, "garbage=%s stream=%s, source failing once before octet %zu: delivered %s, the last %d must be payloads %d,%d,%d",
                    vh_hex(g, gn), vh_hex(stream, sn), failpos[variant], got, need, pi[0], pi[1], pi[2]);
        else
            vh_fail("resync", key, "garbage=%s stream=%s: delivered %s, the last %d must be payloads %d,%d,%d", vh_hex(g, gn),
                    vh_hex(stream, sn), got, need, pi[0], pi[1], pi[2]);
    }
  }
}

/* a long stretch of line noise: a frame broken by an invalid escape, then L octets that are not the delimiter, then
 * the delimiter and three frames. However long the noise is (lengths around powers of two, where a counter or a
 * budget inside the decoder would turn over), what follows the delimiter arrives as after any other prefix. */
static void
check_longnoise(size_t L, int sof, int srcchunk, int sinkchunk, unsigned sel)
{
    const char *key = modekey(sof, srcchunk, sinkchunk);
    static unsigned char stream[70000];
    static const unsigned char fillers[4] = { 0x41, ESC_END, 0x00, ESC_ESC };
    size_t sn = 0;
    if (L + 64 > sizeof stream)
        vh_broken("noise length %zu", L);
    stream[sn++] = 0x41;
    stream[sn++] = ESC;
    stream[sn++] = 0x41; /* invalid escape */
    memset(stream + sn, fillers[sel % 4], L);
    sn += L;
    const size_t gn = sn;
    stream[sn++] = END;
    int pi[3] = { (int)(sel % 5), (int)((sel / 5) % 5), (int)((sel / 25) % 5) };
    for (int k = 0; k < 3; k++)
        sn += ref_encode(sof, PAY[pi[k]].p, PAY[pi[k]].n, stream + sn);
    RFC1055Context ctx;
    ctx_setup(&ctx, sof);
    Source src;
    Sink snk;
    struct tsrc ts;
    static struct tsink tk;
    mk_source(&src, &ts, srcchunk, stream, sn);
    ts.bound = (unsigned)(3 * sn + 32);
    unsigned char frames[8][16];
    size_t flen[8], nf = 0;
    int sawilseq = 0;
    for (unsigned call = 0; call < 200; call++) {
        mk_sink(&snk, &tk, sinkchunk);
        int rc = rfc1055_decode(&ctx, &src, &snk);
        if (ts.runaway) {
            vh_fail("decode-progress", key, "noise of %zu octets: more than %u source calls", L, ts.bound);
            return;
        }
        if (rc == 1 && tk.n > 0) {
            if (nf == 8) {
                memmove(frames, frames + 1, sizeof frames - sizeof frames[0]);
                memmove(flen, flen + 1, sizeof flen - sizeof flen[0]);
                nf--;
            }
            flen[nf] = tk.n > 16 ? 99 : tk.n;
            memcpy(frames[nf], tk.buf, tk.n > 16 ? 16 : tk.n);
            nf++;
        } else if (rc == -ENODATA) {
            break;
        } else if (rc == -EILSEQ) {
            sawilseq = 1;
        } else if (rc != 1) {
            vh_fail("resync-result", key, "noise of %zu octets: unexpected rc=%d", L, rc);
            return;
        }
    }
    VH_COUNT("long noise: frame broken by an invalid escape, then a long run without delimiter");
    if (!sawilseq)
        vh_fail("illegal-sequence-not-reported", key, "invalid escape in front of %zu noise octets: no call returned -EILSEQ", L);
    int need = sof ? 2 : 3;
    int ok = nf >= (size_t)need;
    for (int k = 0; ok && k < need; k++) {
        int want = pi[3 - need + k];
        size_t at = nf - (size_t)need + (size_t)k;
        if (flen[at] != PAY[want].n || memcmp(frames[at], PAY[want].p, PAY[want].n) != 0)
            ok = 0;
    }
    if (!ok) {
        char got[200];
        size_t o = 0;
        got[0] = 0;
        for (size_t i = 0; i < nf && o < 150; i++)
            o += (size_t)snprintf(got + o, sizeof got - o, "[%s]", flen[i] == 99 ? "long" : vh_hex(frames[i], flen[i]));
        vh_fail("resync-after-long-noise", key, "broken frame 41 db 41, %zu octets %02x, delimiter at stream offset %zu, then %s: delivered %s, the last %d must be payloads %d,%d,%d",
                L, fillers[sel % 4], gn, vh_hex(stream + gn + 1, sn - gn - 1), got, need, pi[0], pi[1], pi[2]);
    }
}

static void
u_longnoise(uint64_t idx, void *arg)
{
    (void)arg;
    static const size_t centre[] = { 256, 1024, 4096, 8192, 16384, 32768, 65536, 12288 };
    const size_t c = centre[idx % 8];
    unsigned sel = (unsigned)(vh_unit_salt % 1000);
    for (size_t L = c - 8; L <= c + 8; L++)
        for (int cfg = 0; cfg < 8; cfg++) {
            vh_case_tag("longnoise");
            check_longnoise(L, cfg & 1, (cfg >> 1) & 1, (cfg >> 2) & 1, sel++);
        }
    vh_sig(0x12400000ull ^ idx);
}

/* error injection at every source position and sink position */
static void
check_errors(const unsigned char *p, size_t n, int sof, int srcchunk, int sinkchunk)
{
    const char *key = modekey(sof, srcchunk, sinkchunk);
    static unsigned char enc[4200];
    size_t encn = ref_encode(sof, p, n, enc);
    RFC1055Context ctx;
    Source src;
    Sink snk;
    struct tsrc ts;
    static struct tsink tk;
    /* encoder: source error at position k */
    for (size_t k = 0; k <= n; k++) {
        ctx_setup(&ctx, sof);
        mk_source(&src, &ts, srcchunk, p, n);
        mk_sink(&snk, &tk, sinkchunk);
        ERR_SRC = err_codes[(k) % NERR];
        ERR_SINK = sink_codes[(k + n) % NSINKERR];
        ts.fail_at = k;
        int rc = rfc1055_encode(&ctx, &src, &snk);
        if (rc != ERR_SRC)
            vh_fail("encode-source-error", key, "payload=%s error at %zu: rc=%d expected %d", vh_hex(p, n), k, rc,
                    ERR_SRC);
        VH_COUNT("encoder: source error injected");
    }
    /* encoder: sink error at octet k of the output */
    for (size_t k = 0; k < encn; k++) {
        ctx_setup(&ctx, sof);
        mk_source(&src, &ts, srcchunk, p, n);
        mk_sink(&snk, &tk, sinkchunk);
        ERR_SRC = err_codes[(k) % NERR];
        ERR_SINK = sink_codes[(k + n) % NSINKERR];
        tk.fail_at = k;
        tk.oneshot = (int)(k & 1); /* every second injected failure is transient */
        int rc = rfc1055_encode(&ctx, &src, &snk);
        if (rc != ERR_SINK)
            vh_fail("encode-sink-error", key, "payload=%s sink error at %zu: rc=%d expected %d", vh_hex(p, n), k, rc,
                    ERR_SINK);
        if (tk.n != k || memcmp(tk.buf, enc, k) != 0)
            vh_fail("encode-sink-prefix", key, "payload=%s sink error at %zu: sink holds %s", vh_hex(p, n), k,
                    vh_hex(tk.buf, tk.n));
        VH_COUNT("encoder: sink error injected");
    }
    /* decoder: source error at position k of the encoding */
    for (size_t k = 0; k < encn; k++) {
        ctx_setup(&ctx, sof);
        mk_source(&src, &ts, srcchunk, enc, encn);
        mk_sink(&snk, &tk, sinkchunk);
        ERR_SRC = err_codes[(k) % NERR];
        ERR_SINK = sink_codes[(k + n) % NSINKERR];
        ts.fail_at = k;
        int rc = rfc1055_decode(&ctx, &src, &snk);
        if (rc != ERR_SRC)
            vh_fail("decode-source-error", key, "payload=%s error at %zu: rc=%d expected %d", vh_hex(p, n), k, rc,
                    ERR_SRC);
        VH_COUNT("decoder: source error injected");
    }
    /* decoder: sink error at octet k of the payload */
    for (size_t k = 0; k < n; k++) {
        ctx_setup(&ctx, sof);
        mk_source(&src, &ts, srcchunk, enc, encn);
        mk_sink(&snk, &tk, sinkchunk);
        ERR_SRC = err_codes[(k) % NERR];
        ERR_SINK = sink_codes[(k + n) % NSINKERR];
        tk.fail_at = k;
        tk.oneshot = (int)(k & 1); /* every second injected failure is transient */
        int rc = rfc1055_decode(&ctx, &src, &snk);
        if (rc != ERR_SINK)
            vh_fail("decode-sink-error", key, "payload=%s sink error at %zu: rc=%d expected %d", vh_hex(p, n), k, rc,
                    ERR_SINK);
        VH_COUNT("decoder: sink error injected");
    }
}

/* A transient source error at every position of a stream of three frames, decoding carried on with the SAME
 * context afterwards: an error between two frames has consumed nothing, so every frame must still arrive; an
 * error inside a frame may cost that frame, the ones behind it must arrive intact and in order. */
static void
check_resume(const unsigned char *g, size_t gn, int sof, int srcchunk, int sinkchunk, unsigned sel)
{
    const char *key = modekey(sof, srcchunk, sinkchunk);
    unsigned char stream[128];
    size_t sn = 0, bound[4];
    int pi[3] = { (int)(sel % 5), (int)((sel / 5) % 5), (int)((sel / 25) % 5) };
    /* the first frame carries the string under test as payload (when it is not empty) */
    bound[0] = 0;
    if (gn) {
        sn += ref_encode(sof, g, gn, stream + sn);
    } else {
        sn += ref_encode(sof, PAY[pi[0]].p, PAY[pi[0]].n, stream + sn);
    }
    bound[1] = sn;
    sn += ref_encode(sof, PAY[pi[1]].p, PAY[pi[1]].n, stream + sn);
    bound[2] = sn;
    sn += ref_encode(sof, PAY[pi[2]].p, PAY[pi[2]].n, stream + sn);
    bound[3] = sn;
    const unsigned char *want[3] = { gn ? g : PAY[pi[0]].p, PAY[pi[1]].p, PAY[pi[2]].p };
    const size_t wantn[3] = { gn ? gn : PAY[pi[0]].n, PAY[pi[1]].n, PAY[pi[2]].n };
    for (size_t pos = 0; pos <= sn; pos++) {
        unsigned char *pin = vh_arena_copy(stream, sn);
        RFC1055Context ctx;
        ctx_setup(&ctx, sof);
        Source src;
        Sink snk;
        struct tsrc ts;
        static struct tsink tk;
        mk_source(&src, &ts, srcchunk, pin, sn);
        ERR_SRC = err_codes[(pos) % NERR];
        ERR_SINK = err_codes[(pos + 4) % NERR];
        ts.fail_at = pos;
        ts.bound = (unsigned)(3 * sn + 32);
        unsigned char frames[16][16];
        size_t flen[16], nf = 0;
        int nerr = 0;
        for (unsigned call = 0; call < sn + 6; call++) {
            mk_sink(&snk, &tk, sinkchunk);
            int rc = rfc1055_decode(&ctx, &src, &snk);
            if (ts.runaway) {
                vh_fail("decode-progress", key, "stream=%s error at %zu: more than %u source calls", vh_hex(stream, sn), pos,
                        ts.bound);
                return;
            }
            if (rc == ERR_SRC) {
                nerr++;
                continue; /* transient: carry on with the same context */
            }
            if (rc == -ENODATA)
                break;
            if (rc == 1 && tk.n > 0 && nf < 16) {
                flen[nf] = tk.n > 16 ? 99 : tk.n;
                memcpy(frames[nf], tk.buf, tk.n > 16 ? 16 : tk.n);
                nf++;
            }
        }
        /* which frames must arrive? */
        int first_required = 0;
        int at_boundary = pos == bound[0] || pos == bound[1] || pos == bound[2] || pos == bound[3];
        if (!at_boundary)
            for (int k = 0; k < 3; k++)
                if (pos > bound[k] && pos < bound[k + 1])
                    first_required = k + 1;
        if (at_boundary)
            VH_COUNT("resume: transient source error between two frames");
        else
            VH_COUNT("resume: transient source error inside a frame");
        int need = 3 - first_required;
        int ok = nf >= (size_t)need && nerr == 1;
        for (int k = 0; ok && k < need; k++) {
            size_t at = nf - (size_t)need + (size_t)k;
            int w = first_required + k;
            ok = flen[at] == wantn[w] && memcmp(frames[at], want[w], wantn[w]) == 0;
        }
        if (!ok) {
            char got[300];
            size_t o = 0;
            got[0] = 0;
            for (size_t i = 0; i < nf && o < 250; i++)
                o += (size_t)snprintf(got + o, sizeof got - o, "[%s]", flen[i] == 99 ? "long" : vh_hex(frames[i], flen[i]));
            vh_fail("resume-after-source-error", key,
                    "stream=%s transient source error before octet %zu (%s): delivered %s, %d error returns; the last %d "
                    "frames must be intact", vh_hex(stream, sn), pos, at_boundary ? "between frames" : "inside a frame", got,
                    nerr, need);
        }
    }
}

/* ---- units ---- */

static void
str_of(uint64_t x, size_t n, unsigned char *s)
{
    for (size_t i = 0; i < n; i++) {
        s[i] = alpha[x % 5];
        x /= 5;
    }
}

/* all strings of length n whose first (two) symbols are selected by idx */
static void
u_strings(uint64_t idx, void *arg)
{
    size_t n = (size_t)(intptr_t)arg;
    uint64_t total = 1;
    for (size_t i = 0; i < n; i++)
        total *= 5;
    uint64_t units = n == 0 ? 1 : n == 1 ? 5 : 25;
    uint64_t part = total / units;
    unsigned char s[16];
    for (uint64_t k = 0; k < part; k++) {
        uint64_t x = k * units + idx;
        str_of(x, n, s);
        vh_arena_reset();
        VH_CASE2(n, x);
        for (int cfg = 0; cfg < 8; cfg++) {
            int sof = cfg & 1, sc = (cfg >> 1) & 1, kc = (cfg >> 2) & 1;
            VH_SUB(2, cfg);
            vh_case_tag("payload");
            check_payload(s, n, sof, sc, kc);
            vh_case_tag("raw");
            check_raw(s, n, sof, sc, kc);
            vh_case_tag("garbage");
            check_garbage(s, n, sof, sc, kc, (unsigned)(x + (uint64_t)cfg));
        }
        if (n <= 4 || (x % 11) == 0) {
            vh_case_tag("resume");
            for (int cfg = 0; cfg < 8; cfg++) {
                vh_arena_reset();
                check_resume(s, n, cfg & 1, (cfg >> 1) & 1, (cfg >> 2) & 1, (unsigned)(x + (uint64_t)cfg));
            }
        }
        if (n <= 5 || (x % 7) == 0) {
            vh_case_tag("errors");
            for (int cfg = 0; cfg < 8; cfg++)
                check_errors(s, n, cfg & 1, (cfg >> 1) & 1, (cfg >> 2) & 1);
        }
        *vh_ncases += 24;
        if (n <= 4)
            vh_sig(0x12000000ull ^ ((uint64_t)n << 40) ^ x);
    }
    vh_sig(0x12100000ull ^ ((uint64_t)n << 40) ^ idx);
    vh_countf("enumerated strings of length %zu", n);
    if (idx == 1 && n == 3) {
        unsigned char e[32];
        size_t en = ref_encode(1, s, n, e);
        vh_sample("payload", "payload %s -> SOF encoding %s", vh_hex(s, n), vh_hex(e, en));
        vh_sample("garbage", "garbage prefix %s before three well-formed frames", vh_hex(s, n));
    }
}

/* every octet value in the positions where the codec looks at values: alone, behind an escape octet, between
 * ordinary octets, in front of a delimiter - as payload, as raw decoder input and as garbage prefix */
static void
u_octets(uint64_t idx, void *arg)
{
    (void)arg;
    for (unsigned v = (unsigned)idx * 16; v < (unsigned)idx * 16 + 16; v++) {
        const unsigned char c = (unsigned char)v;
        const unsigned char forms[][5] = { { c }, { ESC, c }, { 0x41, ESC, c, 0x42, END }, { c, ESC, c, END }, { ESC, c, END },
                                           { c, c, END }, { END, ESC, c, 0x43 } };
        const size_t lens[] = { 1, 2, 5, 4, 3, 3, 4 };
        for (size_t f = 0; f < sizeof lens / sizeof lens[0]; f++)
            for (int cfg = 0; cfg < 8; cfg++) {
                int sof = cfg & 1, sc = (cfg >> 1) & 1, kc = (cfg >> 2) & 1;
                vh_arena_reset();
                VH_CASE4(v, f, cfg, 0);
                vh_case_tag("payload");
                check_payload(forms[f], lens[f], sof, sc, kc);
                vh_case_tag("raw");
                check_raw(forms[f], lens[f], sof, sc, kc);
                vh_case_tag("garbage");
                check_garbage(forms[f], lens[f], sof, sc, kc, v + (unsigned)cfg);
                *vh_ncases += 3;
            }
    }
    VH_COUNT("every octet value behind an escape octet as raw decoder input");
    vh_sig(0x12300000ull ^ idx);
}

static void
u_random(uint64_t idx, void *arg)
{
    (void)arg;
    vh_rng r;
    vh_unit_rng(&r, "random", idx);
    static unsigned char p[1024];
    for (int k = 0; k < 24; k++) {
        vh_arena_reset();
        size_t n = (size_t)vh_below(&r, 1025);
        int mode = (int)vh_below(&r, 3);
        for (size_t i = 0; i < n; i++)
            p[i] = mode == 0 ? (unsigned char)vh_rand(&r) : mode == 1 ? alpha[vh_below(&r, 5)]
                                                                       : (vh_chance(&r, 1, 2) ? END : ESC);
        VH_CASE4(idx, k, n, mode);
        int cfg = (int)vh_below(&r, 8);
        check_payload(p, n, cfg & 1, (cfg >> 1) & 1, (cfg >> 2) & 1);
        /* the same octets as what arrives on the line: arbitrary octets behind escapes, delimiters anywhere */
        {
            size_t rn = n > 96 ? 96 : n;
            vh_case_tag("raw");
            check_raw(p, rn, cfg & 1, (cfg >> 1) & 1, (cfg >> 2) & 1);
            vh_case_tag("garbage");
            check_garbage(p, rn > 16 ? 16 : rn, cfg & 1, (cfg >> 1) & 1, (cfg >> 2) & 1, (unsigned)(idx + (uint64_t)k));
            VH_COUNT("random octets as raw decoder input");
            /* the same octets, control-heavy, to two decoders working alternately */
            size_t half = rn / 2;
            vh_case_tag("interleaved");
            check_interleaved(p, half, p + half, rn - half, (cfg >> 1) & 1, (cfg >> 2) & 1);
            vh_case_tag("tunnel");
            check_tunnel(p, rn > 60 ? 60 : rn, cfg & 1, (cfg >> 1) & 1, (cfg >> 2) & 1);
        }
        if (mode == 2)
            VH_COUNT("random payload of control characters only (worst-case length)");
        vh_sig(0x12200000ull ^ (idx << 8) ^ (uint64_t)k);
    }
    vh_sample("random payload", "length %zu first octets %s", (size_t)1024, vh_hex(p, 12));
}

void
harness_run(void)
{
    size_t maxlen = vh_tier ? 10 : 7;
    for (size_t n = 0; n <= maxlen; n++) {
        char gen[32];
        snprintf(gen, sizeof gen, "strings-%zu", n);
        for (uint64_t i = 0; i < (n == 0 ? 1u : n == 1 ? 5u : 25u); i++)
            vh_unit(gen, i, u_strings, (void *)(intptr_t)n);
    }
    for (uint64_t i = 0; i < 16; i++)
        vh_unit("octets", i, u_octets, NULL);
    for (uint64_t i = 0; i < (vh_tier ? 10000u : 100u); i++)
        vh_unit("random", i, u_random, NULL);
    for (uint64_t i = 0; i < 8; i++)
        vh_unit("longnoise", i, u_longnoise, NULL);
    vh_require("long noise: frame broken by an invalid escape, then a long run without delimiter");
    vh_require("every octet value behind an escape octet as raw decoder input");
    vh_require("random octets as raw decoder input");
    vh_require("encoding with a context the decoder has been working with");
    vh_require("chunk sink that takes only part of what it is offered");
    vh_require("two decoders interleaved call by call");
    vh_require("encoder writing into a sink that encodes what it receives (nested encoder calls)");
    static const char *req[] = { "payload encoded, compared and round-tripped", "raw input: frame delivered",
                                 "raw input: illegal sequence reported", "raw input: source end returned unchanged",
                                 "garbage: prefix empty or ending in a delimiter (all three frames required)",
                                 "garbage: unsynchronised prefix (at most the first frame may be lost)",
                                 "encoder: source error injected", "encoder: sink error injected",
                                 "decoder: source error injected", "decoder: sink error injected",
                                 "random payload of control characters only (worst-case length)",
                                 "enumerated strings of length 7",
                                 "resume: transient source error between two frames",
                                 "resume: transient source error inside a frame" };
    for (size_t i = 0; i < sizeof req / sizeof req[0]; i++)
        vh_require(req[i]);
}
