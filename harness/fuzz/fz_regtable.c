/* libFuzzer target for C05 (and through it the typed and block paths of C01
 * and C02): the histories of c05_history.c with every "random" choice - table
 * layout, register types, constraints and bounds, operations, operands -
 * drawn from the fuzzer's input instead of a seeded generator (vh_rng_stream),
 * so that coverage feedback steers tables and operands into value-dependent
 * branches of the validators and serialisers. Same model, same oracles.
 *
 * Input: octet 0 bit 0: history / corruption workload, bit 1: tables with
 * always-failing registers; the rest is the choice stream (8 octets per draw). */
#include "../c05_history.c"

#include <unistd.h>

int LLVMFuzzerTestOneInput(const uint8_t *data, size_t size);
int LLVMFuzzerInitialize(int *argc, char ***argv);

int
LLVMFuzzerInitialize(int *argc, char ***argv)
{
    (void)argc;
    (void)argv;
    const char *d = getenv("FZ_GEN_CORPUS");
    if (d && *d) {
        /* seeds: choice streams taken from the seeded generator the harness uses */
        for (unsigned i = 0; i < 24; i++) {
            unsigned char in[3001];
            vh_rng r;
            vh_rng_seed(&r, 0x05f0, i);
            in[0] = (unsigned char)i;
            for (size_t k = 1; k + 8 <= sizeof in; k += 8) {
                uint64_t v = vh_rand(&r);
                /* small draws now and then: low option numbers, small counts */
                if (vh_rand(&r) % 3 == 0)
                    v %= 16;
                memcpy(in + k, &v, 8);
            }
            char path[600];
            snprintf(path, sizeof path, "%s/seed-%02u", d, i);
            FILE *f = fopen(path, "wb");
            if (f) {
                fwrite(in, 1, 200 + 117 * i, f);
                fclose(f);
            }
        }
        _exit(0);
    }
    return 0;
}

int
LLVMFuzzerTestOneInput(const uint8_t *data, size_t size)
{
    if (size < 9 || size > 3001)
        return 0;
    vh_rng rg;
    vh_rng_stream(&rg, data + 1, size - 1);
    if (data[0] & 1)
        corrupt_body(0, &rg);
    else
        history_body((data[0] >> 1) & 1, &rg);
    return 0;
}
