/* libFuzzer target for C14: coverage-guided octet strings (up to 11 octets)
 * through all four buffer decoders and all four source decoders with the
 * oracle of c14_varint.c (reference LEB128 decoder, exact-size poisoned
 * blocks), plus an encode/decode round trip of the first eight octets taken
 * as a value. */
#include "../c14_varint.c"

#include <unistd.h>

int LLVMFuzzerTestOneInput(const uint8_t *data, size_t size);
int LLVMFuzzerInitialize(int *argc, char ***argv);

int
LLVMFuzzerInitialize(int *argc, char ***argv)
{
    (void)argc;
    (void)argv;
    const char *d = getenv("FZ_GEN_CORPUS");
    if (d && *d) {
        static const unsigned char seeds[][11] = { { 0x00 }, { 0x7f }, { 0x80, 0x01 }, { 0xff, 0xff, 0xff, 0xff, 0x0f },
                                                   { 0xff, 0xff, 0xff, 0xff, 0xff, 0xff, 0xff, 0xff, 0xff, 0x01 },
                                                   { 0x80, 0x80, 0x80, 0x80, 0x80, 0x80, 0x80, 0x80, 0x80, 0x80, 0x80 } };
        static const size_t lens[] = { 1, 1, 2, 5, 10, 11 };
        for (size_t i = 0; i < 6; i++) {
            char path[600];
            snprintf(path, sizeof path, "%s/seed-%zu", d, i);
            FILE *f = fopen(path, "wb");
            if (f) {
                fwrite(seeds[i], 1, lens[i], f);
                fclose(f);
            }
        }
        _exit(0);
    }
    return 0;
}

int
LLVMFuzzerTestOneInput(const uint8_t *data, size_t size)
{
    if (size > 11)
        return 0;
    vh_arena_reset();
    setup_blocks();
    decode_string(data, size);
    if (size >= 8) {
        uint64_t v;
        memcpy(&v, data, 8);
        for (int t = 0; t < 4; t++)
            roundtrip(t, v);
    }
    return 0;
}
