/* libFuzzer target for C09 (and the classification half of C07): coverage
 * guided octet streams through regp_recv / regp_process / regp_free with the
 * same monitors as c09_regp_safety.c (ledger allocator on exact-size
 * poisoned blocks, backend room monitor, reference decoder on the replies).
 *
 * Input layout: octet 0: bit0 serial, bit1 16-bit memory, bits 2..4 block
 * size selector, bits 5..7 getbuffer window selector; octet 1: index of the
 * allocation that fails (>= 8: none); octet 2: position of a channel error
 * (0xff: none); octet 3: backend verdict; rest: wire octets. */
#include "../rp_common.h"

#include <unistd.h>

const char *harness_name = "fz_regp";
void harness_run(void) {}

static struct rp_h H;
static struct rp_split SP;

int LLVMFuzzerTestOneInput(const uint8_t *data, size_t size);
int LLVMFuzzerInitialize(int *argc, char ***argv);

/* seed corpus: FZ_GEN_CORPUS=<dir> makes the binary write a few structured inputs and exit */
static void
gen_corpus(const char *dir)
{
    unsigned char raw[300], wire[700], in[800], pl[64];
    int nfile = 0;
    for (int serial = 0; serial < 2; serial++)
        for (int type = 0; type < 5; type++)
            for (int w16 = 0; w16 < 2; w16++)
                for (int n = 0; n < 3; n++) {
                    struct rframe f;
                    memset(&f, 0, sizeof f);
                    f.type = type == 4 ? RT_META : (unsigned)type;
                    f.meta = type == 4 ? 1 : 0;
                    f.seq = (uint16_t)(nfile * 7);
                    f.addr = 0x100u + (uint32_t)nfile;
                    size_t words = (size_t)n * 5;
                    size_t plen = (f.type == RT_READ_REQ || f.type == RT_META) ? 0 : words * (w16 ? 2u : 1u);
                    for (size_t i = 0; i < plen; i++)
                        pl[i] = (unsigned char)(i * 3 + 1);
                    f.bsize = (uint32_t)words;
                    f.payload = pl;
                    f.plen = plen;
                    f.options = (w16 ? ROPT_W16 : 0) | (serial ? ROPT_HDCRC : 0) | (serial && plen ? ROPT_PLCRC : 0);
                    size_t rn = rp_encode_raw(&f, raw);
                    size_t wn = rp_wire(serial, raw, rn, wire);
                    in[0] = (unsigned char)(serial | (w16 << 1) | ((nfile % 6) << 2));
                    in[1] = 0xff;
                    in[2] = 0xff;
                    in[3] = (unsigned char)(nfile % 12);
                    memcpy(in + 4, wire, wn);
                    /* two frames back to back in every third seed */
                    size_t total = 4 + wn;
                    if (nfile % 3 == 0) {
                        memcpy(in + total, wire, wn);
                        total += wn;
                    }
                    char path[600];
                    snprintf(path, sizeof path, "%s/seed-%03d", dir, nfile++);
                    FILE *fp = fopen(path, "wb");
                    if (fp) {
                        fwrite(in, 1, total, fp);
                        fclose(fp);
                    }
                }
}

int
LLVMFuzzerInitialize(int *argc, char ***argv)
{
    (void)argc;
    (void)argv;
    const char *d = getenv("FZ_GEN_CORPUS");
    if (d && *d) {
        gen_corpus(d);
        _exit(0);
    }
    return 0;
}

int
LLVMFuzzerTestOneInput(const uint8_t *data, size_t size)
{
    if (size < 4 || size > 1500)
        return 0;
    static const size_t bs[] = { 65, 70, 77, 80, 96, 128, 200, 365 };
    static const size_t wins[] = { 0, 0, 0, 0, 2, 16, 17, 40 };
    int serial = data[0] & 1, mem16 = (data[0] >> 1) & 1;
    vh_arena_reset();
    rp_next_window = serial ? 0 : wins[(data[0] >> 5) & 7];
    rp_setup(&H, serial, mem16, bs[(data[0] >> 2) & 7]);
    H.fail_alloc_at = data[1] < 8 ? data[1] : -1;
    rp_feed(&H, data + 4, size - 4);
    H.in_bound = (unsigned)(4 * size + 200);
    if (data[2] != 0xff)
        H.in_fail_at = data[2] % (size - 3);
    H.verdict.status = (RPResponse)(data[3] % 12);
    H.verdict.address = 0x11223344u;
    for (int round = 0; round < 64; round++) {
        size_t before = H.in_pos;
        H.out_n = 0;
        H.ncalls = 0;
        H.backend_small_buffer = 0;
        RPMaybeFrame mf;
        memset(&mf, 0x5a, sizeof mf);
        int rc = regp_recv(&H.p, &mf);
        if (rc < 0 && mf.frame != NULL)
            vh_fail("frame-returned-with-channel-error", "target=fz_regp", "rc=%d", rc);
        if (rc < 0 && !H.in_runaway && rp_live_blocks(&H) != 0)
            vh_fail("block-leaked-on-channel-error", "target=fz_regp", "rc=%d live=%d", rc, rp_live_blocks(&H));
        if (rc >= 0) {
            regp_process(&H.p, &mf);
            regp_free(&H.p, mf.frame);
        }
        if (H.in_runaway)
            vh_fail("no-progress", "target=fz_regp", "more than %u source calls", H.in_bound);
        if (rp_live_blocks(&H) != 0 || H.bad_free)
            vh_fail("block-ledger", "target=fz_regp", "live=%d bad free=%d", rp_live_blocks(&H), H.bad_free);
        if (H.backend_small_buffer)
            vh_fail("backend-buffer-too-small", "target=fz_regp", "asked %zu words, room %zu", H.call[0].n, H.call[0].room);
        for (int i = 0; i < H.ncalls && i < 8; i++)
            if (H.call[i].room == SIZE_MAX)
                vh_fail("backend-pointer-outside-block", "target=fz_regp", "call %d", i);
        if (H.ncalls > 1)
            vh_fail("more-than-one-access", "target=fz_regp", "%d backend calls for one frame", H.ncalls);
        int nf = rp_unframe(serial, H.out, H.out_n, &SP);
        struct rframe r;
        if (nf < 0 || nf > 1 || (nf == 1 && rp_decode_raw(SP.raw[0], SP.len[0], &r) != 0))
            vh_fail("reply-malformed", "target=fz_regp", "%d reply frames in %zu octets", nf, H.out_n);
        /* a frame the reference decoder rejects must not reach the backend nor be acknowledged; when the
         * receiver got a whole frame its verdict must be the reference's */
        if (rc >= 0 && mf.error.id != ENOMEM && mf.error.id != EBUSY && serial == 0 && H.winsize == 0) {
            /* TCP, single frame boundaries are known from the prefix: re-derive the raw frame */
            const unsigned char *w = H.in + before;
            size_t avail = H.in_pos - before, i = 0;
            uint64_t len = 0;
            int sh = 0, ok = 1;
            for (;;) {
                if (i >= avail || sh > 63) {
                    ok = 0;
                    break;
                }
                unsigned char c = w[i++];
                len |= (uint64_t)(c & 0x7f) << sh;
                sh += 7;
                if (!(c & 0x80))
                    break;
            }
            if (ok && len == avail - i) {
                struct rframe f;
                int v = rp_decode_raw(w + i, (size_t)len, &f);
                if (mf.error.id != v)
                    vh_fail("classification", "target=fz_regp", "error.id=%d reference %d for %s", mf.error.id, v,
                            vh_hex(w + i, (size_t)len > 40 ? 40 : (size_t)len));
                if (v != 0 && H.ncalls)
                    vh_fail("corrupted-frame-executed", "target=fz_regp", "reference verdict %d", v);
            }
        }
        rp_ledger_gc(&H);
        if (H.in_pos >= H.in_n && (rc < 0 || H.in_pos == before))
            break;
        if (rc < 0 && H.in_pos == before)
            break;
    }
    return 0;
}
