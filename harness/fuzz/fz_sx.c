/* libFuzzer target for C20: coverage-guided strings through the s-expression
 * reader. Oracles: exact-size poisoned input (over-read = ASan report),
 * allocation ledger, "error => no tree", position inside the input, and the
 * printer-inverse law on whatever tree comes back: printing it (decimal and
 * upper-case hex) and reading it again yields an identical tree. */
#include "../common/vh.h"

#include <unistd.h>
#include <ufw/sx.h>

const char *harness_name = "fz_sx";
void harness_run(void) {}
size_t __sanitizer_get_current_allocated_bytes(void);
int LLVMFuzzerTestOneInput(const uint8_t *data, size_t size);
int LLVMFuzzerInitialize(int *argc, char ***argv);

static char out[1 << 16];
static size_t on;

static int
print(const struct sx_node *n, int hex, int depth)
{
    if (n == NULL || depth > 2000 || on > sizeof out - 64)
        return 0;
    switch (n->type) {
    case SXT_SYMBOL: {
        size_t l = strlen(n->data.symbol);
        if (on + l + 2 > sizeof out)
            return 0;
        memcpy(out + on, n->data.symbol, l);
        on += l;
        return 1;
    }
    case SXT_INTEGER:
        on += (size_t)sprintf(out + on, hex ? "#x%" PRIX64 : "%" PRIu64, n->data.u64);
        return 1;
    case SXT_EMPTY_LIST:
        out[on++] = '(';
        out[on++] = ')';
        return 1;
    default: {
        out[on++] = '(';
        int first = 1;
        while (n && n->type == SXT_PAIR) {
            if (!first)
                out[on++] = ' ';
            first = 0;
            if (!print(n->data.pair->car, hex, depth + 1))
                return 0;
            n = n->data.pair->cdr;
        }
        if (n == NULL || n->type != SXT_EMPTY_LIST)
            return 0; /* improper list: cannot come out of the reader */
        out[on++] = ')';
        return 1;
    }
    }
}

static int
same(const struct sx_node *a, const struct sx_node *b)
{
    if (a == NULL || b == NULL || a->type != b->type)
        return 0;
    switch (a->type) {
    case SXT_SYMBOL: return strcmp(a->data.symbol, b->data.symbol) == 0;
    case SXT_INTEGER: return a->data.u64 == b->data.u64;
    case SXT_EMPTY_LIST: return 1;
    default:
        while (a && b && a->type == SXT_PAIR && b->type == SXT_PAIR) {
            if (!same(a->data.pair->car, b->data.pair->car))
                return 0;
            a = a->data.pair->cdr;
            b = b->data.pair->cdr;
        }
        return a && b && a->type == SXT_EMPTY_LIST && b->type == SXT_EMPTY_LIST;
    }
}

int
LLVMFuzzerInitialize(int *argc, char ***argv)
{
    (void)argc;
    (void)argv;
    const char *d = getenv("FZ_GEN_CORPUS");
    if (d && *d) {
        static const char *seeds[] = { "()", "(a b c)", "((1 (a b c) 3) (q w e) r t (5) 6)", "#x1F", "foo-bar", " ( a\n( ) #xff 12 )",
                                       "(a (b (c (d))))", "18446744073709551615", "(+ 1 2) trailing", "(a", ")", "#x", "1a" };
        for (size_t i = 0; i < sizeof seeds / sizeof seeds[0]; i++) {
            char path[600];
            snprintf(path, sizeof path, "%s/seed-%02zu", d, i);
            FILE *f = fopen(path, "wb");
            if (f) {
                fwrite(seeds[i], 1, strlen(seeds[i]), f);
                fclose(f);
            }
        }
        _exit(0);
    }
    return 0;
}

/* one pass over an input; returns non-zero when the allocation counter of the sanitizer runtime differs before and
 * after (the caller decides what to make of that) */
static int
one_pass(const uint8_t *data, size_t size)
{
    int unbalanced = 0;
    vh_arena_reset();
    char *in = vh_arena(size);
    memcpy(in, data, size);
    size_t before = __sanitizer_get_current_allocated_bytes();
    struct sx_parse_result r = sx_parse_stringn(in, size);
    if (r.status != SXS_SUCCESS) {
        if (r.node != NULL)
            vh_fail("tree-on-error", "target=fz_sx", "status=%d with a tree for %s", r.status, vh_hex(data, size));
    } else {
        if (r.node == NULL)
            vh_fail("success-without-tree", "target=fz_sx", "input %s", vh_hex(data, size));
        if (r.position > size)
            vh_fail("position-outside-input", "target=fz_sx", "position %zu of %zu", r.position, size);
        for (int hex = 0; hex < 2; hex++) {
            on = 0;
            if (!print(r.node, hex, 0))
                continue;
            char *again = vh_arena(on);
            memcpy(again, out, on);
            struct sx_parse_result r2 = sx_parse_stringn(again, on);
            if (r2.status != SXS_SUCCESS || !same(r.node, r2.node) || r2.position != on)
                vh_fail("printer-inverse", "target=fz_sx", "printed '%.*s' (from %s) reads back with status %d position %zu/%zu",
                        (int)(on > 200 ? 200 : on), out, vh_hex(data, size > 60 ? 60 : size), r2.status, r2.position, on);
            sx_destroy(&r2.node);
        }
    }
    sx_destroy(&r.node);
    if (__sanitizer_get_current_allocated_bytes() != before)
        unbalanced = 1;
    /* NUL-terminated entry point on the same text must agree on the verdict when the text has no NUL inside */
    if (memchr(data, 0, size) == NULL) {
        char *z = vh_arena(size + 1);
        memcpy(z, data, size);
        z[size] = 0;
        struct sx_parse_result r3 = sx_parse_string(z);
        if ((r3.status == SXS_SUCCESS) != (r.status == SXS_SUCCESS) || (r3.status == SXS_SUCCESS && r3.position != r.position))
            vh_fail("entry-points-disagree", "target=fz_sx", "stringn status %d position %zu, string status %d position %zu",
                    r.status, r.position, r3.status, r3.position);
        sx_destroy(&r3.node);
    }
    return unbalanced;
}

int
LLVMFuzzerTestOneInput(const uint8_t *data, size_t size)
{
    if (size > 4000)
        return 0;
    /* The counter is process-wide: a first call into the C library (formatted output, locale data) or the fuzzing
     * engine may allocate once between the two readings. A leak of the reader shows on every pass, so an
     * unbalanced pass is confirmed by two more before it is reported. */
    if (one_pass(data, size) && one_pass(data, size) && one_pass(data, size))
        vh_fail("leak", "target=fz_sx", "input %s: allocated octets differ before and after on three passes in a row", vh_hex(data, size > 60 ? 60 : size));
    return 0;
}
