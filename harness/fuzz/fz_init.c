/* libFuzzer target for C04: the description generator and mutator of
 * c04_init.c with every choice drawn from the fuzzer's input (vh_rng_stream,
 * eight octets per draw) - layout, register types and placement, constraints,
 * defaults, which rule gets broken, and whether the table object was
 * initialised before. Same rule checker, same post-conditions. */
#include "../c04_init.c"

#include <unistd.h>

int LLVMFuzzerTestOneInput(const uint8_t *data, size_t size);
int LLVMFuzzerInitialize(int *argc, char ***argv);

int
LLVMFuzzerInitialize(int *argc, char ***argv)
{
    (void)argc;
    (void)argv;
    const char *d = getenv("FZ_GEN_CORPUS");
    if (d && *d) {
        for (unsigned i = 0; i < 24; i++) {
            unsigned char in[1600];
            vh_rng r;
            vh_rng_seed(&r, 0x04f0, i);
            for (size_t k = 0; k + 8 <= sizeof in; k += 8) {
                uint64_t v = vh_rand(&r);
                if (vh_rand(&r) % 3 == 0)
                    v %= 16;
                memcpy(in + k, &v, 8);
            }
            char path[600];
            snprintf(path, sizeof path, "%s/seed-%02u", d, i);
            FILE *f = fopen(path, "wb");
            if (f) {
                fwrite(in, 1, 160 + 60 * i, f);
                fclose(f);
            }
        }
        _exit(0);
    }
    return 0;
}

int
LLVMFuzzerTestOneInput(const uint8_t *data, size_t size)
{
    if (size < 16 || size > 1600)
        return 0;
    vh_rng rg;
    vh_rng_stream(&rg, data, size);
    one_desc(0, 1000, &rg); /* 1000: past the curated layouts, every choice comes from the input */
    return 0;
}
