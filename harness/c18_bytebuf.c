/* C18 - byte buffers keep 0 <= offset <= used <= size and behave as a FIFO.
 *
 * Oracle: list model. Part 1 closes the reachable state set of buffers of
 * size 1..5 (fields + content over a two-value alphabet) by executing every
 * operation with every operand length 0..size+1 from every reached state.
 * Part 2: long random histories on buffers up to 300 octets. Buffer memory,
 * source and destination operands are exact-size poisoned-arena objects. */
#include "common/vh.h"

#include <errno.h>
#include <sys/types.h>
#include <ufw/byte-buffer.h>

const char *harness_name = "c18_bytebuf";

#define MAXSZ 66100

struct model {
    size_t size, used, offset;
    unsigned char img[MAXSZ];
};

static void
compare(const ByteBuffer *b, const unsigned char *mem, const struct model *m, const char *op, const char *ctx,
        int image_fixed)
{
    char key[64];
    snprintf(key, sizeof key, "op=%s", op);
    if (b->data != mem || b->size != m->size)
        vh_fail("fields", key, "%s: data/size changed (size=%zu model=%zu)", ctx, b->size, m->size);
    if (!(b->offset <= b->used && b->used <= b->size))
        vh_fail("invariant", key, "%s: offset=%zu used=%zu size=%zu", ctx, b->offset, b->used, b->size);
    if (b->used != m->used || b->offset != m->offset) {
        vh_fail("marks", key, "%s: offset=%zu used=%zu, model offset=%zu used=%zu", ctx, b->offset, b->used,
                m->offset, m->used);
        return;
    }
    /* the filled region [0, used) is what add/consume/repeat/rewind define */
    if (memcmp(mem, m->img, m->used) != 0)
        vh_fail("content", key, "%s: filled region %s, model %s (offset=%zu used=%zu)", ctx, vh_hex(mem, m->used),
                vh_hex(m->img, m->used), m->offset, m->used);
    if (image_fixed && memcmp(mem, m->img, m->size) != 0)
        vh_fail("image", key, "%s: memory image %s, model %s", ctx, vh_hex(mem, m->size), vh_hex(m->img, m->size));
    if (byte_buffer_avail(b) != m->size - m->used || byte_buffer_rest(b) != m->used - m->offset)
        vh_fail("avail-rest", key, "%s: avail=%zu rest=%zu model %zu %zu", ctx, byte_buffer_avail(b),
                byte_buffer_rest(b), m->size - m->used, m->used - m->offset);
}

static int add_from_self;
static int consume_into_self; /* the next accepted consume delivers into the buffer's own memory, in front of the read mark */
static size_t atmost_huge; /* > 0: the next consume_at_most asks for this many octets */
enum { OP_ADD, OP_CONSUME, OP_ATMOST, OP_REWIND, OP_RESET, OP_CLEAR, OP_REPEAT, NOPS };
static const char *opname[] = { "add", "consume", "consume_at_most", "rewind", "reset", "clear", "repeat" };

/* apply one operation to implementation and model and compare.
 * src: n octets to add (for OP_ADD). */
static void
step(ByteBuffer *b, unsigned char *mem, struct model *m, int op, size_t n, const unsigned char *src, const char *ctx0)
{
    char ctx[200];
    snprintf(ctx, sizeof ctx, "%s %s(%zu) from offset=%zu used=%zu size=%zu", ctx0, opname[op], n, m->offset,
             m->used, m->size);
    const size_t before_used = m->used;
    static unsigned char memb[MAXSZ];
    memcpy(memb, mem, m->size);
    int image_fixed = 0;
    switch (op) {
    case OP_ADD: {
        /* the octets to append may come from the buffer's own memory (its first n octets, which do not overlap
         * the free space behind the filled region): src holds a copy of them then */
        unsigned char *s = add_from_self ? b->data : vh_arena_copy(src, n);
        int rc = byte_buffer_add(b, s, n);
        if (m->used + n > m->size) {
            VH_COUNT("add refused (insufficient space)");
            if (rc >= 0)
                vh_fail("add-accepts-overflow", "op=add", "%s: rc=%d", ctx, rc);
            image_fixed = 1;
        } else {
            VH_COUNT("add accepted");
            if (rc != 0)
                vh_fail("add-refuses", "op=add", "%s: rc=%d", ctx, rc);
            memcpy(m->img + m->used, src, n);
            m->used += n;
            image_fixed = 1;
        }
        break;
    }
    case OP_CONSUME: {
        unsigned char *d = vh_arena(n);
        /* a request that must be refused never needs its destination: now and then there is none (NULL), or
         * one that must not be touched (poisoned) */
        if (n > m->used - m->offset) {
            unsigned sel = (unsigned)(n + m->offset + 2 * m->used) % 3u;
            if (sel == 0) {
                d = NULL;
                VH_COUNT("consume that must be refused, without a destination");
            } else if (sel == 1) {
                vh_poison(d, n);
            }
        }
        /* compaction by hand: the destination lies in the buffer's own memory, within the octets that were consumed
         * before (somewhere in [0, offset) - disjoint from what is read, so as legal as any other destination) */
        size_t self_at = SIZE_MAX;
        static unsigned char self_exp[MAXSZ];
        if (consume_into_self && n > 0 && n <= m->used - m->offset && n <= m->offset) {
            self_at = (n + m->used) % (m->offset - n + 1);
            d = b->data + self_at;
            memcpy(self_exp, m->img + m->offset, n);
            VH_COUNT("consume into the buffer's own memory in front of the read mark");
        }
        int rc = byte_buffer_consume(b, d, n);
        if (self_at != SIZE_MAX && rc == 0) {
            /* that part of the memory holds the delivered octets now */
            memcpy(memb + self_at, self_exp, n);
            memcpy(m->img + self_at, self_exp, n);
            if (memcmp(d, self_exp, n) != 0)
                vh_fail("consume-data", "op=consume", "%s into own memory at %zu: got %s expected %s", ctx, self_at, vh_hex(d, n), vh_hex(self_exp, n));
            m->offset += n;
            image_fixed = 1;
            break;
        }
        if (n > m->used - m->offset) {
            VH_COUNT("consume refused (too few unread)");
            if (rc >= 0)
                vh_fail("consume-accepts-underflow", "op=consume", "%s: rc=%d", ctx, rc);
        } else {
            VH_COUNT("consume accepted");
            if (rc != 0)
                vh_fail("consume-refuses", "op=consume", "%s: rc=%d", ctx, rc);
            else if (memcmp(d, m->img + m->offset, n) != 0)
                vh_fail("consume-data", "op=consume", "%s: got %s expected %s", ctx, vh_hex(d, n),
                        vh_hex(m->img + m->offset, n));
            m->offset += n;
        }
        image_fixed = 1;
        break;
    }
    case OP_ATMOST: {
        size_t rest = m->used - m->offset;
        /* "whatever is there": a request far beyond anything a buffer can hold, with a destination that is exactly
         * as large as what is unread */
        size_t asked = n;
        if (atmost_huge && rest > 0) {
            asked = atmost_huge;
            n = rest;
        }
        unsigned char *d = vh_arena(n);
        if (rest == 0) {
            unsigned sel = (unsigned)(n + m->offset) % 3u;
            if (sel == 0)
                d = NULL;
            else if (sel == 1)
                vh_poison(d, n);
        }
        ssize_t rc = byte_buffer_consume_at_most(b, d, atmost_huge && rest > 0 ? asked : n);
        if (rest == 0) {
            VH_COUNT("consume_at_most refused (nothing unread)");
            if (rc >= 0)
                vh_fail("atmost-accepts-empty", "op=consume_at_most", "%s: rc=%zd", ctx, rc);
        } else {
            size_t k = n < rest ? n : rest;
            if (k < n)
                VH_COUNT("consume_at_most clipped");
            else
                VH_COUNT("consume_at_most full");
            if (rc != (ssize_t)k)
                vh_fail("atmost-count", "op=consume_at_most", "%s: rc=%zd expected %zu", ctx, rc, k);
            else if (memcmp(d, m->img + m->offset, k) != 0)
                vh_fail("atmost-data", "op=consume_at_most", "%s: got %s expected %s", ctx, vh_hex(d, k),
                        vh_hex(m->img + m->offset, k));
            m->offset += k;
        }
        image_fixed = 1;
        break;
    }
    case OP_REWIND: {
        int rc = byte_buffer_rewind(b);
        if (rc != 0)
            vh_fail("rewind-rc", "op=rewind", "%s: rc=%d", ctx, rc);
        size_t len = m->used - m->offset;
        if (m->offset > 0 && len > 0)
            VH_COUNT("rewind with consumed prefix and unread rest");
        else if (m->offset > 0)
            VH_COUNT("rewind with everything consumed");
        else
            VH_COUNT("rewind at offset 0");
        memmove(m->img, m->img + m->offset, len);
        m->offset = 0;
        m->used = len;
        break;
    }
    case OP_RESET:
        byte_buffer_reset(b);
        m->offset = m->used = 0;
        VH_COUNT("reset");
        break;
    case OP_CLEAR:
        byte_buffer_clear(b);
        m->offset = m->used = 0;
        memset(m->img, 0, m->size);
        image_fixed = 1;
        VH_COUNT("clear");
        break;
    default:
        byte_buffer_repeat(b);
        m->offset = 0;
        image_fixed = 1;
        VH_COUNT("repeat");
        break;
    }
    if (image_fixed && op != OP_CLEAR && op != OP_ADD) {
        /* operations that must not modify memory at all */
        if (memcmp(mem, memb, m->size) != 0)
            vh_fail("memory-modified", "op=any", "%s: memory changed from %s to %s", ctx, vh_hex(memb, m->size),
                    vh_hex(mem, m->size));
        image_fixed = 0;
    }
    if (op == OP_ADD && before_used == m->used) {
        /* refused add: nothing may change */
        if (memcmp(mem, memb, m->size) != 0)
            vh_fail("refused-add-modifies", "op=add", "%s: memory changed", ctx);
        image_fixed = 0;
    }
    if (op == OP_ADD && before_used != m->used) {
        /* accepted add: only [used, used+n) may change */
        memcpy(memb + before_used, src, n);
        if (memcmp(mem, memb, m->size) != 0)
            vh_fail("add-outside", "op=add", "%s: memory %s expected %s", ctx, vh_hex(mem, m->size),
                    vh_hex(memb, m->size));
        image_fixed = 0;
    }
    compare(b, mem, m, opname[op], ctx, image_fixed);
}

/* ---- closure ---- */

struct st {
    size_t used, offset;
    unsigned char mem[8];
    unsigned char img[8];
};

static void
u_closure(uint64_t idx, void *arg)
{
    (void)arg;
    /* units 0..4: sizes 1..5 with contents over {a1,b2}; units 5..9: the same over {00,a1} - a zero octet is what
     * cleared memory holds, so "was written" and "was cleared" can only be told apart with the first alphabet, and
     * anything keyed on the value zero only shows with the second */
    const size_t size = (size_t)(idx % 5) + 1;
    const unsigned char letter0 = idx >= 5 ? 0x00 : 0xA1, letter1 = idx >= 5 ? 0xA1 : 0xB2;
    enum { MAXST = 100000 };
    static struct st stv[MAXST];
    static uint64_t keys[MAXST];
    /* open-addressing index over keys */
    enum { HT = 1 << 20 };
    static uint32_t ht[HT];
    size_t nst = 0, work = 0, trans = 0;
    unsigned char *mem = vh_arena(size);
    memset(mem, 0, size);
    ByteBuffer b;
    int rc = byte_buffer_space(&b, mem, size);
    if (rc != 0)
        vh_fail("space", "op=space", "byte_buffer_space refused valid arguments: %d", rc);
    memset(&stv[0], 0, sizeof stv[0]);
    keys[0] = vh_hash(&stv[0], sizeof stv[0]);
    ht[(keys[0] >> 8) & (HT - 1)] = 1;
    nst = 1;
    struct model m;
    while (work < nst) {
        vh_arena_reset();
        mem = vh_arena(size);
        /* all operations x all operand lengths (x all contents for add) */
        for (int op = 0; op < NOPS; op++) {
            size_t maxn = (op <= OP_ATMOST) ? size + 1 : 0;
            for (size_t n = 0; n <= maxn; n++) {
                unsigned ncontent = (op == OP_ADD) ? (1u << n) : 1u;
                for (unsigned content = 0; content < ncontent; content++) {
                    struct st cur;
                    memcpy(&cur, &stv[work], sizeof cur);
                    VH_CASE4(size, work, op, n);
                    VH_SUB(4, content);
                    memcpy(mem, cur.mem, size);
                    b.data = mem;
                    b.size = size;
                    b.used = cur.used;
                    b.offset = cur.offset;
                    memset(&m, 0, sizeof m);
                    m.size = size;
                    m.used = cur.used;
                    m.offset = cur.offset;
                    memcpy(m.img, cur.img, size);
                    unsigned char src[8];
                    for (size_t i = 0; i < n && i < 8; i++)
                        src[i] = (content >> i) & 1u ? letter1 : letter0;
                    step(&b, mem, &m, op, n, src, "closure");
                    trans++;
                    memset(&cur, 0, sizeof cur);
                    cur.used = b.used;
                    cur.offset = b.offset;
                    memcpy(cur.mem, mem, size);
                    /* the model image is only meaningful in [0, used) (and everywhere after clear) */
                    memcpy(cur.img, mem, size);
                    if (b.used <= size)
                        memcpy(cur.img, m.img, m.used <= size ? m.used : size);
                    uint64_t k = vh_hash(&cur, sizeof cur);
                    uint32_t h = (uint32_t)(k >> 8) & (HT - 1);
                    int found = 0;
                    while (ht[h]) {
                        if (keys[ht[h] - 1] == k && memcmp(&stv[ht[h] - 1], &cur, sizeof cur) == 0) {
                            found = 1;
                            break;
                        }
                        h = (h + 1) & (HT - 1);
                    }
                    if (!found) {
                        if (nst >= MAXST) {
                            vh_broken("closure state table full at size %zu", size);
                            return;
                        }
                        memcpy(&stv[nst], &cur, sizeof cur);
                        keys[nst] = k;
                        nst++;
                        ht[h] = (uint32_t)nst;
                        vh_sig(k);
                    }
                }
            }
        }
        work++;
    }
    VH_COUNTN("closure: distinct states (offset, used, content)", nst);
    VH_COUNTN("closure: transitions executed", trans);
    vh_countf("closure complete size=%zu%s", size, idx >= 5 ? " with zero octets" : "");
    vh_sample("closure", "size=%zu alphabet={%02x,%02x}: %zu states, %zu transitions", size, letter0, letter1, nst, trans);
}

/* ---- set-up argument checks ---- */
static void
u_setup(uint64_t idx, void *arg)
{
    (void)arg;
    (void)idx;
    unsigned char *mem = vh_arena(16);
    ByteBuffer b;
    /* a descriptor that is given up: whatever state the buffer was in, afterwards it describes nothing - no memory,
     * nothing filled, nothing unread, no room */
    for (size_t size = 1; size <= 6; size++)
        for (size_t used = 0; used <= size; used++)
            for (size_t off = 0; off <= used; off++) {
                VH_CASE4(size, used, off, 7);
                if (byte_buffer_set(&b, mem, size, used, off) != 0) {
                    vh_fail("set-valid", "op=set", "size=%zu used=%zu offset=%zu refused", size, used, off);
                    continue;
                }
                byte_buffer_null(&b);
                if (b.data != NULL || b.size != 0 || b.used != 0 || b.offset != 0 || byte_buffer_avail(&b) != 0 || byte_buffer_rest(&b) != 0)
                    vh_fail("null", "op=null", "from size=%zu used=%zu offset=%zu: data=%p size=%zu used=%zu offset=%zu avail=%zu rest=%zu", size, used,
                            off, (void *)b.data, b.size, b.used, b.offset, byte_buffer_avail(&b), byte_buffer_rest(&b));
                VH_COUNT("descriptor given up (byte_buffer_null)");
                (*vh_ncases)++;
            }
    for (size_t size = 0; size <= 6; size++)
        for (size_t used = 0; used <= 7; used++)
            for (size_t off = 0; off <= 8; off++)
                for (int null = 0; null < 2; null++) {
                    VH_CASE4(size, used, off, null);
                    memset(&b, 0x77, sizeof b);
                    ByteBuffer before = b;
                    int rc = byte_buffer_set(&b, null ? NULL : mem, size, used, off);
                    int valid = !null && size > 0 && used <= size && off <= used;
                    if (valid) {
                        VH_COUNT("set accepted");
                        if (rc != 0 || b.data != mem || b.size != size || b.used != used || b.offset != off)
                            vh_fail("set-valid", "op=set", "size=%zu used=%zu offset=%zu rc=%d", size, used, off, rc);
                    } else {
                        VH_COUNT("set refused");
                        if (rc >= 0)
                            vh_fail("set-invalid-accepted", "op=set", "null=%d size=%zu used=%zu offset=%zu rc=%d",
                                    null, size, used, off, rc);
                        if (memcmp(&b, &before, sizeof b) != 0)
                            vh_fail("set-invalid-changes", "op=set", "null=%d size=%zu used=%zu offset=%zu", null,
                                    size, used, off);
                    }
                    vh_sig(0x18500000u ^ (size << 12) ^ (used << 8) ^ (off << 4) ^ (unsigned)null);
                }
    /* the same with values at the top of size_t (differences that wrap around) */
    {
        static const size_t ext[] = { 0, 1, 3, 8, 9, (size_t)-1, (size_t)-2, (size_t)-4, (size_t)-5, (size_t)-8, (size_t)-9,
                                      ((size_t)-1) / 2, ((size_t)-1) / 2 + 1, ((size_t)-1) / 2 + 2, (size_t)1 << 32, ((size_t)1 << 32) + 3 };
        const size_t ne = sizeof ext / sizeof ext[0];
        for (size_t si = 0; si < ne; si++)
            for (size_t ui = 0; ui < ne; ui++)
                for (size_t oi = 0; oi < ne; oi++) {
                    size_t size = ext[si], used = ext[ui], off = ext[oi];
                    VH_CASE4(size, used, off, 2);
                    memset(&b, 0x77, sizeof b);
                    ByteBuffer before = b;
                    int rc = byte_buffer_set(&b, mem, size, used, off);
                    int valid = size > 0 && used <= size && off <= used;
                    if (valid) {
                        if (rc != 0 || b.data != mem || b.size != size || b.used != used || b.offset != off)
                            vh_fail("set-valid", "op=set values=extreme", "size=%zx used=%zx offset=%zx rc=%d", size, used, off, rc);
                    } else {
                        if (rc >= 0)
                            vh_fail("set-invalid-accepted", "op=set values=extreme", "size=%zx used=%zx offset=%zx rc=%d", size, used,
                                    off, rc);
                        if (memcmp(&b, &before, sizeof b) != 0)
                            vh_fail("set-invalid-changes", "op=set values=extreme", "size=%zx used=%zx offset=%zx", size, used, off);
                    }
                    VH_COUNT("set-up with values at the extremes of size_t");
                }
    }
    for (size_t size = 0; size <= 6; size++)
        for (int null = 0; null < 2; null++) {
            int rc = byte_buffer_use(&b, null ? NULL : mem, size);
            int valid = !null && size > 0;
            if ((rc == 0) != valid || (valid && (b.used != size || b.offset != 0 || b.size != size)))
                vh_fail("use", "op=use", "null=%d size=%zu rc=%d", null, size, rc);
            rc = byte_buffer_space(&b, null ? NULL : mem, size);
            if ((rc == 0) != valid || (valid && (b.used != 0 || b.offset != 0 || b.size != size)))
                vh_fail("space", "op=space", "null=%d size=%zu rc=%d", null, size, rc);
            VH_COUNT("use/space checked");
        }
    vh_sample("setup", "byte_buffer_set(NULL,4,0,0)=%d set(mem,0,0,0)=%d set(mem,4,5,0)=%d set(mem,4,2,3)=%d",
              byte_buffer_set(&b, NULL, 4, 0, 0), byte_buffer_set(&b, mem, 0, 0, 0), byte_buffer_set(&b, mem, 4, 5, 0),
              byte_buffer_set(&b, mem, 4, 2, 3));
}

/* ---- random histories ---- */
static void
u_history(uint64_t idx, void *arg)
{
    (void)arg;
    vh_rng r;
    vh_unit_rng(&r, "history", idx);
    for (int k = 0; k < 10; k++) {
        vh_arena_reset();
        size_t size = 1 + (size_t)vh_below(&r, vh_chance(&r, 1, 3) ? 12 : 300);
        int large = vh_chance(&r, 1, 15);
        if (large) {
            /* sizes and operand lengths beyond 255 and 65535 */
            static const size_t big[] = { 255, 256, 257, 1000, 65535, 65536, 65537, 66000 };
            size = big[vh_below(&r, 8)];
            VH_COUNT("history: buffer size above 254");
        }
        unsigned char *mem = vh_arena(size);
        ByteBuffer b;
        static struct model m;
        memset(&m, 0, sizeof m);
        m.size = size;
        for (size_t j = 0; j < size; j++)
            mem[j] = (unsigned char)(j * 13u + 7u);
        memcpy(m.img, mem, size);
        /* the starting state comes from the set-up function or from one of the header's initialiser macros:
         * empty, full, or any legal (used, offset) pair */
        switch ((unsigned)vh_below(&r, 4)) {
        case 0:
            if (byte_buffer_space(&b, mem, size) != 0)
                vh_fail("space", "op=space", "refused size=%zu", size);
            break;
        case 1: {
            const ByteBuffer t = BYTE_BUFFER_EMPTY(mem, size);
            b = t;
            VH_COUNT("history starting from BYTE_BUFFER_EMPTY");
            break;
        }
        case 2: {
            const ByteBuffer t = BYTE_BUFFER(mem, size);
            b = t;
            m.used = size;
            VH_COUNT("history starting from BYTE_BUFFER (full)");
            break;
        }
        default: {
            size_t u = (size_t)vh_below(&r, size + 1), o = (size_t)vh_below(&r, u + 1);
            const ByteBuffer t = BYTE_BUFFER_INIT(mem, size, u, o);
            b = t;
            m.used = u;
            m.offset = o;
            VH_COUNT("history starting from BYTE_BUFFER_INIT");
            break;
        }
        }
        unsigned next = 1;
        size_t nops = large ? 120 : vh_tier ? 1500 : 400;
        char hist[160];
        size_t hl = 0;
        hist[0] = 0;
        for (size_t i = 0; i < nops; i++) {
            VH_CASE4(idx, k, size, i);
            if ((i & 15) == 0) {
                /* keep the arena from filling up: operands are re-carved */
                static unsigned char save[MAXSZ];
                memcpy(save, mem, size);
                vh_arena_reset();
                mem = vh_arena(size);
                memcpy(mem, save, size);
                b.data = mem;
            }
            unsigned x = (unsigned)vh_below(&r, 100);
            int op = x < 38 ? OP_ADD : x < 62 ? OP_CONSUME : x < 80 ? OP_ATMOST : x < 90 ? OP_REWIND
                     : x < 93 ? OP_RESET : x < 95 ? OP_CLEAR : OP_REPEAT;
            size_t n = 0;
            static unsigned char src[MAXSZ + 8];
            if (op <= OP_ATMOST) {
                size_t room = op == OP_ADD ? m.size - m.used : m.used - m.offset;
                unsigned y = (unsigned)vh_below(&r, 10);
                n = y == 0 ? room + 1 + (size_t)vh_below(&r, 3) : y == 1 ? room : y == 2 ? 0
                    : (size_t)vh_below(&r, room + 1);
                if (n > MAXSZ)
                    n = MAXSZ;
                for (size_t j = 0; j < n; j++) {
                    /* every second history carries zero octets (one in four), the others never do */
                    src[j] = (idx & 1) && (next & 3u) == 0 ? 0 : (unsigned char)(next % 251u + 1u);
                    next++;
                }
            }
            if ((i % 6) == 4) {
                /* a second buffer is used in between */
                static unsigned char bymem[4];
                ByteBuffer by;
                unsigned char in2[2] = { (unsigned char)(next * 3u), (unsigned char)(next * 7u + 1u) }, out2[2] = { 0, 0 };
                int ok = byte_buffer_space(&by, bymem, sizeof bymem) == 0 && byte_buffer_add(&by, in2, 2) == 0
                         && byte_buffer_consume(&by, out2, 1) == 0 && byte_buffer_consume_at_most(&by, out2 + 1, 3) == 1;
                if (!ok || out2[0] != in2[0] || out2[1] != in2[1] || by.offset != 2 || by.used != 2 || by.size != 4)
                    vh_fail("second-buffer", "op=bystander", "history step %zu: a second buffer used in between: got %02x %02x expected %02x "
                            "%02x, offset=%zu used=%zu", i, out2[0], out2[1], in2[0], in2[1], by.offset, by.used);
                VH_COUNT("history: second buffer used in between");
            }
            atmost_huge = 0;
            if (op == OP_ATMOST && vh_chance(&r, 1, 6)) {
                static const size_t hugev[] = { SIZE_MAX, (size_t)SSIZE_MAX + 1, (size_t)SSIZE_MAX, SIZE_MAX / 2 + 7, (size_t)1 << 32 };
                atmost_huge = hugev[vh_below(&r, 5)];
                VH_COUNT("consume_at_most asking for more than SSIZE_MAX octets");
            }
            consume_into_self = op == OP_CONSUME && vh_chance(&r, 1, 3);
            add_from_self = 0;
            if (op == OP_ADD && n > 0 && n <= m.used && n <= m.size - m.used && vh_chance(&r, 1, 3)) {
                memcpy(src, m.img, n);
                add_from_self = 1;
                VH_COUNT("add whose source is the buffer's own filled region");
            }
            uint64_t fails_before = *vh_nfail;
            step(&b, mem, &m, op, n, src, "history");
            add_from_self = 0;
            consume_into_self = 0;
            atmost_huge = 0;
            if (*vh_nfail != fails_before) {
                /* re-synchronise the model so that one defect is reported once, not as a cascade */
                if (!(b.offset <= b.used && b.used <= b.size && b.size == size && b.data == mem))
                    break;
                m.used = b.used;
                m.offset = b.offset;
                memcpy(m.img, mem, size);
            }
            if (hl < 120)
                hl += (size_t)snprintf(hist + hl, sizeof hist - hl, "%c%zu ", "acmwrzp"[op], n);
        }
        *vh_ncases += nops;
        vh_sig(0x18000000ull ^ (idx << 8) ^ (uint64_t)k);
        vh_sample("history", "size=%zu ops=%zu first: %s", size, nops, hist);
    }
}

/* One buffer of a little more than 2 GiB: operand counts that do not fit an int. The memory is mapped for the
 * unit and returned afterwards; octets are a function of their position (position * 2654435761 >> 24), checked at
 * sampled positions and around the 2^31 mark. When the machine cannot map that much, the unit is counted as not
 * carried out and nothing is judged. */
#include <sys/mman.h>

static unsigned char
gig_octet(size_t pos)
{
    return (unsigned char)(((uint64_t)pos * 2654435761ull) >> 24);
}

static const size_t gig_probe[] = { 0, 1, 6, 7, 8, 4095, 4096, 0x7ffffff9u, 0x7ffffffeu, 0x7fffffffu, 0x80000000u,
                                    0x80000001u, 0x80000006u, 0x80000007u, 0x80000800u, 0x80000fffu, 0x80001000u, 0x80001006u };
#define NGIGPROBE (sizeof gig_probe / sizeof gig_probe[0])

static void
u_gigantic(uint64_t idx, void *arg)
{
    (void)idx;
    (void)arg;
    VH_CASE4(0, 0, 0, 0);
    const size_t total = 0x80000000u + 0x1000u + 7u, map = total + 0x1000u;
    unsigned char *mem = mmap(NULL, map, PROT_READ | PROT_WRITE, MAP_PRIVATE | MAP_ANONYMOUS | MAP_NORESERVE, -1, 0);
    unsigned char *src = mmap(NULL, map, PROT_READ | PROT_WRITE, MAP_PRIVATE | MAP_ANONYMOUS | MAP_NORESERVE, -1, 0);
    unsigned char *dst = mmap(NULL, map, PROT_READ | PROT_WRITE, MAP_PRIVATE | MAP_ANONYMOUS | MAP_NORESERVE, -1, 0);
    if (mem == MAP_FAILED || src == MAP_FAILED || dst == MAP_FAILED) {
        VH_COUNT("gigantic buffer: not carried out (mapping refused)");
        return;
    }
    /* the source: zero everywhere except a few octets at each probe position */
    static unsigned char expect_at[NGIGPROBE];
    for (size_t k = 0; k < NGIGPROBE; k++)
        if (gig_probe[k] < total) {
            src[gig_probe[k]] = gig_octet(gig_probe[k]) | 1u;
            expect_at[k] = src[gig_probe[k]];
        }
    ByteBuffer b;
    const char *key = "op=gigantic";
    if (byte_buffer_space(&b, mem, total) != 0) {
        vh_fail("gigantic-setup", key, "byte_buffer_space(%zu octets) refused", total);
        goto out;
    }
    int rc = byte_buffer_add(&b, src, total);
    if (rc != 0 || b.used != total || b.offset != 0 || b.size != total) {
        vh_fail("gigantic-add", key, "add of %zu octets into an empty buffer of that size: rc=%d offset=%zu used=%zu size=%zu", total, rc, b.offset, b.used, b.size);
        goto out;
    }
    for (size_t k = 0; k < NGIGPROBE; k++)
        if (gig_probe[k] < total && mem[gig_probe[k]] != expect_at[k]) {
            vh_fail("gigantic-add", key, "add of %zu octets: octet %zu is %02x, expected %02x", total, gig_probe[k], mem[gig_probe[k]], expect_at[k]);
            goto out;
        }
    rc = byte_buffer_add(&b, src, 1);
    if (rc >= 0 || b.used != total)
        vh_fail("gigantic-add", key, "one octet more than fits: rc=%d used=%zu", rc, b.used);
    /* seven octets off the front, rewind (2^31 + 4096 octets move), then one consume of 2^31 + 2048 octets */
    unsigned char seven[7];
    rc = byte_buffer_consume(&b, seven, 7);
    if (rc != 0 || b.offset != 7 || seven[0] != expect_at[0] || seven[6] != expect_at[2])
        vh_fail("gigantic-consume", key, "consume(7): rc=%d offset=%zu got %s", rc, b.offset, vh_hex(seven, 7));
    byte_buffer_rewind(&b);
    if (b.offset != 0 || b.used != total - 7 || b.size != total) {
        vh_fail("gigantic-rewind", key, "rewind with %zu unread octets behind 7 consumed ones: offset=%zu used=%zu size=%zu", total - 7, b.offset, b.used, b.size);
        goto out;
    }
    for (size_t k = 0; k < NGIGPROBE; k++)
        if (gig_probe[k] >= 7 && gig_probe[k] < total && mem[gig_probe[k] - 7] != expect_at[k]) {
            vh_fail("gigantic-rewind", key, "rewind: octet %zu (was %zu) is %02x, expected %02x", gig_probe[k] - 7, gig_probe[k], mem[gig_probe[k] - 7], expect_at[k]);
            goto out;
        }
    const size_t take = 0x80000000u + 0x800u;
    rc = byte_buffer_consume(&b, dst, take + 0x1000u);
    if (rc >= 0 || b.offset != 0)
        vh_fail("gigantic-consume", key, "consume of %zu octets with %zu unread: rc=%d offset=%zu", take + 0x1000u, total - 7, rc, b.offset);
    rc = byte_buffer_consume(&b, dst, take);
    VH_COUNT("gigantic buffer: consume of more than 2^31 octets in one call");
    if (rc != 0 || b.offset != take || b.used != total - 7) {
        vh_fail("gigantic-consume", key, "consume of %zu octets with %zu unread: rc=%d offset=%zu used=%zu (expected 0, offset %zu)", take, total - 7, rc, b.offset, b.used, take);
        goto out;
    }
    for (size_t k = 0; k < NGIGPROBE; k++)
        if (gig_probe[k] >= 7 && gig_probe[k] - 7 < take && dst[gig_probe[k] - 7] != expect_at[k]) {
            vh_fail("gigantic-consume", key, "consume of %zu octets: octet %zu of the result is %02x, expected %02x", take, gig_probe[k] - 7, dst[gig_probe[k] - 7], expect_at[k]);
            goto out;
        }
    /* what is left: 2048 octets; the at-most variant asked for 2^31 returns them */
    ssize_t got = byte_buffer_consume_at_most(&b, dst, 0x80000000u);
    if (got != (ssize_t)(total - 7 - take) || b.offset != b.used)
        vh_fail("gigantic-atmost", key, "consume_at_most(2^31) with %zu unread: rc=%zd offset=%zu used=%zu", total - 7 - take, got, b.offset, b.used);
    /* repeat makes everything unread again; the at-most variant hands out all of it in one call */
    byte_buffer_repeat(&b);
    got = byte_buffer_consume_at_most(&b, dst, total);
    VH_COUNT("gigantic buffer: consume_at_most returning more than 2^31 octets");
    if (got != (ssize_t)(total - 7) || b.offset != total - 7)
        vh_fail("gigantic-atmost", key, "consume_at_most(%zu) with %zu unread: rc=%zd offset=%zu", total, total - 7, got, b.offset);
    else if (dst[0x80000000u - 7] != expect_at[10] || dst[0] != expect_at[3])
        vh_fail("gigantic-atmost", key, "consume_at_most(%zu): octets %02x %02x at 0 and 2^31-7, expected %02x %02x", total, dst[0], dst[0x80000000u - 7], expect_at[3], expect_at[10]);
    vh_sig(0x18300000ull);
out:
    munmap(mem, map);
    munmap(src, map);
    munmap(dst, map);
}

void
harness_run(void)
{
    vh_unit("gigantic", 0, u_gigantic, NULL);
    for (uint64_t i = 0; i < 10; i++)
        vh_unit("closure", i, u_closure, NULL);
    vh_require("closure complete size=5 with zero octets");
    vh_unit("setup", 0, u_setup, NULL);
    uint64_t nh = vh_tier ? 24000 : 200;
    for (uint64_t i = 0; i < nh; i++)
        vh_unit("history", i, u_history, NULL);
    static const char *req[] = { "closure complete size=1", "closure complete size=5", "add refused (insufficient space)",
                                 "add accepted", "consume refused (too few unread)", "consume accepted",
                                 "consume_at_most refused (nothing unread)", "consume_at_most clipped",
                                 "consume_at_most full", "rewind with consumed prefix and unread rest",
                                 "rewind with everything consumed", "rewind at offset 0", "reset", "clear", "repeat",
                                 "set accepted", "set refused", "use/space checked",
                                 "history: buffer size above 254", "set-up with values at the extremes of size_t",
                                 "consume that must be refused, without a destination",
                                 "add whose source is the buffer's own filled region",
                                 "consume_at_most asking for more than SSIZE_MAX octets",
                                 "consume into the buffer's own memory in front of the read mark" };
    for (size_t i = 0; i < sizeof req / sizeof req[0]; i++)
        vh_require(req[i]);
}
