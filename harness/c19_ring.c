/* C19 - ring buffer is a bounded FIFO (optionally overwriting) with faithful
 * iterators.
 *
 * Oracle: a plain queue model. Part 1 closes the set of reachable
 * (implementation state, queue) pairs for capacities 1..4 over a two-value
 * alphabet by *executing* every operation from every reached state. Part 2
 * runs long random histories with unique element ids at capacities <= 64 for
 * three element types. The element array is an exact-size poisoned-arena
 * object. */
#include "common/vh.h"

#include <stdbool.h>
#include <ufw/octet-ring.h>
#include <ufw/ring-buffer.h>
#include <ufw/ring-buffer-iter.h>

const char *harness_name = "c19_ring";

RING_BUFFER_API(ring16, uint16_t)
RING_BUFFER_ITER_API(ring16, uint16_t)
RING_BUFFER(ring16, uint16_t)
RING_BUFFER_ITER(ring16, uint16_t)
RING_BUFFER_API(ring64, uint64_t)
RING_BUFFER_ITER_API(ring64, uint64_t)
RING_BUFFER(ring64, uint64_t)
RING_BUFFER_ITER(ring64, uint64_t)

RING_BUFFER_API(ringf64, double)
RING_BUFFER_ITER_API(ringf64, double)
RING_BUFFER(ringf64, double)
RING_BUFFER_ITER(ringf64, double)
RING_BUFFER_API(ringf32, float)
RING_BUFFER_ITER_API(ringf32, float)
RING_BUFFER(ringf32, float)
RING_BUFFER_ITER(ringf32, float)

#define MAXCAP 700

struct model {
    uint64_t q[MAXCAP];
    size_t n, cap;
    bool override;
};

static void
m_put(struct model *m, uint64_t v)
{
    if (m->n == m->cap) {
        if (!m->override)
            return;
        memmove(m->q, m->q + 1, (m->n - 1) * sizeof m->q[0]);
        m->n--;
    }
    m->q[m->n++] = v;
}

static uint64_t
m_get(struct model *m)
{
    if (m->n == 0)
        return 0;
    uint64_t v = m->q[0];
    memmove(m->q, m->q + 1, (m->n - 1) * sizeof m->q[0]);
    m->n--;
    return v;
}

enum { OP_PUT_A, OP_PUT_B, OP_GET, OP_CLEAR, OP_OVR_ON, OP_OVR_OFF, NOPS };
static const char *opname[] = { "put(a)", "put(b)", "get", "clear", "override(on)", "override(off)" };

#define GEN(NAME, TYPE, TAG)                                                                                        \
    static void NAME##_observe(const NAME *rb, const struct model *m, const char *ctx)                              \
    {                                                                                                               \
        size_t sz = NAME##_size(rb);                                                                                \
        if (sz != m->n)                                                                                             \
            vh_fail("size", "type=" TAG, "%s: size()=%zu model=%zu cap=%zu", ctx, sz, m->n, m->cap);                \
        if (NAME##_empty(rb) != (m->n == 0))                                                                        \
            vh_fail("empty", "type=" TAG, "%s: empty()=%d model n=%zu", ctx, NAME##_empty(rb), m->n);               \
        if (NAME##_full(rb) != (m->n == m->cap))                                                                    \
            vh_fail("full", "type=" TAG, "%s: full()=%d model n=%zu cap=%zu", ctx, NAME##_full(rb), m->n, m->cap);  \
        rb_iter it;                                                                                                 \
        size_t i = 0;                                                                                               \
        for (NAME##_iter(&it, rb, RING_BUFFER_ITER_OLD_TO_NEW); !rb_iter_done(&it); rb_iter_advance(&it), i++) {    \
            if (i >= m->n)                                                                                          \
                break;                                                                                              \
            TYPE v = NAME##_inspect(rb, &it);                                                                       \
            if ((uint64_t)v != m->q[i])                                                                             \
                vh_fail("iter-old-to-new", "type=" TAG, "%s: element %zu is %" PRIx64 " model %" PRIx64, ctx, i,    \
                        (uint64_t)v, m->q[i]);                                                                      \
        }                                                                                                           \
        if (i != m->n || !rb_iter_done(&it))                                                                        \
            vh_fail("iter-old-to-new-steps", "type=" TAG, "%s: %zu steps, model %zu", ctx, i, m->n);                \
        i = 0;                                                                                                      \
        for (NAME##_iter(&it, rb, RING_BUFFER_ITER_NEW_TO_OLD); !rb_iter_done(&it); rb_iter_advance(&it), i++) {    \
            if (i >= m->n)                                                                                          \
                break;                                                                                              \
            TYPE v = NAME##_inspect(rb, &it);                                                                       \
            if ((uint64_t)v != m->q[m->n - 1 - i])                                                                  \
                vh_fail("iter-new-to-old", "type=" TAG, "%s: element %zu is %" PRIx64 " model %" PRIx64, ctx, i,    \
                        (uint64_t)v, m->q[m->n - 1 - i]);                                                           \
        }                                                                                                           \
        if (i != m->n || !rb_iter_done(&it))                                                                        \
            vh_fail("iter-new-to-old-steps", "type=" TAG, "%s: %zu steps, model %zu", ctx, i, m->n);                \
    }                                                                                                               \
                                                                                                                    \
    /* ---- closure by execution ---- */                                                                            \
    struct NAME##_st {                                                                                              \
        size_t head, tail;                                                                                          \
        bool ovr;                                                                                                   \
        TYPE data[4];                                                                                               \
        uint64_t mq[4];                                                                                             \
        size_t mn;                                                                                                  \
        bool movr;                                                                                                  \
    };                                                                                                              \
    static void NAME##_closure(size_t cap, TYPE a, TYPE b)                                                          \
    {                                                                                                               \
        enum { MAXST = 20000 };                                                                                     \
        static struct NAME##_st st[MAXST];                                                                          \
        static uint64_t keys[MAXST];                                                                                \
        size_t nst = 0, work = 0, trans = 0;                                                                        \
        TYPE *data = vh_arena(cap * sizeof(TYPE));                                                                  \
        NAME rb;                                                                                                    \
        NAME##_init(&rb, data, cap);                                                                                \
        for (size_t i = 0; i < cap; i++)                                                                            \
            if (data[i] != 0)                                                                                       \
                vh_fail("init", "type=" TAG, "init leaves data[%zu] != 0", i);                                      \
        memset(&st[0], 0, sizeof st[0]);                                                                            \
        st[0].head = rb.head;                                                                                       \
        st[0].tail = rb.tail;                                                                                       \
        st[0].ovr = rb.override_if_full;                                                                            \
        memcpy(st[0].data, data, cap * sizeof(TYPE));                                                               \
        static struct model m;                                                                                      \
        memset(&m, 0, sizeof m);                                                                                    \
        m.cap = cap;                                                                                                \
        keys[0] = vh_hash(&st[0], sizeof st[0]);                                                                    \
        nst = 1;                                                                                                    \
        NAME##_observe(&rb, &m, "initial");                                                                   \
        while (work < nst) {                                                                                        \
            for (int op = 0; op < NOPS; op++) {                                                                     \
                struct NAME##_st cur; memcpy(&cur, &st[work], sizeof cur);                                                                 \
                VH_CASE4(cap, work, op, 0);                                                                         \
                rb.data = data;                                                                                     \
                rb.datasize = cap;                                                                                  \
                rb.head = cur.head;                                                                                 \
                rb.tail = cur.tail;                                                                                 \
                rb.override_if_full = cur.ovr;                                                                      \
                memcpy(data, cur.data, cap * sizeof(TYPE));                                                         \
                memset(&m, 0, sizeof m);                                                                            \
                m.cap = cap;                                                                                        \
                m.n = cur.mn;                                                                                       \
                m.override = cur.movr;                                                                              \
                memcpy(m.q, cur.mq, sizeof cur.mq);                                                                 \
                char ctx[160];                                                                                      \
                snprintf(ctx, sizeof ctx, "cap=%zu state(head=%zu tail=%zu ovr=%d n=%zu) op=%s", cap, cur.head,     \
                         cur.tail, cur.ovr, cur.mn, opname[op]);                                                   \
                switch (op) {                                                                                       \
                case OP_PUT_A: NAME##_put(&rb, a); m_put(&m, (uint64_t)a); break;                               \
                case OP_PUT_B: NAME##_put(&rb, b); m_put(&m, (uint64_t)b); break;                               \
                case OP_GET: {                                                                                      \
                    TYPE g = NAME##_get(&rb);                                                                       \
                    uint64_t e = m_get(&m);                                                                     \
                    if ((uint64_t)g != e)                                                                           \
                        vh_fail("get", "type=" TAG, "%s: got %" PRIx64 " model %" PRIx64, ctx, (uint64_t)g, e);     \
                    break;                                                                                          \
                }                                                                                                   \
                case OP_CLEAR: NAME##_clear(&rb); m.n = 0; break;                                               \
                case OP_OVR_ON: NAME##_override_if_full(&rb, true); m.override = true; break;                   \
                default: NAME##_override_if_full(&rb, false); m.override = false; break;                        \
                }                                                                                                   \
                trans++;                                                                                            \
                if (rb.data != data || rb.datasize != cap)                                                          \
                    vh_fail("struct", "type=" TAG, "%s: data pointer or capacity changed", ctx);                    \
                NAME##_observe(&rb, &m, ctx);                                                                   \
                cur.head = rb.head;                                                                                 \
                cur.tail = rb.tail;                                                                                 \
                cur.ovr = rb.override_if_full;                                                                      \
                memcpy(cur.data, data, cap * sizeof(TYPE));                                                         \
                /* canonical model tail */                                                                          \
                memset(cur.mq, 0, sizeof cur.mq);                                                                   \
                memcpy(cur.mq, m.q, m.n * sizeof m.q[0]);                                                           \
                cur.mn = m.n;                                                                                       \
                cur.movr = m.override;                                                                              \
                uint64_t k = vh_hash(&cur, sizeof cur);                                                             \
                size_t j;                                                                                           \
                for (j = 0; j < nst; j++)                                                                           \
                    if (keys[j] == k && memcmp(&st[j], &cur, sizeof cur) == 0)                                      \
                        break;                                                                                      \
                if (j == nst) {                                                                                     \
                    if (nst >= MAXST) {                                                                             \
                        vh_broken("closure state table full");                                                     \
                        return;                                                                                     \
                    }                                                                                               \
                    memcpy(&st[nst], &cur, sizeof cur);                                                                             \
                    keys[nst] = k;                                                                                  \
                    nst++;                                                                                          \
                    vh_sig(k);                                                                                      \
                }                                                                                                   \
            }                                                                                                       \
            work++;                                                                                                 \
        }                                                                                                           \
        VH_COUNTN("closure: distinct (implementation state, queue) pairs [" TAG "]", nst);                          \
        VH_COUNTN("closure: transitions executed [" TAG "]", trans);                                                \
        vh_countf("closure complete cap=%zu [%s]", cap, TAG);                                                       \
        vh_sample("closure " TAG, "cap=%zu alphabet={%" PRIx64 ",%" PRIx64 "}: %zu states, %zu transitions", cap,   \
                  (uint64_t)a, (uint64_t)b, nst, trans);                                                            \
    }                                                                                                               \
                                                                                                                    \
    /* ---- random histories with unique ids ---- */                                                                \
    static void NAME##_history(vh_rng *r, size_t cap, size_t nops)                                                  \
    {                                                                                                               \
        TYPE *data = vh_arena(cap * sizeof(TYPE));                                                                  \
        NAME rb;                                                                                                    \
        struct model m;                                                                                             \
        memset(&m, 0, sizeof m);                                                                                    \
        m.cap = cap;                                                                                                \
        NAME##_init(&rb, data, cap);                                                                                \
        /* the second ring's capacity is a power of two when the first one's is not, and the other way round */   \
        TYPE bydata[4];                                                                                             \
        NAME by;                                                                                                    \
        NAME##_init(&by, bydata, (cap & (cap - 1)) ? 4 : 3);                                                        \
        uint64_t next = 1;                                                                                          \
        int bias = (int)vh_below(r, 3); /* fill-heavy, drain-heavy, balanced */                                     \
        char hist[200];                                                                                             \
        size_t hl = 0;                                                                                              \
        hist[0] = 0;                                                                                                \
        for (size_t i = 0; i < nops; i++) {                                                                         \
            unsigned x = (unsigned)vh_below(r, 100);                                                                \
            unsigned pput = bias == 0 ? 65 : bias == 1 ? 35 : 50;                                                   \
            char ctx[96];                                                                                           \
            VH_SUB(3, i);                                                                                           \
            if (x < pput) {                                                                                         \
                TYPE v = (TYPE)next++;                                                                              \
                if (v == 0)                                                                                         \
                    v = (TYPE)next++;                                                                               \
                NAME##_put(&rb, v);                                                                                 \
                m_put(&m, (uint64_t)v);                                                                             \
                snprintf(ctx, sizeof ctx, "cap=%zu step %zu put(%" PRIx64 ")", cap, i, (uint64_t)v);                \
                VH_COUNT("history: put");                                                                           \
                if (hl < 150) hl += (size_t)snprintf(hist + hl, sizeof hist - hl, "p");                             \
            } else if (x < 92) {                                                                                    \
                TYPE g = NAME##_get(&rb);                                                                           \
                uint64_t e = m_get(&m);                                                                             \
                snprintf(ctx, sizeof ctx, "cap=%zu step %zu get", cap, i);                                          \
                if ((uint64_t)g != e)                                                                               \
                    vh_fail("get", "type=" TAG, "%s: got %" PRIx64 " model %" PRIx64, ctx, (uint64_t)g, e);         \
                VH_COUNT("history: get");                                                                           \
                if (hl < 150) hl += (size_t)snprintf(hist + hl, sizeof hist - hl, "g");                             \
            } else if (x < 94) {                                                                                    \
                NAME##_clear(&rb);                                                                                  \
                m.n = 0;                                                                                            \
                snprintf(ctx, sizeof ctx, "cap=%zu step %zu clear", cap, i);                                        \
                VH_COUNT("history: clear");                                                                         \
                if (hl < 150) hl += (size_t)snprintf(hist + hl, sizeof hist - hl, "c");                             \
            } else {                                                                                                \
                bool on = vh_chance(r, 1, 2);                                                                       \
                /* "on" is any non-zero value: a flag tested with cfg & MASK has bit 0 clear as often as not */     \
                static const unsigned truthy[] = { 1u, 2u, 0x80u, 0x100u, 0x10000u, 0x80000000u, 3u };               \
                NAME##_override_if_full(&rb, on ? truthy[i % 7u] : 0u);                                             \
                m.override = on;                                                                                    \
                snprintf(ctx, sizeof ctx, "cap=%zu step %zu override(%d)", cap, i, on);                             \
                VH_COUNT("history: override change");                                                               \
                if (hl < 150) hl += (size_t)snprintf(hist + hl, sizeof hist - hl, on ? "O" : "o");                  \
            }                                                                                                       \
            /* a second ring of the same type is used in between, iterated while the first one's state is     \
             * live: whatever ring or iterator code keeps must live in the objects */                              \
            if ((i % 5) == 2) {                                                                                     \
                TYPE b1 = (TYPE)(next * 3u + 1u), b2 = (TYPE)(next * 5u + 2u);                                      \
                NAME##_put(&by, b1);                                                                                \
                NAME##_put(&by, b2);                                                                                \
                rb_iter bit;                                                                                        \
                size_t bn = 0;                                                                                      \
                for (NAME##_iter(&bit, &by, RING_BUFFER_ITER_OLD_TO_NEW); !rb_iter_done(&bit) && bn < 4; rb_iter_advance(&bit)) \
                    bn++;                                                                                           \
                TYPE g1 = NAME##_get(&by), g2 = NAME##_get(&by);                                                    \
                if (bn != 2 || g1 != b1 || g2 != b2 || !NAME##_empty(&by))                                          \
                    vh_fail("second-ring", "type=" TAG, "%s: a second ring used in between: %zu iterator steps, got %" PRIx64 ",%" PRIx64 \
                            " expected %" PRIx64 ",%" PRIx64, ctx, bn, (uint64_t)g1, (uint64_t)g2, (uint64_t)b1, (uint64_t)b2); \
                VH_COUNT("history: second ring used in between");                                                   \
            }                                                                                                       \
            if (m.n == m.cap && m.override)                                                                         \
                VH_COUNT("history: observed full in override mode");                                                \
            if (m.n == m.cap && !m.override)                                                                        \
                VH_COUNT("history: observed full in drop mode");                                                    \
            NAME##_observe(&rb, &m, ctx);                                                                           \
        }                                                                                                           \
        vh_sample("history " TAG, "cap=%zu ops=%zu first ops: %s", cap, nops, hist);                                \
    }

GEN(octet_ring, uint8_t, "u8")
GEN(ring16, uint16_t, "u16")
GEN(ring64, uint64_t, "u64")

static void
u_closure(uint64_t idx, void *arg)
{
    (void)arg;
    size_t cap = 1 + idx % 4;
    int ty = (int)(idx / 4);
    vh_case_tag("closure");
    if (ty == 0)
        octet_ring_closure(cap, 0xA1, 0xB2);
    else if (ty == 1)
        ring16_closure(cap, 0xA1A1, 0xB2B2);
    else
        ring64_closure(cap, 0xA1A1A1A1A1A1A1A1ull, 0x00000000000000B2ull);
}

/* The predicates asked again and again in one straight piece of code, with put / get / clear in between and nothing
 * else: whatever the header promises the compiler about size/empty/full (the optimised configurations are -O2), each
 * call reports the queue's state at that moment. Called from every history unit. */
#define PRED_PROBE(NAME, TYPE)                                                                                          \
    static __attribute__((noinline)) void NAME##_pred_probe(TYPE *mem, unsigned seed, unsigned out[5][3])                \
    {                                                                                                                   \
        NAME rb;                                                                                                        \
        NAME##_init(&rb, mem, 3);                                                                                       \
        out[0][0] = NAME##_empty(&rb); out[0][1] = (unsigned)NAME##_size(&rb); out[0][2] = NAME##_full(&rb);            \
        NAME##_put(&rb, (TYPE)(seed + 1));                                                                              \
        out[1][0] = NAME##_empty(&rb); out[1][1] = (unsigned)NAME##_size(&rb); out[1][2] = NAME##_full(&rb);            \
        NAME##_put(&rb, (TYPE)(seed + 2));                                                                              \
        NAME##_put(&rb, (TYPE)(seed + 3));                                                                              \
        out[2][0] = NAME##_empty(&rb); out[2][1] = (unsigned)NAME##_size(&rb); out[2][2] = NAME##_full(&rb);            \
        (void)NAME##_get(&rb);                                                                                          \
        out[3][0] = NAME##_empty(&rb); out[3][1] = (unsigned)NAME##_size(&rb); out[3][2] = NAME##_full(&rb);            \
        NAME##_clear(&rb);                                                                                              \
        out[4][0] = NAME##_empty(&rb); out[4][1] = (unsigned)NAME##_size(&rb); out[4][2] = NAME##_full(&rb);            \
    }
PRED_PROBE(octet_ring, uint8_t)
PRED_PROBE(ring16, uint16_t)
PRED_PROBE(ring64, uint64_t)

static void
predicate_probe(uint64_t idx)
{
    static const unsigned want[5][3] = { { 1, 0, 0 }, { 0, 1, 0 }, { 0, 3, 1 }, { 0, 2, 0 }, { 1, 0, 0 } };
    static const char *tn[3] = { "u8", "u16", "u64" };
    for (int ty = 0; ty < 3; ty++) {
        unsigned got[5][3];
        uint8_t m8[3];
        uint16_t m16[3];
        uint64_t m64[3];
        memset(got, 0x5a, sizeof got);
        if (ty == 0)
            octet_ring_pred_probe(m8, (unsigned)idx, got);
        else if (ty == 1)
            ring16_pred_probe(m16, (unsigned)idx, got);
        else
            ring64_pred_probe(m64, (unsigned)idx, got);
        for (int k = 0; k < 5; k++)
            if (memcmp(got[k], want[k], sizeof want[k]) != 0) {
                static const char *when[5] = { "after init", "after one put", "after three puts (capacity 3)", "after a get", "after clear" };
                char key[32];
                snprintf(key, sizeof key, "type=%s", tn[ty]);
                vh_fail("predicates-straight-line", key, "%s: empty=%u size=%u full=%u, expected %u %u %u", when[k], got[k][0], got[k][1], got[k][2],
                        want[k][0], want[k][1], want[k][2]);
                break;
            }
    }
    VH_COUNT("predicates asked repeatedly in straight-line code");
}

static void
u_history(uint64_t idx, void *arg)
{
    (void)arg;
    predicate_probe(idx);
    vh_rng r;
    vh_unit_rng(&r, "history", idx);
    vh_case_tag("history");
    for (int k = 0; k < 20; k++) {
        vh_arena_reset();
        size_t cap = 1 + (size_t)vh_below(&r, vh_chance(&r, 1, 2) ? 8 : vh_chance(&r, 1, 6) ? MAXCAP : 64);
        if (cap > 255)
            VH_COUNT("history: capacity above 255");
        size_t nops = vh_tier ? 3000 : 800;
        int ty = (int)vh_below(&r, 3);
        VH_CASE4(idx, k, cap, 0);
        if (ty == 0)
            octet_ring_history(&r, cap, nops);
        else if (ty == 1)
            ring16_history(&r, cap, nops);
        else
            ring64_history(&r, cap, nops);
        *vh_ncases += nops;
        vh_sig(0x19000000ull ^ (idx << 8) ^ (uint64_t)k);
    }
}

/* rings of floating-point elements: what comes out is what went in, bit for bit - both zeros, NaNs with payloads,
 * infinities, subnormals (values that compare equal or unequal to themselves in ways integers never do) */
#define FGEN(NAME, TYPE, UTYPE, TAG)                                                                                \
    static void NAME##_fhistory(vh_rng *r, size_t cap, size_t nops)                                                 \
    {                                                                                                               \
        static const UTYPE special[] = { 0, (UTYPE)1 << (8 * sizeof(UTYPE) - 1), (UTYPE)~(UTYPE)0, 1,              \
                                         (UTYPE)0x7ff0000000000000ull, (UTYPE)0x7f800000u, (UTYPE)0x7fc00001u,     \
                                         (UTYPE)0x7ff8000000000001ull, (UTYPE)0x3ff0000000000000ull };              \
        TYPE *data = vh_arena(cap * sizeof(TYPE));                                                                  \
        NAME rb;                                                                                                    \
        NAME##_init(&rb, data, cap);                                                                                \
        UTYPE q[64];                                                                                                \
        size_t n = 0;                                                                                               \
        for (size_t i = 0; i < nops; i++) {                                                                         \
            if (vh_chance(r, 11, 20)) {                                                                             \
                UTYPE bits = vh_chance(r, 2, 3) ? special[vh_below(r, 9)] : (UTYPE)vh_rand(r);                      \
                TYPE v;                                                                                             \
                memcpy(&v, &bits, sizeof v);                                                                        \
                NAME##_put(&rb, v);                                                                                 \
                if (n < cap)                                                                                        \
                    q[n++] = bits;                                                                                  \
            } else {                                                                                                \
                TYPE g = NAME##_get(&rb);                                                                           \
                UTYPE gb;                                                                                           \
                memcpy(&gb, &g, sizeof gb);                                                                         \
                if (n) {                                                                                            \
                    if (gb != q[0])                                                                                 \
                        vh_fail("get", "type=" TAG, "cap=%zu step %zu: got bits %" PRIx64 " queued %" PRIx64, cap, i, (uint64_t)gb, \
                                (uint64_t)q[0]);                                                                    \
                    memmove(q, q + 1, (n - 1) * sizeof q[0]);                                                       \
                    n--;                                                                                            \
                }                                                                                                   \
            }                                                                                                       \
            rb_iter it;                                                                                             \
            size_t k = 0;                                                                                           \
            for (NAME##_iter(&it, &rb, RING_BUFFER_ITER_OLD_TO_NEW); !rb_iter_done(&it) && k <= n; rb_iter_advance(&it), k++) { \
                TYPE v = NAME##_inspect(&rb, &it);                                                                  \
                UTYPE vb;                                                                                           \
                memcpy(&vb, &v, sizeof vb);                                                                         \
                if (k < n && vb != q[k])                                                                            \
                    vh_fail("iter-old-to-new", "type=" TAG, "cap=%zu step %zu: element %zu has bits %" PRIx64 " queued %" PRIx64, cap, i, \
                            k, (uint64_t)vb, (uint64_t)q[k]);                                                       \
            }                                                                                                       \
            if (k != n || NAME##_size(&rb) != n)                                                                    \
                vh_fail("size", "type=" TAG, "cap=%zu step %zu: %zu iterator steps, size %zu, queued %zu", cap, i, k,   \
                        (size_t)NAME##_size(&rb), n);                                                               \
        }                                                                                                           \
        VH_COUNT("history on a ring of floating-point elements");                                                   \
    }

FGEN(ringf64, double, uint64_t, "f64")
FGEN(ringf32, float, uint32_t, "f32")

static void
u_floatring(uint64_t idx, void *arg)
{
    (void)arg;
    vh_rng r;
    vh_unit_rng(&r, "floatring", idx);
    for (int k = 0; k < 20; k++) {
        vh_arena_reset();
        size_t cap = 1 + (size_t)vh_below(&r, 9);
        VH_CASE4(idx, k, cap, 0);
        if (idx & 1)
            ringf64_fhistory(&r, cap, 300);
        else
            ringf32_fhistory(&r, cap, 300);
        *vh_ncases += 300;
        vh_sig(0x19400000ull ^ (idx << 8) ^ (uint64_t)k);
    }
}

/* capacities beyond 255 and 65535: indices that do not fit 8 or 16 bits; several wrap-arounds */
static void
u_bigcap(uint64_t idx, void *arg)
{
    (void)arg;
    static const size_t caps[] = { 255, 256, 257, 65535, 65536, 65537, 70000 };
    size_t cap = caps[idx % 7];
    int ty = (int)(idx / 7) % 2;
    vh_arena_reset();
    /* model: ring of expected values kept as a window over a counter */
    uint64_t next = 1, oldest = 1; /* queue holds values oldest..next-1 */
    size_t n = 0;
    uint8_t *d8 = ty == 0 ? vh_arena(cap) : NULL;
    uint64_t *d64 = ty == 1 ? vh_arena(cap * sizeof(uint64_t)) : NULL;
    octet_ring r8;
    ring64 r64;
    if (ty == 0)
        octet_ring_init(&r8, d8, cap);
    else
        ring64_init(&r64, d64, cap);
    vh_rng r;
    vh_unit_rng(&r, "bigcap", idx);
    int override = 0;
    size_t ops = 3 * cap + 1000;
    for (size_t i = 0; i < ops; i++) {
        VH_CASE4(idx, cap, i, n);
        unsigned x = (unsigned)vh_below(&r, 100);
        /* phases: fill, overrun in override mode, drain a little, refill across the wrap */
        int put = i < cap + 10 ? 1 : (i < 2 * cap ? x < 80 : x < 55);
        if (i == cap + 5) {
            override = 1;
            if (ty == 0) octet_ring_override_if_full(&r8, true); else ring64_override_if_full(&r64, true);
        }
        if (put) {
            uint64_t v = next;
            if (ty == 0 && (uint8_t)v == 0) {
                next++;
                oldest += (n == 0);
                v = next;
            }
            if (ty == 0) octet_ring_put(&r8, (uint8_t)v); else ring64_put(&r64, v);
            if (n == cap) {
                if (override) {
                    oldest++;
                    if (ty == 0 && (uint8_t)oldest == 0)
                        oldest++;
                    next++;
                }
            } else {
                n++;
                next++;
            }
        } else {
            uint64_t g = ty == 0 ? octet_ring_get(&r8) : ring64_get(&r64);
            uint64_t e = 0;
            if (n) {
                e = ty == 0 ? (uint8_t)oldest : oldest;
                oldest++;
                if (ty == 0 && (uint8_t)oldest == 0 && oldest != next)
                    oldest++;
                n--;
            }
            if (g != e) {
                vh_fail("get", ty ? "type=u64 capacity=large" : "type=u8 capacity=large", "cap=%zu step %zu: got %" PRIx64 " expected %" PRIx64,
                        cap, i, g, e);
                return;
            }
        }
        size_t sz = ty == 0 ? octet_ring_size(&r8) : ring64_size(&r64);
        if (sz != n) {
            vh_fail("size", ty ? "type=u64 capacity=large" : "type=u8 capacity=large", "cap=%zu step %zu: size %zu model %zu", cap, i, sz, n);
            return;
        }
        if ((i % 997) == 0 || i + 1 == ops) {
            /* iterate: count and endpoints */
            rb_iter it;
            size_t steps = 0;
            uint64_t first = 0, last = 0;
            if (ty == 0) {
                for (octet_ring_iter(&it, &r8, RING_BUFFER_ITER_OLD_TO_NEW); !rb_iter_done(&it) && steps <= n; rb_iter_advance(&it), steps++) {
                    last = octet_ring_inspect(&r8, &it);
                    if (steps == 0)
                        first = last;
                }
            } else {
                for (ring64_iter(&it, &r64, RING_BUFFER_ITER_OLD_TO_NEW); !rb_iter_done(&it) && steps <= n; rb_iter_advance(&it), steps++) {
                    last = ring64_inspect(&r64, &it);
                    if (steps == 0)
                        first = last;
                }
            }
            if (steps != n || (ty == 1 && n && (first != oldest || last != next - 1)))
                vh_fail("iter-old-to-new-steps", ty ? "type=u64 capacity=large" : "type=u8 capacity=large",
                        "cap=%zu step %zu: %zu steps (model %zu), first %" PRIx64 " last %" PRIx64 " expected %" PRIx64 "..%" PRIx64, cap, i,
                        steps, n, first, last, oldest, next - 1);
            steps = 0;
            if (ty == 1) {
                for (ring64_iter(&it, &r64, RING_BUFFER_ITER_NEW_TO_OLD); !rb_iter_done(&it) && steps <= n; rb_iter_advance(&it), steps++) {
                    uint64_t v = ring64_inspect(&r64, &it);
                    if (v != next - 1 - steps) {
                        vh_fail("iter-new-to-old", "type=u64 capacity=large", "cap=%zu step %zu: element %zu is %" PRIx64, cap, i, steps, v);
                        break;
                    }
                }
                if (steps != n)
                    vh_fail("iter-new-to-old-steps", "type=u64 capacity=large", "cap=%zu: %zu steps model %zu", cap, steps, n);
            }
        }
    }
    *vh_ncases += ops;
    VH_COUNT("history: capacity of 255..70000 with several wrap-arounds");
    vh_sig(0x19100000ull ^ idx);
}

void
harness_run(void)
{
    for (uint64_t i = 0; i < 14; i++)
        vh_unit("bigcap", i, u_bigcap, NULL);
    for (uint64_t i = 0; i < (vh_tier ? 400u : 16u); i++)
        vh_unit("floatring", i, u_floatring, NULL);
    vh_require("history on a ring of floating-point elements");
    for (uint64_t i = 0; i < 12; i++)
        vh_unit("closure", i, u_closure, NULL);
    uint64_t nh = vh_tier ? 24000 : 160;
    for (uint64_t i = 0; i < nh; i++)
        vh_unit("history", i, u_history, NULL);
    vh_require("closure complete cap=1 [u8]");
    vh_require("closure complete cap=4 [u8]");
    vh_require("closure complete cap=4 [u16]");
    vh_require("closure complete cap=4 [u64]");
    vh_require("history: put");
    vh_require("history: get");
    vh_require("history: clear");
    vh_require("history: override change");
    vh_require("history: observed full in override mode");
    vh_require("history: observed full in drop mode");
    vh_require("history: capacity above 255");
    vh_require("history: capacity of 255..70000 with several wrap-arounds");
    vh_require("predicates asked repeatedly in straight-line code");
}
