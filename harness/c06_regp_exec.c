/* C06 - a valid request is executed exactly once and answered faithfully.
 *
 * Sessions of frames produced by the reference encoder (rp_common.h) are fed
 * to a RegP in server role; the scripted backend logs its calls, the sink is
 * decoded by the reference decoder. Oracle: offline pairing request <->
 * backend call <-> response, per step. Second workload: the server bound to
 * a real RegisterTable through regaccess2blockaccess. */
#include "rp_common.h"

#include <ufw/register-table.h>

const char *harness_name = "c06_regp_exec";

static struct rp_h H;
static struct rp_split SP;

struct req {
    int kind;      /* RT_* */
    int w16;       /* semantics of the frame */
    uint16_t seq;
    uint32_t addr, bsize;
    unsigned meta; /* for responses / meta frames */
    unsigned char payload[300];
    size_t plen;
};

static size_t
wire_of(const struct req *q, int serial, unsigned char *wire, unsigned char *raw, size_t *rawn)
{
    struct rframe f;
    memset(&f, 0, sizeof f);
    f.type = (unsigned)q->kind;
    f.options = (q->w16 ? ROPT_W16 : 0) | (serial ? ROPT_HDCRC : 0) | (serial && q->plen ? ROPT_PLCRC : 0);
    f.meta = q->meta;
    f.seq = q->seq;
    f.addr = q->addr;
    f.bsize = q->bsize;
    f.payload = q->payload;
    f.plen = q->plen;
    *rawn = rp_encode_raw(&f, raw);
    return rp_wire(serial, raw, *rawn, wire);
}

static const char *
skey(const struct rp_h *h, const struct req *q)
{
    static char k[96];
    snprintf(k, sizeof k, "transport=%s mem=%d frame=%s%s", h->serial ? "serial" : "tcp", h->mem16 ? 16 : 8,
             q->kind == RT_READ_REQ ? "read" : q->kind == RT_WRITE_REQ ? "write" : q->kind == RT_META ? "meta"
                                                                                                      : "response",
             q->w16 ? "16" : "8");
    return k;
}

/* run one frame through recv/process/free and judge it */
static void
step(struct rp_h *h, const struct req *q, RPBlockAccess verdict, const char *ctx0)
{
    unsigned char wire[1400], raw[700];
    size_t rawn;
    size_t wn = wire_of(q, h->serial, wire, raw, &rawn);
    rp_feed(h, wire, wn);
    h->out_n = 0;
    h->ncalls = 0;
    h->verdict = verdict;
    h->fill_seed = (unsigned char)(q->seq + 3);
    RPMaybeFrame mf;
    int rc1 = regp_recv(&h->p, &mf);
    int rc2 = regp_process(&h->p, &mf);
    regp_free(&h->p, mf.frame);
    const char *key = skey(h, q);
    char ctx[260];
    snprintf(ctx, sizeof ctx, "%s seq=%u addr=%08x bsize=%u verdict=%s/%08x raw=%s", ctx0, q->seq, q->addr, q->bsize,
             verdict.status <= 11 ? rp_respname[verdict.status] : "?", verdict.address,
             vh_hex(raw, rawn > 24 ? 24 : rawn));
    (void)rc1;
    (void)rc2;
    if (h->in_runaway) {
        vh_fail("no-progress", key, "%s: more than %u source calls", ctx, h->in_bound);
        return;
    }
    if (mf.error.id != 0 || mf.frame == NULL) {
        vh_fail("valid-frame-rejected", key, "%s: error.id=%d frame=%p", ctx, mf.error.id, (void *)mf.frame);
        rp_ledger_gc(h);
        return;
    }
    if (rp_live_blocks(h) != 0 || h->bad_free) {
        vh_fail("block-ledger", key, "%s: %d blocks live after regp_free, bad free=%d", ctx, rp_live_blocks(h),
                h->bad_free);
        h->bad_free = 0;
        for (int i = 0; i < h->nblk; i++)
            h->blk[i].live = 0;
    }
    rp_ledger_gc(h);
    int nf = rp_unframe(h->serial, h->out, h->out_n, &SP);
    int is_req = q->kind == RT_READ_REQ || q->kind == RT_WRITE_REQ;
    if (!is_req) {
        VH_COUNT("non-request frame: no access, no reply");
        if (h->ncalls != 0 || h->out_n != 0)
            vh_fail("non-request-has-effect", key, "%s: %d backend calls, %zu reply octets", ctx, h->ncalls, h->out_n);
        return;
    }
    int wsmismatch = (q->w16 != 0) != (h->mem16 != 0);
    size_t ws = h->mem16 ? 2 : 1;
    if (wsmismatch) {
        VH_COUNT("request with the wrong word size");
        if (h->ncalls != 0)
            vh_fail("wordsize-mismatch-executed", key, "%s: %d backend calls", ctx, h->ncalls);
    } else {
        if (h->ncalls != 1) {
            vh_fail("not-exactly-one-access", key, "%s: %d backend calls", ctx, h->ncalls);
        } else {
            const struct rp_becall *c = &h->call[0];
            if (c->write != (q->kind == RT_WRITE_REQ) || c->addr != q->addr || c->n != q->bsize)
                vh_fail("access-differs", key, "%s: backend saw %s addr=%08x n=%zu", ctx, c->write ? "write" : "read",
                        c->addr, c->n);
            if (c->room == SIZE_MAX || c->room < c->n * ws)
                vh_fail("backend-buffer-too-small", key, "%s: room behind the pointer %zu, needed %zu", ctx, c->room,
                        c->n * ws);
            if (c->write && (c->plcopy != (q->plen < 300 ? q->plen : 300) || memcmp(c->payload, q->payload, c->plcopy)))
                vh_fail("payload-differs", key, "%s: backend saw %s", ctx, vh_hex(c->payload, c->plcopy));
        }
    }
    /* exactly one response */
    if (nf != 1) {
        vh_fail("not-exactly-one-response", key, "%s: %d frames in %zu reply octets (%s)", ctx, nf, h->out_n,
                vh_hex(h->out, h->out_n > 40 ? 40 : h->out_n));
        return;
    }
    struct rframe r;
    int err = rp_decode_raw(SP.raw[0], SP.len[0], &r);
    if (err) {
        vh_fail("response-malformed", key, "%s: reference decoder says %d for %s", ctx, err,
                vh_hex(SP.raw[0], SP.len[0] > 40 ? 40 : SP.len[0]));
        return;
    }
    /* option bits of the reply as the transport section of the document mandates */
    {
        unsigned crcbits = r.options & (ROPT_HDCRC | ROPT_PLCRC);
        unsigned want = h->serial ? (ROPT_HDCRC | (r.plen ? ROPT_PLCRC : 0u)) : 0u;
        if (crcbits != want || (r.options & 8u))
            vh_fail("response-option-bits", key, "%s: reply options %x, transport demands checksum bits %x", ctx,
                    r.options, want);
    }
    unsigned expcode = wsmismatch ? 1u : (unsigned)verdict.status;
    vh_countf("response: %s", rp_respname[expcode]);
    if (r.type != (unsigned)q->kind + 1 || r.seq != q->seq || r.addr != q->addr)
        vh_fail("response-header", key, "%s: response type=%u seq=%u addr=%08x", ctx, r.type, r.seq, r.addr);
    if (r.meta != expcode) {
        vh_fail("response-code", key, "%s: response code %u expected %u", ctx, r.meta, expcode);
        return;
    }
    if (expcode == 0) {
        if (q->kind == RT_READ_REQ) {
            int ok = ((r.options & ROPT_W16) != 0) == (h->mem16 != 0) && r.bsize == q->bsize && r.plen == q->bsize * ws;
            for (size_t i = 0; ok && i < r.plen; i++)
                ok = r.payload[i] == rp_fill(h->fill_seed, i);
            if (!ok)
                vh_fail("ack-payload", key, "%s: ack options=%x bsize=%u payload %s", ctx, r.options, r.bsize,
                        vh_hex(r.payload, r.plen > 24 ? 24 : r.plen));
        } else if (r.plen != 0) {
            vh_fail("write-ack-payload", key, "%s: write acknowledgement carries %zu octets", ctx, r.plen);
        }
    } else if (rp_code_has_payload(expcode)) {
        uint32_t want = (expcode == 4 || expcode == 5) ? (uint32_t)(h->blocksize - sizeof(RPFrame)) : verdict.address;
        unsigned char be[4];
        rp_be32(be, want);
        if ((r.options & ROPT_W16) || r.bsize != 4 || r.plen != 4 || memcmp(r.payload, be, 4) != 0)
            vh_fail("error-payload", key, "%s: %s response options=%x bsize=%u payload=%s expected %08x", ctx,
                    rp_respname[expcode], r.options, r.bsize, vh_hex(r.payload, r.plen > 8 ? 8 : r.plen), want);
    } else if (r.plen != 0 || (r.options & ROPT_W16)) {
        vh_fail("error-payload", key, "%s: %s response options=%x carries %zu octets", ctx, rp_respname[expcode],
                r.options, r.plen);
    }
}

static int oversize_mismatch;

/* a second instance with the opposite transport and word size lives next to the one under test and serves a
 * request of its own every few steps: whatever the library keeps per instance must not leak between them */
static struct rp_h H2;
static int h2_alive;

static void
bystander_setup(const struct rp_h *main_inst)
{
    rp_setup(&H2, !main_inst->serial, !main_inst->mem16, 128);
    h2_alive = 1;
    rp_cur = (struct rp_h *)(uintptr_t)main_inst;
}

static void
bystander_step(struct rp_h *main_inst, vh_rng *rg)
{
    if (!h2_alive)
        return;
    struct req q;
    memset(&q, 0, sizeof q);
    q.kind = vh_chance(rg, 1, 2) ? RT_READ_REQ : RT_WRITE_REQ;
    q.w16 = H2.mem16;
    q.seq = (uint16_t)vh_rand(rg);
    q.addr = (uint32_t)vh_rand(rg);
    q.bsize = 1 + (uint32_t)vh_below(rg, 4);
    q.plen = q.kind == RT_WRITE_REQ ? q.bsize * (q.w16 ? 2u : 1u) : 0;
    for (size_t i = 0; i < q.plen; i++)
        q.payload[i] = (unsigned char)vh_rand(rg);
    rp_cur = &H2;
    step(&H2, &q, (RPBlockAccess){ .status = RP_RESP_ACK, .address = 0 }, "bystander instance");
    rp_cur = main_inst;
    VH_COUNT("request served by a second instance in between");
}

static void
gen_req(vh_rng *rg, const struct rp_h *h, struct req *q, uint16_t seq)
{
    oversize_mismatch = 0;
    memset(q, 0, sizeof *q);
    unsigned x = (unsigned)vh_below(rg, 20);
    q->seq = vh_chance(rg, 1, 3) ? (uint16_t)vh_rand(rg) : seq;
    static const uint32_t addrs[] = { 0, 1, 0x64, 0xc0, 0xdb, 0xc0dbdcdd, 0xffffffff, 0x80000000, 0x12345678 };
    q->addr = vh_chance(rg, 1, 2) ? addrs[vh_below(rg, 9)] : (uint32_t)vh_rand(rg);
    q->w16 = vh_chance(rg, 1, 6) ? !h->mem16 : h->mem16;
    size_t ws = q->w16 ? 2 : 1;
    /* capacity: the largest block whose response message (header + payload) is not larger than the frame
     * buffer; for writes the request itself has that size */
    size_t cap = (h->blocksize - sizeof(RPFrame) - (h->serial ? 16 : 12)) / ws;
    if (cap * ws > 290)
        cap = 290 / ws;
    if (x < 8) {
        q->kind = RT_READ_REQ;
        q->bsize = (uint32_t)(vh_chance(rg, 1, 5) ? (vh_chance(rg, 1, 2) ? 0 : cap) : vh_below(rg, cap + 1));
        if ((q->w16 != 0) != (h->mem16 != 0) && vh_chance(rg, 1, 2)) {
            /* the word-size error is due whatever the block size: also for reads no answer could carry */
            static const uint32_t over[] = { 1, 2, 3, 100, 255, 65536, 0x7fffffffu, 0xffffffffu };
            uint32_t o = over[vh_below(rg, 8)];
            q->bsize = o > 0xffffffffu - (uint32_t)cap ? 0xffffffffu : (uint32_t)cap + o;
            oversize_mismatch = 1;
        }
    } else if (x < 16) {
        q->kind = RT_WRITE_REQ;
        q->bsize = (uint32_t)(vh_chance(rg, 1, 5) ? (vh_chance(rg, 1, 2) ? 0 : cap) : vh_below(rg, cap + 1));
        q->plen = q->bsize * ws;
        for (size_t i = 0; i < q->plen; i++)
            q->payload[i] = vh_chance(rg, 1, 4) ? (vh_chance(rg, 1, 2) ? 0xc0 : 0xdb) : (unsigned char)vh_rand(rg);
    } else if (x < 19) {
        /* responses: acks and errors, some with payload */
        q->kind = vh_chance(rg, 1, 2) ? RT_READ_RESP : RT_WRITE_RESP;
        q->meta = (unsigned)vh_below(rg, 12);
        if (q->meta == 0 && q->kind == RT_READ_RESP) {
            q->bsize = (uint32_t)vh_below(rg, 20);
            q->plen = q->bsize * ws;
        } else if (q->meta != 0 && rp_code_has_payload(q->meta)) {
            q->w16 = 0;
            q->bsize = 4;
            q->plen = 4;
        }
        for (size_t i = 0; i < q->plen; i++)
            q->payload[i] = (unsigned char)vh_rand(rg);
    } else {
        q->kind = RT_META;
        q->meta = 1 + (unsigned)vh_below(rg, 2);
    }
}

static void
u_session(uint64_t idx, void *arg)
{
    (void)arg;
    vh_rng rg;
    vh_unit_rng(&rg, "session", idx);
    for (int s = 0; s < 8; s++) {
        vh_arena_reset();
        static const size_t bss[] = { 128, 200, 300, 360, 129, 255, 131, 361 }; /* even and odd block sizes */
        rp_setup(&H, (int)vh_below(&rg, 2), (int)vh_below(&rg, 2), bss[vh_below(&rg, 8)]);
        if (H.blocksize & 1)
            VH_COUNT("session on an allocator with an odd block size");
        unsigned nframes = 1 + (unsigned)vh_below(&rg, 50);
        uint16_t seq = vh_chance(&rg, 1, 4) ? 0xfffd : (uint16_t)vh_rand(&rg);
        char ctx[80];
        /* every other session has noise between its requests: damaged frames, oversized frames, empty frames
         * and allocation failures are received and processed in between (their own handling is C07's and C09's
         * subject); the requests that follow must be served as if nothing had happened */
        const int noisy = s & 1;
        h2_alive = 0;
        if (s & 2)
            bystander_setup(&H);
        for (unsigned f = 0; f < nframes; f++) {
            struct req q;
            if (h2_alive && (f % 3) == 1)
                bystander_step(&H, &rg);
            if (noisy && vh_chance(&rg, 1, 3)) {
                struct req nq;
                unsigned char wire[1400], raw[700];
                size_t rawn, wn;
                gen_req(&rg, &H, &nq, (uint16_t)vh_rand(&rg));
                wn = wire_of(&nq, H.serial, wire, raw, &rawn);
                unsigned kind = (unsigned)vh_below(&rg, 7);
                int never_execute = 0;
                if (kind == 6) {
                    /* a write request that announces far more words than it carries (2^31, 2^30, 2^16 ... more: sums
                     * and products that wrap in 32 bits land on the true count again): this one is judged - it must
                     * not reach the backend and must not be acknowledged */
                    static const uint32_t far[] = { 0x80000000u, 0x40000000u, 0xc0000000u, 0x00010000u, 0xffff0000u, 0x7fffffffu };
                    nq.kind = RT_WRITE_REQ;
                    nq.w16 = H.mem16;
                    nq.plen = (size_t)vh_below(&rg, 6) * (H.mem16 ? 2u : 1u);
                    nq.bsize = (uint32_t)(nq.plen / (H.mem16 ? 2u : 1u)) + far[vh_below(&rg, 6)];
                    wn = wire_of(&nq, H.serial, wire, raw, &rawn);
                    never_execute = 1;
                } else if (kind == 0 && rawn > 0) {
                    raw[vh_below(&rg, rawn)] ^= (unsigned char)(1u << vh_below(&rg, 8)); /* one flipped bit */
                    wn = rp_wire(H.serial, raw, rawn, wire);
                } else if (kind == 1) {
                    rawn = (size_t)vh_below(&rg, rawn + 1); /* truncated, possibly to nothing */
                    wn = rp_wire(H.serial, raw, rawn, wire);
                } else if (kind == 2) {
                    memset(raw + rawn, 0x11, sizeof raw - rawn); /* longer than the frame block */
                    rawn = H.blocksize + (size_t)vh_below(&rg, 40);
                    if (rawn > sizeof raw)
                        rawn = sizeof raw;
                    wn = rp_wire(H.serial, raw, rawn, wire);
                } else if (kind == 3) {
                    H.fail_alloc_at = (long)H.alloc_calls; /* the next allocation fails */
                } else if (kind == 5 && H.serial) {
                    /* line noise that stops right behind an illegal escape sequence */
                    static const unsigned char junk[] = { 0x21, 0x00, 0x7f, 0xdb, 0x41 };
                    memcpy(wire, junk, sizeof junk);
                    wn = sizeof junk;
                } /* kind 4: an intact frame whose reply nobody looks at */
                rp_feed(&H, wire, wn);
                H.out_n = 0;
                H.ncalls = 0;
                H.verdict = (RPBlockAccess){ .status = RP_RESP_ACK, .address = 0 };
                RPMaybeFrame nmf;
                regp_recv(&H.p, &nmf);
                regp_process(&H.p, &nmf);
                regp_free(&H.p, nmf.frame);
                H.fail_alloc_at = -1;
                if (never_execute) {
                    int acked = 0, nfr = rp_unframe(H.serial, H.out, H.out_n, &SP);
                    for (int i = 0; i < nfr && i < 4; i++) {
                        struct rframe rr;
                        if (rp_decode_raw(SP.raw[i], SP.len[i], &rr) == 0 && rr.type == RT_WRITE_RESP && rr.meta == 0)
                            acked = 1;
                    }
                    if (H.ncalls != 0 || acked)
                        vh_fail("implausible-write-executed", "workload=noise", "session %" PRIu64 ".%d: write request announcing %u words with %zu payload "
                                "octets (%s): %d backend calls (n=%zu)%s", idx, s, nq.bsize, nq.plen, vh_hex(raw, rawn > 24 ? 24 : rawn), H.ncalls,
                                H.ncalls ? H.call[0].n : 0, acked ? ", acknowledged" : "");
                    VH_COUNT("write request announcing far more words than it carries");
                }
                if (rp_live_blocks(&H) != 0 || H.bad_free) {
                    vh_fail("block-ledger", "workload=noise", "session %" PRIu64 ".%d: %d blocks live, bad free=%d after a "
                            "noise frame of kind %u", idx, s, rp_live_blocks(&H), H.bad_free, kind);
                    H.bad_free = 0;
                    for (int i = 0; i < H.nblk; i++)
                        H.blk[i].live = 0;
                }
                rp_ledger_gc(&H);
                VH_COUNT("noise frame between requests of a session");
            }
            gen_req(&rg, &H, &q, seq++);
            RPBlockAccess verdict = { .status = RP_RESP_ACK, .address = 0 };
            if (vh_chance(&rg, 1, 2)) {
                verdict.status = (RPResponse)vh_below(&rg, 12);
                verdict.address = vh_chance(&rg, 1, 2) ? q.addr + (uint32_t)vh_below(&rg, 8) : (uint32_t)vh_rand(&rg);
            }
            VH_CASE4(idx, s, f, q.kind);
            snprintf(ctx, sizeof ctx, "session %" PRIu64 ".%d frame %u/%u", idx, s, f, nframes);
            step(&H, &q, verdict, ctx);
            if (oversize_mismatch)
                VH_COUNT("read with the wrong word size and a block no answer could carry");
            if ((f & 7) == 7 && rp_live_blocks(&H) == 0) {
                /* the arena only grows; start over with the same instance state */
                vh_arena_reset();
                H.nblk = 0;
            }
        }
        vh_sig(0x06000000ull ^ (idx << 4) ^ (uint64_t)s);
    }
    if (idx == 0)
        vh_sample("session", "sessions of 1..50 frames (read/write requests 8/16 bit, responses, meta) on one RegP; "
                             "backend verdict drawn from the 12 response codes");
}

/* ---------------- end to end with a register table ---------------- */

static RegisterTable T;
static RegisterAtom t_mem0[8], t_mem1[4], t_cb[4];
static int t_cb_mode; /* what the callback area reports */

static RegisterAccess
t_cbread(const RegisterArea *a, RegisterAtom *d, RegisterOffset o, RegisterOffset n)
{
    (void)a;
    RegisterAccess rv = REG_ACCESS_RESULT_INIT;
    if (t_cb_mode) {
        rv.code = t_cb_mode == 1 ? REG_ACCESS_IO_ERROR : REG_ACCESS_FAILURE;
        rv.address = 0x30u + o;
        return rv;
    }
    memcpy(d, t_cb + o, n * sizeof *d);
    return rv;
}

static RegisterAccess
t_cbwrite(RegisterArea *a, const RegisterAtom *s, RegisterOffset o, RegisterOffset n)
{
    (void)a;
    RegisterAccess rv = REG_ACCESS_RESULT_INIT;
    memcpy(t_cb + o, s, n * sizeof *s);
    return rv;
}

static RegisterArea t_areas[] = {
    { .read = reg_mem_read, .write = reg_mem_write, .flags = REG_AF_RW, .base = 0x10, .size = 8, .mem = t_mem0 },
    { .read = reg_mem_read, .write = reg_mem_write, .flags = REG_AF_READABLE, .base = 0x20, .size = 4, .mem = t_mem1 },
    { .read = t_cbread, .write = t_cbwrite, .flags = REG_AF_RW, .base = 0x30, .size = 4, .mem = NULL },
    REGISTER_AREA_END
};
static RegisterEntry t_entries[] = {
    REG_U16(0, 0x10, 5),
    REG_U16RANGE(1, 0x11, 10, 20, 15),
    REG_F32(2, 0x12, 1.0f),
    REG_U32MAX(3, 0x14, 1000, 7),
    REG_U16(4, 0x20, 1),
    REG_U16(5, 0x30, 2),
    REGISTER_ENTRY_END
};

static RPBlockAccess
t_r16(uint32_t a, size_t n, uint16_t *b)
{
    rp_be(0, 2, a, n, b, NULL); /* log + room check only */
    return regaccess2blockaccess(register_block_read(&T, a, (RegisterOffset)n, b));
}

static RPBlockAccess
t_w16(uint32_t a, size_t n, const uint16_t *b)
{
    rp_be(1, 2, a, n, NULL, b);
    return regaccess2blockaccess(register_block_write(&T, a, (RegisterOffset)n, (RegisterAtom *)b));
}

/* this harness' own table of the mapping the header documents */
static unsigned
map_access(RegisterAccessCode c)
{
    switch (c) {
    case REG_ACCESS_SUCCESS: return 0;
    case REG_ACCESS_UNINITIALISED:
    case REG_ACCESS_NOENTRY: return 7;
    case REG_ACCESS_RANGE: return 9;
    case REG_ACCESS_INVALID: return 10;
    case REG_ACCESS_READONLY: return 8;
    default: return 11;
    }
}

static void
u_table(uint64_t idx, void *arg)
{
    (void)arg;
    vh_rng rg;
    vh_unit_rng(&rg, "table", idx);
    vh_arena_reset();
    rp_setup(&H, (int)(idx & 1), 1, 256);
    regp_use_memory16(&H.p, t_r16, t_w16);
    T.area = t_areas;
    T.entry = t_entries;
    T.flags = 0;
    int uninit = (idx % 7) == 3;
    if (!uninit) {
        RegisterInit ri = register_init(&T);
        if (ri.code != REG_INIT_SUCCESS) {
            vh_broken("end-to-end table does not initialise: %d", ri.code);
            return;
        }
    }
    for (int k = 0; k < 60; k++) {
        struct req q;
        memset(&q, 0, sizeof q);
        q.w16 = 1;
        q.seq = (uint16_t)(idx * 100 + (uint64_t)k);
        q.addr = 0x0e + (uint32_t)vh_below(&rg, 0x28);
        q.bsize = (uint32_t)vh_below(&rg, 7);
        q.kind = vh_chance(&rg, 1, 2) ? RT_READ_REQ : RT_WRITE_REQ;
        t_cb_mode = (int)vh_below(&rg, 6);
        if (t_cb_mode > 2)
            t_cb_mode = 0;
        RegisterAtom w[8];
        if (q.kind == RT_WRITE_REQ) {
            static const RegisterAtom interesting[] = { 0, 9, 10, 15, 20, 21, 1000, 1001, 0x7fc0, 0x7f80, 0x3f80, 0xffff };
            for (uint32_t i = 0; i < q.bsize; i++)
                w[i] = vh_chance(&rg, 2, 3) ? interesting[vh_below(&rg, 12)] : (RegisterAtom)vh_rand(&rg);
            q.plen = q.bsize * 2;
            memcpy(q.payload, w, q.plen);
        }
        /* expected verdict: ask the same table directly, undoing the effect of a successful write afterwards is not
         * needed - the direct call and the request perform the same state change, so do the direct call on a copy */
        RegisterAtom s0[8], s1[4], s2[4];
        uint16_t flags[6];
        memcpy(s0, t_mem0, sizeof s0);
        memcpy(s1, t_mem1, sizeof s1);
        memcpy(s2, t_cb, sizeof s2);
        for (int i = 0; i < 6; i++)
            flags[i] = t_entries[i].flags;
        RegisterAtom tmp[8];
        RegisterAccess direct = q.kind == RT_READ_REQ ? register_block_read(&T, q.addr, q.bsize, tmp)
                                                      : register_block_write(&T, q.addr, q.bsize, w);
        memcpy(t_mem0, s0, sizeof s0);
        memcpy(t_mem1, s1, sizeof s1);
        memcpy(t_cb, s2, sizeof s2);
        for (int i = 0; i < 6; i++)
            t_entries[i].flags = flags[i];
        unsigned expcode = map_access(direct.code);
        /* run the request */
        unsigned char wire[200], raw[100];
        size_t rawn, wn = wire_of(&q, H.serial, wire, raw, &rawn);
        rp_feed(&H, wire, wn);
        H.out_n = 0;
        H.ncalls = 0;
        RPMaybeFrame mf;
        VH_CASE4(idx, k, q.addr, q.bsize);
        regp_recv(&H.p, &mf);
        regp_process(&H.p, &mf);
        regp_free(&H.p, mf.frame);
        char ctx[200], key[64];
        snprintf(key, sizeof key, "workload=table request=%s", q.kind == RT_READ_REQ ? "read" : "write");
        snprintf(ctx, sizeof ctx, "table request %s addr=%02x n=%u: register API says code=%d address=%02x",
                 q.kind == RT_READ_REQ ? "read" : "write", q.addr, q.bsize, direct.code, direct.address);
        int nf = rp_unframe(H.serial, H.out, H.out_n, &SP);
        struct rframe r;
        if (H.ncalls != 1 || nf != 1 || rp_decode_raw(SP.raw[0], SP.len[0], &r) != 0) {
            vh_fail("table-exchange", key, "%s: %d backend calls, %d reply frames", ctx, H.ncalls, nf);
        } else {
            vh_countf("table verdict -> %s", rp_respname[expcode]);
            if (r.meta != expcode)
                vh_fail("verdict-mapping", key, "%s: response code %s expected %s", ctx,
                        r.meta <= 11 ? rp_respname[r.meta] : "?", rp_respname[expcode]);
            else if (rp_code_has_payload(expcode)) {
                unsigned char be[4];
                rp_be32(be, direct.address);
                if (r.plen != 4 || memcmp(be, r.payload, 4) != 0)
                    vh_fail("verdict-address", key, "%s: payload %s", ctx, vh_hex(r.payload, r.plen > 8 ? 8 : r.plen));
            } else if (expcode == 0 && q.kind == RT_READ_REQ) {
                if (r.plen != q.bsize * 2 || memcmp(r.payload, tmp, r.plen) != 0)
                    vh_fail("table-read-data", key, "%s: payload %s expected %s", ctx, vh_hex(r.payload, r.plen),
                            vh_hex(tmp, q.bsize * 2));
            }
        }
        rp_ledger_gc(&H);
        if ((k & 7) == 7) {
            vh_arena_reset();
            H.nblk = 0;
        }
    }
    vh_sig(0x06100000ull ^ idx);
    if (idx == 1)
        vh_sample("table", "server bound to a 3-area register table (RW, read-only, failing callback area; range, "
                           "max and float registers) through regaccess2blockaccess");
}

/* requests arriving back to back: several frames in the source at once (a TCP stream, a filled UART FIFO), through
 * octet sources and through sources exposing a transfer window (getbuffer) that is shorter than, equal to or longer
 * than the frames; each request is served once, in order, and nothing of the next frame is eaten */
static void
u_pipeline(uint64_t idx, void *arg)
{
    (void)arg;
    vh_rng rg;
    vh_unit_rng(&rg, "pipeline", idx);
    static const size_t wins[] = { 0, 1, 2, 5, 12, 13, 16, 17, 40, 64, 80 };
    for (int rep = 0; rep < 40; rep++) {
        vh_arena_reset();
        const int serial = (int)vh_below(&rg, 2), mem16 = (int)vh_below(&rg, 2);
        rp_next_window = wins[vh_below(&rg, sizeof wins / sizeof wins[0])];
        rp_setup(&H, serial, mem16, 200);
        const size_t window = H.winsize;
        unsigned nreq = 2 + (unsigned)vh_below(&rg, 5);
        struct req q[6];
        static unsigned char stream[6 * 1400], wire[1400], raw[700];
        size_t sn = 0;
        uint16_t seq = (uint16_t)vh_rand(&rg);
        for (unsigned i = 0; i < nreq; i++) {
            do {
                gen_req(&rg, &H, &q[i], seq);
            } while ((q[i].kind != RT_READ_REQ && q[i].kind != RT_WRITE_REQ) || (q[i].w16 != 0) != (mem16 != 0) || q[i].bsize > 40);
            seq++;
            q[i].addr = 0x1000u * (i + 1) + (uint32_t)vh_below(&rg, 0x800); /* tell the requests apart */
            size_t rawn, wn = wire_of(&q[i], serial, wire, raw, &rawn);
            memcpy(stream + sn, wire, wn);
            sn += wn;
        }
        rp_feed(&H, stream, sn);
        H.in_bound = (unsigned)(4 * sn + 64);
        H.out_n = 0;
        H.ncalls = 0;
        H.verdict = (RPBlockAccess){ .status = RP_RESP_ACK, .address = 0 };
        H.fill_seed = (unsigned char)rep;
        VH_CASE4(idx, rep, nreq, window);
        RPMaybeFrame mf;
        unsigned rounds = 0;
        for (; rounds < nreq + 2; rounds++) {
            size_t before = H.in_pos;
            int rc = regp_recv(&H.p, &mf);
            regp_process(&H.p, &mf);
            regp_free(&H.p, mf.frame);
            if (H.in_runaway || (H.in_pos >= H.in_n && (rc < 0 || H.in_pos == before)))
                break;
        }
        char key[96], ctx[200];
        snprintf(key, sizeof key, "workload=pipeline transport=%s mem=%d source=%s", serial ? "serial" : "tcp", mem16 ? 16 : 8,
                 window ? "window" : "octet");
        snprintf(ctx, sizeof ctx, "pipeline %" PRIu64 ".%d: %u requests back to back (%zu octets), transfer window %zu", idx, rep, nreq, sn,
                 window);
        (*vh_ncases)++;
        if (H.in_runaway) {
            vh_fail("no-progress", key, "%s: more than %u source calls", ctx, H.in_bound);
            continue;
        }
        if (rp_live_blocks(&H) != 0 || H.bad_free)
            vh_fail("block-ledger", key, "%s: %d blocks live, bad free=%d", ctx, rp_live_blocks(&H), H.bad_free);
        if ((unsigned)H.ncalls != nreq) {
            vh_fail("not-exactly-one-access", key, "%s: %d backend calls for %u requests", ctx, H.ncalls, nreq);
        } else {
            for (unsigned i = 0; i < nreq; i++) {
                const struct rp_becall *c = &H.call[i];
                if (c->write != (q[i].kind == RT_WRITE_REQ) || c->addr != q[i].addr || c->n != q[i].bsize
                    || (c->write && (c->plcopy != q[i].plen || memcmp(c->payload, q[i].payload, c->plcopy))))
                    vh_fail("access-differs", key, "%s: access %u is %s addr=%08x n=%zu, request %s addr=%08x n=%u", ctx, i,
                            c->write ? "write" : "read", c->addr, c->n, q[i].kind == RT_WRITE_REQ ? "write" : "read", q[i].addr,
                            q[i].bsize);
            }
        }
        int nf = rp_unframe(serial, H.out, H.out_n, &SP);
        if (nf != (int)nreq) {
            vh_fail("not-exactly-one-response", key, "%s: %d reply frames for %u requests", ctx, nf, nreq);
        } else {
            for (unsigned i = 0; i < nreq; i++) {
                struct rframe r;
                if (rp_decode_raw(SP.raw[i], SP.len[i], &r) != 0 || r.type != (unsigned)q[i].kind + 1 || r.meta != 0 || r.seq != q[i].seq
                    || r.addr != q[i].addr)
                    vh_fail("response-header", key, "%s: reply %u type=%u code=%u seq=%u addr=%08x", ctx, i, r.type, r.meta, r.seq, r.addr);
            }
        }
        if (window && window < 30)
            VH_COUNT("pipeline through a transfer window shorter than the frames");
        else if (window)
            VH_COUNT("pipeline through a transfer window");
        else
            VH_COUNT("pipeline through an octet source");
        vh_sig(0x06400000ull ^ (idx << 8) ^ (uint64_t)rep);
    }
}

/* one instance serving 70000 requests in a row: counters, sequence numbers and whatever else accumulates over the
 * life of an instance pass 255, 256, 65535 and 65536 */
static void
u_marathon(uint64_t idx, void *arg)
{
    (void)arg;
    vh_rng rg;
    vh_unit_rng(&rg, "marathon", idx);
    vh_arena_reset();
    rp_setup(&H, (int)(idx & 1), (int)((idx >> 1) & 1), 128);
    uint16_t seq = (uint16_t)vh_rand(&rg);
    const unsigned total = vh_tier ? 140000u : 70000u;
    char ctx[80];
    for (unsigned f = 0; f < total; f++) {
        struct req q;
        gen_req(&rg, &H, &q, seq++);
        if (q.bsize > 6 && q.kind != RT_READ_RESP && q.kind != RT_WRITE_RESP && !oversize_mismatch) {
            q.bsize %= 7;
            q.plen = q.kind == RT_WRITE_REQ ? q.bsize * (q.w16 ? 2u : 1u) : q.plen;
        }
        RPBlockAccess verdict = { .status = RP_RESP_ACK, .address = 0 };
        if (vh_chance(&rg, 1, 8)) {
            verdict.status = (RPResponse)vh_below(&rg, 12);
            verdict.address = (uint32_t)vh_rand(&rg);
        }
        VH_CASE4(idx, f, q.kind, q.bsize);
        snprintf(ctx, sizeof ctx, "marathon %" PRIu64 " frame %u of %u", idx, f, total);
        step(&H, &q, verdict, ctx);
        if ((f & 7) == 7 && rp_live_blocks(&H) == 0) {
            vh_arena_reset();
            H.nblk = 0;
        }
    }
    VH_COUNT("instance that served more than 65536 frames");
    vh_sig(0x06300000ull ^ idx);
}

/* Blocks far beyond the default 128 octets: an allocator with 300000-octet blocks lets one frame carry tens of
 * thousands of words; counts around 2^15 and 2^16 words and octets, both directions, both word sizes, both
 * transports. The oracle is the same pairing as in step(), with the payload compared in full. */
#define BIG_BLOCK 300000u
static unsigned char big_pl[150000], big_raw[150100], big_wire[300300], big_reply[160000];

static void
u_bigblock(uint64_t idx, void *arg)
{
    (void)arg;
    static const uint32_t counts[] = { 129, 365, 1000, 16383, 16384, 32767, 32768, 32769, 40000, 65535, 65536, 65537,
                                       70001 };
    const int serial = (int)(idx & 1), mem16 = (int)((idx >> 1) & 1), write = (int)((idx >> 2) & 1);
    const uint32_t n = counts[(idx >> 3) % (sizeof counts / sizeof counts[0])];
    const size_t ws = mem16 ? 2 : 1, octets = (size_t)n * ws;
    vh_rng rg;
    vh_unit_rng(&rg, "bigblock", idx);
    vh_arena_reset();
    rp_setup(&H, serial, mem16, BIG_BLOCK);
    struct rframe f;
    memset(&f, 0, sizeof f);
    f.type = write ? RT_WRITE_REQ : RT_READ_REQ;
    f.seq = (uint16_t)vh_rand(&rg);
    f.addr = (uint32_t)vh_rand(&rg);
    f.bsize = n;
    if (write)
        for (size_t i = 0; i < octets; i++)
            big_pl[i] = (unsigned char)(i * 31u + (i >> 8) + f.seq);
    f.payload = big_pl;
    f.plen = write ? octets : 0;
    f.options = (mem16 ? ROPT_W16 : 0) | (serial ? ROPT_HDCRC : 0) | (serial && f.plen ? ROPT_PLCRC : 0);
    size_t rawn = rp_encode_raw(&f, big_raw);
    size_t wn = rp_wire(serial, big_raw, rawn, big_wire);
    rp_feed(&H, big_wire, wn);
    H.fill_seed = (unsigned char)(f.seq + 3);
    char key[96], ctx[200];
    snprintf(key, sizeof key, "workload=bigblock transport=%s mem=%d frame=%s", serial ? "serial" : "tcp", mem16 ? 16 : 8,
             write ? "write" : "read");
    snprintf(ctx, sizeof ctx, "blocks of %u octets, %s of %u words (%zu octets) at %08x seq=%u", BIG_BLOCK,
             write ? "write" : "read", n, octets, f.addr, f.seq);
    VH_CASE4(idx, n, serial, mem16 * 2 + write);
    RPMaybeFrame mf;
    regp_recv(&H.p, &mf);
    regp_process(&H.p, &mf);
    regp_free(&H.p, mf.frame);
    (*vh_ncases)++;
    if (H.in_runaway) {
        vh_fail("no-progress", key, "%s: more than %u source calls", ctx, H.in_bound);
        return;
    }
    if (mf.error.id != 0 || mf.frame == NULL) {
        vh_fail("valid-frame-rejected", key, "%s: error.id=%d", ctx, mf.error.id);
        return;
    }
    if (rp_live_blocks(&H) != 0 || H.bad_free)
        vh_fail("block-ledger", key, "%s: %d blocks live after regp_free, bad free=%d", ctx, rp_live_blocks(&H),
                H.bad_free);
    if (H.ncalls != 1) {
        vh_fail("not-exactly-one-access", key, "%s: %d backend calls", ctx, H.ncalls);
    } else {
        const struct rp_becall *c = &H.call[0];
        if (c->write != write || c->addr != f.addr || c->n != n)
            vh_fail("access-differs", key, "%s: backend saw %s addr=%08x n=%zu", ctx, c->write ? "write" : "read", c->addr,
                    c->n);
        if (c->room == SIZE_MAX || c->room < octets)
            vh_fail("backend-buffer-too-small", key, "%s: room behind the pointer %zu", ctx, c->room);
        else if (write && (c->plseen != octets || c->plhash != rp_hash(big_pl, octets)))
            vh_fail("payload-differs", key, "%s: backend saw %zu octets starting %s", ctx, c->plseen,
                    vh_hex(c->payload, 16));
    }
    size_t rlen[1];
    int nf = rp_unframe_into(serial, H.out, H.out_n, big_reply, sizeof big_reply, 1, rlen);
    struct rframe r;
    int err;
    if (nf != 1) {
        vh_fail("not-exactly-one-response", key, "%s: %d frames in %zu reply octets", ctx, nf, H.out_n);
        return;
    }
    if ((err = rp_decode_raw(big_reply, rlen[0], &r)) != 0) {
        vh_fail("response-malformed", key, "%s: reference decoder says %d for a reply of %zu octets, block size field %u",
                ctx, err, rlen[0], r.bsize);
        return;
    }
    if (r.type != (write ? (unsigned)RT_WRITE_RESP : (unsigned)RT_READ_RESP) || r.meta != 0 || r.seq != f.seq ||
        r.addr != f.addr || (!write && r.bsize != n))
        vh_fail("response-header", key, "%s: type=%u code=%u seq=%u addr=%08x bsize=%u", ctx, r.type, r.meta, r.seq,
                r.addr, r.bsize);
    {
        unsigned crcbits = r.options & (ROPT_HDCRC | ROPT_PLCRC);
        unsigned want = serial ? (ROPT_HDCRC | (r.plen ? ROPT_PLCRC : 0u)) : 0u;
        if (crcbits != want || (r.options & 8u) || (!write && ((r.options & ROPT_W16) != 0) != (mem16 != 0)))
            vh_fail("response-option-bits", key, "%s: reply options %x, transport demands checksum bits %x", ctx, r.options,
                    want);
    }
    if (write) {
        if (r.plen != 0)
            vh_fail("response-payload", key, "%s: write acknowledgement with %zu payload octets", ctx, r.plen);
    } else {
        size_t bad = SIZE_MAX;
        for (size_t i = 0; i < r.plen && i < octets && bad == SIZE_MAX; i++)
            if (r.payload[i] != rp_fill(H.fill_seed, i))
                bad = i;
        if (r.plen != octets || bad != SIZE_MAX)
            vh_fail("response-payload", key, "%s: acknowledgement carries %zu octets, backend delivered %zu; first "
                    "difference at %zd", ctx, r.plen, octets, bad == SIZE_MAX ? (ssize_t)-1 : (ssize_t)bad);
    }
    VH_COUNT("frame of more than 128 octets through a large-block allocator");
    if (octets >= 65536)
        VH_COUNT("frame carrying 65536 or more payload octets");
    vh_sig(0x06200000ull ^ idx);
}

void
harness_run(void)
{
    for (uint64_t i = 0; i < 8u * 13u; i++)
        vh_unit("bigblock", i, u_bigblock, NULL);
    for (uint64_t i = 0; i < 4; i++)
        vh_unit("marathon", i, u_marathon, NULL);
    for (uint64_t i = 0; i < (vh_tier ? 4000u : 60u); i++)
        vh_unit("pipeline", i, u_pipeline, NULL);
    vh_require("pipeline through a transfer window shorter than the frames");
    vh_require("pipeline through an octet source");
    vh_require("instance that served more than 65536 frames");
    for (uint64_t i = 0; i < (vh_tier ? 80000u : 700u); i++)
        vh_unit("session", i, u_session, NULL);
    for (uint64_t i = 0; i < (vh_tier ? 20000u : 300u); i++)
        vh_unit("table", i, u_table, NULL);
    static char req[12][40];
    for (int i = 0; i < 12; i++) {
        snprintf(req[i], sizeof req[i], "response: %s", rp_respname[i]);
        vh_require(req[i]);
    }
    vh_require("non-request frame: no access, no reply");
    vh_require("request with the wrong word size");
    vh_require("noise frame between requests of a session");
    vh_require("write request announcing far more words than it carries");
    vh_require("session on an allocator with an odd block size");
    vh_require("request served by a second instance in between");
    vh_require("read with the wrong word size and a block no answer could carry");
    vh_require("frame carrying 65536 or more payload octets");
    static const char *t[] = { "table verdict -> ACK", "table verdict -> EUNMAPPED", "table verdict -> EACCESS",
                               "table verdict -> ERANGE", "table verdict -> EINVALID", "table verdict -> EIO" };
    for (size_t i = 0; i < 6; i++)
        vh_require(t[i]);
}
