/* Shared by C01..C05: small-scope register-table generator, instantiation of
 * the real RegisterTable in the poisoned arena, and the flat reference model
 * (address -> area/offset, independent encoder/decoder, constraint
 * evaluator, own image of every word). The model never calls into ufw. */
#ifndef RT_COMMON_H
#define RT_COMMON_H

#include "common/vh.h"

#include <float.h>
#include <math.h>
#include <ufw/register-table.h>

#define RT_MAXAREAS 8 /* the seeded family has 1-3 areas, curated layouts up to 8 */
#define RT_MAXREGS 48
#define RT_MAXWORDS 64 /* per area */

enum { RT_CB_EVEN = 1, RT_CB_SMALL = 2 };

struct rt_area {
    uint32_t base, size;
    int readable, writeable, skipdef; /* flags */
    int custom;                       /* callback-backed */
    int has_write;                    /* custom areas may lack the write callback */
    int window;                       /* a reserved address window: no callbacks and no memory at all (register-less) */
    int noread;                       /* a callback-backed area without read callback (a device that can only be written) */
};

struct rt_reg {
    int type;
    uint32_t addr;
    int ck; /* RegisterValidatorType */
    RegisterValueU lo, hi;
    RegisterValueU def;
    int cbkind;
};

struct rt_desc {
    int nareas;
    struct rt_area area[RT_MAXAREAS + 1];
    int nregs;
    struct rt_reg reg[RT_MAXREGS + 1];
    int bigendian;
};

static const unsigned rt_tsize[] = { 1, 2, 4, 1, 2, 4, 2, 4, 0 }; /* words per RegisterType */
static const char *rt_tname[] = { "u16", "u32", "u64", "s16", "s32", "s64", "f32", "f64", "invalid" };
static const char *rt_ckname[] = { "none", "fail", "min", "max", "range", "callback" };

/* ---------------- reference codec (octet level) ---------------- */

static uint64_t
rt_bits(int type, RegisterValueU v)
{
    switch (type) {
    case REG_TYPE_UINT16: return v.u16;
    case REG_TYPE_UINT32: return v.u32;
    case REG_TYPE_UINT64: return v.u64;
    case REG_TYPE_SINT16: return (uint16_t)v.s16;
    case REG_TYPE_SINT32: return (uint32_t)v.s32;
    case REG_TYPE_SINT64: return (uint64_t)v.s64;
    case REG_TYPE_FLOAT32: { uint32_t u; memcpy(&u, &v.f32, 4); return u; }
    default: { uint64_t u; memcpy(&u, &v.f64, 8); return u; }
    }
}

static RegisterValueU
rt_from_bits(int type, uint64_t b)
{
    RegisterValueU v;
    memset(&v, 0, sizeof v);
    switch (type) {
    case REG_TYPE_UINT16: v.u16 = (uint16_t)b; break;
    case REG_TYPE_UINT32: v.u32 = (uint32_t)b; break;
    case REG_TYPE_UINT64: v.u64 = b; break;
    case REG_TYPE_SINT16: v.s16 = (int16_t)(uint16_t)b; break;
    case REG_TYPE_SINT32: v.s32 = (int32_t)(uint32_t)b; break;
    case REG_TYPE_SINT64: v.s64 = (int64_t)b; break;
    case REG_TYPE_FLOAT32: { uint32_t u = (uint32_t)b; memcpy(&v.f32, &u, 4); break; }
    default: memcpy(&v.f64, &b, 8); break;
    }
    return v;
}

/* value bits -> octets in table order */
static void
rt_encode(int type, int be, uint64_t bits, unsigned char *out)
{
    unsigned n = rt_tsize[type] * 2;
    for (unsigned i = 0; i < n; i++)
        out[i] = (unsigned char)(bits >> (8 * (be ? n - 1 - i : i)));
}

static uint64_t
rt_decode(int type, int be, const unsigned char *in)
{
    unsigned n = rt_tsize[type] * 2;
    uint64_t b = 0;
    for (unsigned i = 0; i < n; i++)
        b |= (uint64_t)in[i] << (8 * (be ? n - 1 - i : i));
    return b;
}

/* float encodings the table accepts: zero or normal */
static int
rt_bits_valid(int type, uint64_t b)
{
    if (type == REG_TYPE_FLOAT32) {
        unsigned e = (unsigned)(b >> 23) & 0xff;
        uint32_t m = (uint32_t)b & 0x7fffff;
        return e == 0 ? m == 0 : e != 0xff;
    }
    if (type == REG_TYPE_FLOAT64) {
        unsigned e = (unsigned)(b >> 52) & 0x7ff;
        uint64_t m = b & 0xfffffffffffffull;
        return e == 0 ? m == 0 : e != 0x7ff;
    }
    return 1;
}

static int
rt_cmp(int type, RegisterValueU a, RegisterValueU b)
{
    switch (type) {
    case REG_TYPE_UINT16: return (a.u16 > b.u16) - (a.u16 < b.u16);
    case REG_TYPE_UINT32: return (a.u32 > b.u32) - (a.u32 < b.u32);
    case REG_TYPE_UINT64: return (a.u64 > b.u64) - (a.u64 < b.u64);
    case REG_TYPE_SINT16: return (a.s16 > b.s16) - (a.s16 < b.s16);
    case REG_TYPE_SINT32: return (a.s32 > b.s32) - (a.s32 < b.s32);
    case REG_TYPE_SINT64: return (a.s64 > b.s64) - (a.s64 < b.s64);
    case REG_TYPE_FLOAT32: return (a.f32 > b.f32) - (a.f32 < b.f32);
    default: return (a.f64 > b.f64) - (a.f64 < b.f64);
    }
}

static int
rt_cb_pred(int type, int kind, RegisterValueU v)
{
    if (kind == RT_CB_EVEN)
        return (rt_bits(type, v) & 1u) == 0;
    if (type == REG_TYPE_FLOAT32)
        return fabsf(v.f32) <= 100.0f;
    if (type == REG_TYPE_FLOAT64)
        return fabs(v.f64) <= 100.0;
    return 1;
}

/* does value v (already of the register's type, decodable) satisfy the constraint? */
static int
rt_satisfies(const struct rt_reg *r, RegisterValueU v, int during_init)
{
    switch (r->ck) {
    case REGV_TYPE_TRIVIAL: return 1;
    case REGV_TYPE_FAIL: return during_init;
    case REGV_TYPE_MIN: return rt_cmp(r->type, v, r->lo) >= 0;
    case REGV_TYPE_MAX: return rt_cmp(r->type, v, r->hi) <= 0;
    case REGV_TYPE_RANGE: return rt_cmp(r->type, v, r->lo) >= 0 && rt_cmp(r->type, v, r->hi) <= 0;
    default: return rt_cb_pred(r->type, r->cbkind, v);
    }
}

/* ---------------- flat address space ---------------- */

static int
rt_area_of(const struct rt_desc *d, uint32_t addr)
{
    for (int i = 0; i < d->nareas; i++)
        if (addr >= d->area[i].base && addr - d->area[i].base < d->area[i].size)
            return i;
    return -1;
}

static int
rt_area_writable(const struct rt_area *a)
{
    return a->writeable && (!a->custom || a->has_write);
}

static int
rt_area_loads_defaults(const struct rt_area *a)
{
    return (!a->custom || a->has_write) && !a->skipdef;
}

/* ---------------- instantiation ---------------- */

struct rt_inst {
    struct rt_desc d;
    RegisterTable t;
    RegisterArea *areas;
    RegisterEntry *entries;
    RegisterAtom *store[RT_MAXAREAS]; /* real storage (area->mem or the harness' array behind the callbacks) */
    unsigned char model[RT_MAXAREAS][2 * RT_MAXWORDS];
    int touched[RT_MAXREGS];
    /* callback-area access log */
    unsigned cb_reads, cb_writes;
    int cb_out_of_range;
};

static struct rt_inst *rt_cur;
/* optional: writes through the callback of area rt_cb_fail_area that cover word rt_cb_fail_word fail with this code */
static int rt_cb_fail_area = -1, rt_cb_fail_code;
static uint32_t rt_cb_fail_word;
static unsigned rt_cb_fail_hits;
/* the same for reads: reads through the callback of area rt_cb_rfail_area that cover word rt_cb_rfail_word fail */
static int rt_cb_rfail_area = -1, rt_cb_rfail_code;
static uint32_t rt_cb_rfail_word;
static unsigned rt_cb_rfail_hits;
/* a device that only serves reads inside one window of an area (the words next to it are unimplemented, or have read
 * side effects): rt_cb_rwin_area >= 0 makes every read of that area that reaches outside [lo, hi) fail */
static int rt_cb_rwin_area = -1;
static uint32_t rt_cb_rwin_lo, rt_cb_rwin_hi;
static unsigned rt_cb_rwin_hits;

/* A device callback may use the register API itself (counting accesses in another table, say) before it looks at
 * the words it was handed: a tiny memory-backed table of the harness' own, with one u32 counter that every
 * callback reads, increments and writes back through the typed API. What the library holds for the outer call must
 * survive that. */
static RegisterAtom rt_nest_mem[4];
static RegisterArea rt_nest_areas[2];
static RegisterEntry rt_nest_entries[3];
static RegisterTable rt_nest_table;
static int rt_nest_state; /* 0: not built, 1: ready, -1: unusable */
static uint32_t rt_nest_count;
static int rt_nest_failed;

static void
rt_nest_access(void)
{
    if (rt_nest_state == 0) {
        memset(rt_nest_areas, 0, sizeof rt_nest_areas);
        memset(rt_nest_entries, 0, sizeof rt_nest_entries);
        rt_nest_areas[0].read = reg_mem_read;
        rt_nest_areas[0].write = reg_mem_write;
        rt_nest_areas[0].flags = REG_AF_RW;
        rt_nest_areas[0].base = 0x40;
        rt_nest_areas[0].size = 4;
        rt_nest_areas[0].mem = rt_nest_mem;
        rt_nest_entries[0].type = REG_TYPE_UINT32;
        rt_nest_entries[0].address = 0x40;
        rt_nest_entries[1].type = REG_TYPE_UINT16;
        rt_nest_entries[1].address = 0x43;
        rt_nest_entries[2].type = REG_TYPE_INVALID;
        rt_nest_table.area = rt_nest_areas;
        rt_nest_table.entry = rt_nest_entries;
        rt_nest_table.flags = 0;
        rt_nest_state = register_init(&rt_nest_table).code == REG_INIT_SUCCESS ? 1 : -1;
        rt_nest_count = 0;
    }
    if (rt_nest_state != 1)
        return;
    RegisterValue v;
    RegisterAccess g = register_get(&rt_nest_table, 0, &v);
    if (g.code != REG_ACCESS_SUCCESS || v.value.u32 != rt_nest_count)
        rt_nest_failed = 1;
    v.type = REG_TYPE_UINT32;
    v.value.u32 = ++rt_nest_count;
    if (register_set(&rt_nest_table, 0, v).code != REG_ACCESS_SUCCESS)
        rt_nest_failed = 1;
    RegisterAtom w[2];
    if (register_block_read(&rt_nest_table, 0x40, 2, w).code != REG_ACCESS_SUCCESS)
        rt_nest_failed = 1;
}

static RegisterAccess
rt_cb_read(const RegisterArea *a, RegisterAtom *dst, RegisterOffset off, RegisterOffset n)
{
    RegisterAccess rv = REG_ACCESS_RESULT_INIT;
    int idx = (int)(a - rt_cur->areas);
    rt_cur->cb_reads++;
    if (idx < 0 || idx >= rt_cur->d.nareas || (uint64_t)off + n > rt_cur->d.area[idx].size) {
        rt_cur->cb_out_of_range = 1;
        rv.code = REG_ACCESS_IO_ERROR;
        return rv;
    }
    rt_nest_access();
    if (rt_cb_rwin_area == idx && (off < rt_cb_rwin_lo || (uint64_t)off + n > rt_cb_rwin_hi)) {
        rv.code = REG_ACCESS_IO_ERROR;
        rv.address = a->base + off;
        rt_cb_rwin_hits++;
        return rv;
    }
    if (rt_cb_rfail_area == idx && rt_cb_rfail_word >= off && rt_cb_rfail_word < off + n) {
        /* a device cell that cannot be read */
        rv.code = (RegisterAccessCode)rt_cb_rfail_code;
        rv.address = a->base + rt_cb_rfail_word;
        rt_cb_rfail_hits++;
        return rv;
    }
    if (a->mem != NULL)
        memset(a->mem, 0x7e, sizeof(RegisterAtom) * a->size); /* the driver's bounce buffer */
    memcpy(dst, rt_cur->store[idx] + off, n * sizeof(RegisterAtom));
    return rv;
}

/* optional: what the device driver does on its own account when it is written (one-shot; a harness sets it) */
static void (*rt_cb_write_hook)(void);

static RegisterAccess
rt_cb_write(RegisterArea *a, const RegisterAtom *src, RegisterOffset off, RegisterOffset n)
{
    RegisterAccess rv = REG_ACCESS_RESULT_INIT;
    int idx = (int)(a - rt_cur->areas);
    if (rt_cb_write_hook) {
        void (*fn)(void) = rt_cb_write_hook;
        rt_cb_write_hook = NULL;
        fn();
    }
    rt_cur->cb_writes++;
    if (idx < 0 || idx >= rt_cur->d.nareas || (uint64_t)off + n > rt_cur->d.area[idx].size) {
        rt_cur->cb_out_of_range = 1;
        rv.code = REG_ACCESS_IO_ERROR;
        return rv;
    }
    rt_nest_access();
    if (rt_cb_fail_area == idx && rt_cb_fail_word >= off && rt_cb_fail_word < off + n) {
        /* a device cell that cannot be programmed */
        rv.code = (RegisterAccessCode)rt_cb_fail_code;
        rv.address = a->base + rt_cb_fail_word;
        rt_cb_fail_hits++;
        return rv;
    }
    if (a->mem != NULL)
        memset(a->mem, 0x7e, sizeof(RegisterAtom) * a->size);
    memcpy(rt_cur->store[idx] + off, src, n * sizeof(RegisterAtom));
    return rv;
}

/* what the validator callback was last asked about, and whether it was ever handed something that cannot be right
 * (an entry that is not one of this table's callback-constrained registers, a value of another type) */
static int rt_val_last_idx = -1, rt_val_bad;
static uint64_t rt_val_last_bits;
static unsigned rt_val_calls;
static int rt_val_peeking;

static const char *rt_describe(const struct rt_desc *d);

static bool
rt_validator(const RegisterEntry *e, RegisterValue v)
{
    int kind = (int)(intptr_t)e->user;
    rt_val_calls++;
    if (rt_cur) {
        long idx = e - rt_cur->entries;
        if (idx < 0 || idx >= rt_cur->d.nregs || rt_cur->d.reg[idx].ck != REGV_TYPE_CALLBACK || (int)v.type != rt_cur->d.reg[idx].type
            || kind != rt_cur->d.reg[idx].cbkind)
            rt_val_bad = 1;
        rt_val_last_idx = (int)idx;
        rt_val_last_bits = rt_bits((int)v.type, v.value);
        /* a validator may depend on other registers ("not below the current value of the register in front of
         * me"); this one only looks: the register in front of its own, when that lies in plain memory, through
         * register_get on the same table. Registers are linked and loaded in ascending order, so this works from
         * the first moment a validator can be called - also while register_init() is loading defaults - and the
         * answer is never "table not initialised". The verdict does not depend on what it sees. */
        if (idx >= 1 && idx < rt_cur->d.nregs && rt_val_bad == 0 && !rt_val_peeking) {
            const struct rt_reg *pr = &rt_cur->d.reg[idx - 1];
            int pa = rt_area_of(&rt_cur->d, pr->addr);
            if (pa >= 0 && !rt_cur->d.area[pa].custom && rt_cur->d.area[pa].readable && rt_cur->entries[idx - 1].area != NULL) {
                RegisterValue pv;
                rt_val_peeking = 1;
                RegisterAccess ra = register_get(&rt_cur->t, (RegisterHandle)(idx - 1), &pv);
                rt_val_peeking = 0;
                VH_COUNT("validator looks at the register in front of its own");
                if (ra.code == REG_ACCESS_UNINITIALISED)
                    vh_fail("validator-sees-uninitialised-table", "monitor=validator",
                            "table{%.150s}: validator of register %ld: register_get(%ld) on the same table answers 'uninitialised'",
                            rt_describe(&rt_cur->d), idx, idx - 1);
            }
        }
    }
    return rt_cb_pred((int)v.type, kind, v.value) != 0;
}

/* An entry written with the front-end macros of register-table.h (REG_U16RANGE(...), ...) instead of field by
 * field. The macros are array initialisers: a one-element array each, copied out. */
#define RT_VIA_MACROS_TYPE(T, ENUM, M)                                                                     \
    case ENUM:                                                                                             \
        switch (r->ck) {                                                                                   \
        case REGV_TYPE_TRIVIAL: { RegisterEntry t_[1] = { REG_##T(0, r->addr, r->def.M) }; *e = t_[0]; } break;                      \
        case REGV_TYPE_FAIL: { RegisterEntry t_[1] = { REG_##T##FAIL(0, r->addr, r->def.M) }; *e = t_[0]; } break;                   \
        case REGV_TYPE_MIN: { RegisterEntry t_[1] = { REG_##T##MIN(0, r->addr, r->lo.M, r->def.M) }; *e = t_[0]; } break;            \
        case REGV_TYPE_MAX: { RegisterEntry t_[1] = { REG_##T##MAX(0, r->addr, r->hi.M, r->def.M) }; *e = t_[0]; } break;            \
        case REGV_TYPE_RANGE: { RegisterEntry t_[1] = { REG_##T##RANGE(0, r->addr, r->lo.M, r->hi.M, r->def.M) }; *e = t_[0]; } break; \
        default: { RegisterEntry t_[1] = { REGx_##T##FNC(0, r->addr, rt_validator, r->def.M, (void *)(intptr_t)r->cbkind) }; *e = t_[0]; } break; \
        }                                                                                                  \
        break;


static void
rt_entry_via_macros(RegisterEntry *e, const struct rt_reg *r)
{
    switch (r->type) {
        RT_VIA_MACROS_TYPE(U16, REG_TYPE_UINT16, u16)
        RT_VIA_MACROS_TYPE(U32, REG_TYPE_UINT32, u32)
        RT_VIA_MACROS_TYPE(U64, REG_TYPE_UINT64, u64)
        RT_VIA_MACROS_TYPE(S16, REG_TYPE_SINT16, s16)
        RT_VIA_MACROS_TYPE(S32, REG_TYPE_SINT32, s32)
        RT_VIA_MACROS_TYPE(S64, REG_TYPE_SINT64, s64)
        RT_VIA_MACROS_TYPE(F32, REG_TYPE_FLOAT32, f32)
        RT_VIA_MACROS_TYPE(F64, REG_TYPE_FLOAT64, f64)
    default: break;
    }
}

static unsigned rt_build_toggle; /* every second table is written with the header's macros */
static int rt_build_mode = -1;   /* -1: alternate; 0 / 1: a harness decides (field by field / macros) */

/* build the real table description in the arena (exact-size arrays incl. sentinels) */
static void
rt_build(struct rt_inst *in, const struct rt_desc *d)
{
    const int via_macros = rt_build_mode >= 0 ? rt_build_mode : (int)((rt_build_toggle++ + vh_unit_salt) & 1u);
    memset(in, 0, sizeof *in);
    in->d = *d;
    in->areas = vh_arena(sizeof(RegisterArea) * (size_t)(d->nareas + 1));
    in->entries = vh_arena(sizeof(RegisterEntry) * (size_t)(d->nregs + 1));
    memset(in->areas, 0, sizeof(RegisterArea) * (size_t)(d->nareas + 1));
    memset(in->entries, 0, sizeof(RegisterEntry) * (size_t)(d->nregs + 1));
    for (int i = 0; i < d->nareas; i++) {
        const struct rt_area *a = &d->area[i];
        RegisterArea *ra = &in->areas[i];
        in->store[i] = vh_arena(sizeof(RegisterAtom) * a->size);
        memset(in->store[i], 0xCD, sizeof(RegisterAtom) * a->size);
        ra->base = a->base;
        ra->size = a->size;
        ra->flags = (uint16_t)((a->readable ? REG_AF_READABLE : 0) | (a->writeable ? REG_AF_WRITEABLE : 0)
                               | (a->skipdef ? REG_AF_SKIP_DEFAULTS : 0));
        if (via_macros) {
            if (a->custom) {
                const RegisterArea t = MAKE_CUSTOM_AREA(a->window || a->noread ? NULL : rt_cb_read, a->has_write ? rt_cb_write : NULL, a->base, a->size, ra->flags);
                *ra = t;
            } else {
                /* the macro carries its own storage of constant size; the harness' poisoned block replaces it */
                const RegisterArea t = MAKE_MEMORY_AREA(a->base, 1, ra->flags);
                *ra = t;
                ra->size = a->size;
                ra->mem = in->store[i];
            }
        } else if (a->custom) {
            ra->read = a->window || a->noread ? NULL : rt_cb_read;
            ra->write = a->has_write ? rt_cb_write : NULL;
            ra->mem = NULL;
            /* every second callback-backed area written field by field carries a memory pointer of its own as well
             * (a bounce buffer the driver scribbles over in its callbacks): the words of such an area are what the
             * callbacks say, never what that memory holds */
            if (!a->window && ((rt_build_toggle + (unsigned)i + vh_unit_salt / 2) & 1u)) {
                ra->mem = vh_arena(sizeof(RegisterAtom) * a->size);
                memset(ra->mem, 0x7e, sizeof(RegisterAtom) * a->size);
                VH_COUNT("callback-backed area with a memory pointer of its own");
            }
        } else {
            ra->read = reg_mem_read;
            ra->write = reg_mem_write;
            ra->mem = in->store[i];
        }
    }
    /* what initialisation has to compute must not depend on what was there before: the links of areas and
     * entries hold leftovers in every third table written field by field (as when a description is rebuilt in
     * place, or lives in memory nobody zeroed) */
    const int leftovers = !via_macros && ((rt_build_toggle + vh_unit_salt / 2) % 3u == 0);
    if (leftovers) {
        for (int i = 0; i < d->nareas; i++) {
            in->areas[i].entry.first = (RegisterHandle)(0xa5a50000u + (unsigned)i);
            in->areas[i].entry.last = (RegisterHandle)(0x5a5a0000u + (unsigned)i);
            in->areas[i].entry.count = (RegisterHandle)(7u + (unsigned)i);
        }
    }
    for (int i = 0; i < d->nregs; i++) {
        const struct rt_reg *r = &d->reg[i];
        RegisterEntry *e = &in->entries[i];
        if (leftovers) {
            e->area = &in->areas[d->nareas]; /* the sentinel: nobody's area */
            e->offset = 0xdeadu; /* (the touched marks are not initialisation's to reset: no statement says so) */
        }
        if (via_macros) {
            rt_entry_via_macros(e, r);
            continue;
        }
        e->type = (RegisterType)r->type;
        e->default_value = r->def;
        e->address = r->addr;
        e->check.type = (RegisterValidatorType)r->ck;
        switch (r->ck) {
        case REGV_TYPE_MIN: e->check.arg.min = r->lo; break;
        case REGV_TYPE_MAX: e->check.arg.max = r->hi; break;
        case REGV_TYPE_RANGE:
            e->check.arg.range.min = r->lo;
            e->check.arg.range.max = r->hi;
            break;
        case REGV_TYPE_CALLBACK:
            e->check.arg.cb = rt_validator;
            e->user = (void *)(intptr_t)r->cbkind;
            break;
        default: break;
        }
    }
    in->entries[d->nregs].type = REG_TYPE_INVALID;
    in->t.area = in->areas;
    in->t.entry = in->entries;
    in->t.flags = 0;
    if (d->bigendian)
        register_make_bigendian(&in->t, true);
    rt_cur = in;
}

/* model of a successful initialisation: zero everything, load defaults */
static void
rt_model_init(struct rt_inst *in)
{
    const struct rt_desc *d = &in->d;
    for (int i = 0; i < d->nareas; i++)
        /* memory-backed areas are cleared; callback-backed storage keeps what the harness put there */
        memset(in->model[i], d->area[i].custom ? 0xCD : 0, 2 * d->area[i].size);
    for (int i = 0; i < d->nregs; i++) {
        int ai = rt_area_of(d, d->reg[i].addr);
        if (ai < 0)
            continue;
        if (rt_area_loads_defaults(&d->area[ai]))
            rt_encode(d->reg[i].type, d->bigendian, rt_bits(d->reg[i].type, d->reg[i].def),
                      in->model[ai] + 2 * (d->reg[i].addr - d->area[ai].base));
        in->touched[i] = 0;
    }
}

/* compare the real storage of all areas with the model image */
static int
rt_compare_storage(struct rt_inst *in, const char *check, const char *key, const char *ctx)
{
    int ok = 1;
    for (int i = 0; i < in->d.nareas; i++) {
        size_t n = 2 * (size_t)in->d.area[i].size;
        if (memcmp(in->store[i], in->model[i], n) != 0) {
            vh_fail(check, key, "%s: area %d (base %u) holds %s, model %s", ctx, i, in->d.area[i].base,
                    vh_hex(in->store[i], n), vh_hex(in->model[i], n));
            ok = 0;
        }
    }
    if (in->cb_out_of_range) {
        vh_fail("callback-out-of-range", key, "%s: an area callback was asked for words outside its area", ctx);
        in->cb_out_of_range = 0;
        ok = 0;
    }
    if (rt_val_bad) {
        vh_fail("validator-arguments", key, "%s: the validator callback was handed an entry that is not a callback-constrained register of "
                "this table, or a value of another type (last: entry %d)", ctx, rt_val_last_idx);
        rt_val_bad = 0;
        ok = 0;
    }
    if (rt_nest_failed) {
        vh_fail("nested-access", key, "%s: typed accesses made from inside an area callback (on a table of their own) went wrong", ctx);
        rt_nest_failed = 0;
        ok = 0;
    }
    return ok;
}

static void
rt_sync_model_from_storage(struct rt_inst *in)
{
    for (int i = 0; i < in->d.nareas; i++)
        memcpy(in->model[i], in->store[i], 2 * (size_t)in->d.area[i].size);
}

/* model word access through the flat address space */
static unsigned char *
rt_model_word(struct rt_inst *in, uint32_t addr)
{
    int ai = rt_area_of(&in->d, addr);
    if (ai < 0)
        return NULL;
    return in->model[ai] + 2 * (addr - in->d.area[ai].base);
}

/* current model content of register i as bits; returns validity of the encoding */
static int
rt_model_reg(struct rt_inst *in, int i, uint64_t *bits)
{
    const struct rt_reg *r = &in->d.reg[i];
    unsigned char *p = rt_model_word(in, r->addr);
    *bits = rt_decode(r->type, in->d.bigendian, p);
    return rt_bits_valid(r->type, *bits);
}

/* ---------------- generator ---------------- */

static RegisterValueU
rt_pick_value(vh_rng *r, int type)
{
    static const uint64_t ints[] = { 0, 1, 2, 0x7f, 0x80, 0xff, 0x100, 0x7fff, 0x8000, 0xffff, 0x10000, 0x12345678,
                                     0x7fffffff, 0x80000000ull, 0xffffffffull, 0x100000000ull, 0x0123456789abcdefull,
                                     0x7fffffffffffffffull, 0x8000000000000000ull, 0xffffffffffffffffull,
                                     0xfffffffffffffffeull, 0xffff0000ull, 0x0000ffff00000000ull };
    static const double flts[] = { 0.0, -0.0, 1.5, -1.5, 100.0, -100.0, 100.5, 1e3, -1e3, 3.0e38, -3.0e38, 1e-30, 0.25 };
    RegisterValueU v;
    memset(&v, 0, sizeof v);
    /* the ends of the normal range in both signs take turns with the picks from the table (no extra draws) */
    static unsigned ext;
    if (type == REG_TYPE_FLOAT32) {
        static const float ends32[] = { FLT_MIN, -FLT_MIN, FLT_MAX, -FLT_MAX };
        size_t k = (size_t)vh_below(r, sizeof flts / sizeof flts[0]);
        v.f32 = (float)flts[k];
        if (k >= 9 && k <= 11 && (ext++ & 1u))
            v.f32 = ends32[(ext / 2) % 4];
    } else if (type == REG_TYPE_FLOAT64) {
        static const double ends64[] = { 1e300, DBL_MIN, -DBL_MIN, DBL_MAX, -DBL_MAX, -1e300 };
        v.f64 = flts[vh_below(r, sizeof flts / sizeof flts[0])];
        if (vh_chance(r, 1, 6))
            v.f64 = ends64[ext++ % 6];
    } else {
        uint64_t b = vh_chance(r, 3, 4) ? ints[vh_below(r, sizeof ints / sizeof ints[0])] : vh_rand(r);
        if (vh_chance(r, 1, 5))
            b = 0 - b;
        v = rt_from_bits(type, b);
    }
    return v;
}

/* value next to v in the type's order (delta = +1/-1), saturating */
static RegisterValueU
rt_neighbour(int type, RegisterValueU v, int delta)
{
    RegisterValueU o = v;
    switch (type) {
    case REG_TYPE_UINT16: if (delta > 0 ? v.u16 != UINT16_MAX : v.u16 != 0) o.u16 = (uint16_t)(v.u16 + delta); break;
    case REG_TYPE_UINT32: if (delta > 0 ? v.u32 != UINT32_MAX : v.u32 != 0) o.u32 = v.u32 + (uint32_t)delta; break;
    case REG_TYPE_UINT64: if (delta > 0 ? v.u64 != UINT64_MAX : v.u64 != 0) o.u64 = v.u64 + (uint64_t)(int64_t)delta; break;
    case REG_TYPE_SINT16: if (delta > 0 ? v.s16 != INT16_MAX : v.s16 != INT16_MIN) o.s16 = (int16_t)(v.s16 + delta); break;
    case REG_TYPE_SINT32: if (delta > 0 ? v.s32 != INT32_MAX : v.s32 != INT32_MIN) o.s32 = v.s32 + delta; break;
    case REG_TYPE_SINT64: if (delta > 0 ? v.s64 != INT64_MAX : v.s64 != INT64_MIN) o.s64 = v.s64 + delta; break;
    case REG_TYPE_FLOAT32: o.f32 = nextafterf(v.f32, delta > 0 ? INFINITY : -INFINITY); break;
    default: o.f64 = nextafter(v.f64, delta > 0 ? INFINITY : -INFINITY); break;
    }
    return o;
}

static void
rt_gen_constraint(vh_rng *r, struct rt_reg *g, int allow_fail)
{
    static const int kinds[] = { REGV_TYPE_TRIVIAL, REGV_TYPE_TRIVIAL, REGV_TYPE_MIN, REGV_TYPE_MAX, REGV_TYPE_RANGE,
                                 REGV_TYPE_RANGE, REGV_TYPE_CALLBACK, REGV_TYPE_FAIL };
    g->ck = kinds[vh_below(r, allow_fail ? 8 : 7)];
    g->lo = rt_pick_value(r, g->type);
    g->hi = rt_pick_value(r, g->type);
    if (rt_cmp(g->type, g->lo, g->hi) > 0) {
        RegisterValueU t = g->lo;
        g->lo = g->hi;
        g->hi = t;
    }
    g->cbkind = (g->type == REG_TYPE_FLOAT32 || g->type == REG_TYPE_FLOAT64) ? RT_CB_SMALL : RT_CB_EVEN;
    /* a default that satisfies the constraint */
    switch (g->ck) {
    case REGV_TYPE_MIN: g->def = vh_chance(r, 1, 2) ? g->lo : rt_neighbour(g->type, g->lo, +1); break;
    case REGV_TYPE_MAX: g->def = vh_chance(r, 1, 2) ? g->hi : rt_neighbour(g->type, g->hi, -1); break;
    case REGV_TYPE_RANGE: g->def = vh_chance(r, 1, 2) ? g->lo : g->hi; break;
    case REGV_TYPE_CALLBACK:
        g->def = rt_pick_value(r, g->type);
        if (g->cbkind == RT_CB_EVEN)
            g->def = rt_from_bits(g->type, rt_bits(g->type, g->def) & ~1ull);
        else if (!rt_cb_pred(g->type, g->cbkind, g->def))
            g->def = rt_from_bits(g->type, 0);
        break;
    default: g->def = rt_pick_value(r, g->type); break;
    }
    if (!rt_bits_valid(g->type, rt_bits(g->type, g->def)))
        g->def = rt_from_bits(g->type, 0);
}

static int
rt_type_for_size(vh_rng *r, unsigned words)
{
    static const int t1[] = { REG_TYPE_UINT16, REG_TYPE_SINT16 };
    static const int t2[] = { REG_TYPE_UINT32, REG_TYPE_SINT32, REG_TYPE_FLOAT32 };
    static const int t4[] = { REG_TYPE_UINT64, REG_TYPE_SINT64, REG_TYPE_FLOAT64 };
    if (words == 1)
        return t1[vh_below(r, 2)];
    if (words == 2)
        return t2[vh_below(r, 3)];
    return t4[vh_below(r, 3)];
}

/* a well-formed table from the small-scope family */
static void
rt_gen_wellformed(vh_rng *r, struct rt_desc *d, int allow_fail)
{
    /* incl. 16/31/32-bit boundaries of the address arithmetic; the last one leaves room for three areas and
     * their gaps below 2^32 */
    static const uint32_t bases[] = { 0, 1, 5, 0x100, 0x7ffe, 0xfff8, 0x7ffffff0u, 0xffffff00u };
    static const uint32_t gaps[] = { 0, 0, 1, 3 };
    memset(d, 0, sizeof *d);
    d->nareas = 1 + (int)vh_below(r, 3);
    d->bigendian = (int)vh_below(r, 2);
    uint32_t cursor = bases[vh_below(r, 8)];
    /* one table in six has one long area densely packed with registers (more than 16, 17, 32 of them in one
     * area: whatever look-up strategy the library uses for long runs gets exercised) */
    const int large = vh_chance(r, 1, 6) ? (int)vh_below(r, (uint64_t)d->nareas) : -1;
    /* one table in four has an area that is left without registers on purpose (it happens by chance too, but
     * rarely behind a populated area that it touches); two times in three such an area directly follows its
     * predecessor and both are plainly writable, so that block writes can run from registers into it */
    const int bare = vh_chance(r, 1, 4) ? (int)vh_below(r, (uint64_t)d->nareas) : -1;
    const int bare_joined = bare > 0 && vh_chance(r, 2, 3);
    uint32_t lastgap = 0;
    for (int i = 0; i < d->nareas; i++) {
        struct rt_area *a = &d->area[i];
        if (bare_joined && i == bare)
            cursor -= lastgap;
        a->base = cursor;
        a->size = i == large ? 18 + (uint32_t)vh_below(r, 31) : 1 + (uint32_t)vh_below(r, 8);
        unsigned f = (unsigned)vh_below(r, 20);
        a->readable = !(f == 0 || f == 1 || f == 7);      /* write-only; 7: neither flag */
        a->writeable = !(f == 2 || f == 3 || f == 4 || f == 7); /* read-only */
        a->skipdef = (f == 5 || f == 6);
        a->custom = vh_chance(r, 3, 10);
        a->has_write = a->custom ? !vh_chance(r, 1, 5) : 1;
        if (bare_joined && (i == bare || i == bare - 1)) {
            a->readable = a->writeable = 1;
            a->has_write = 1;
        }
        /* a register-less area may also be a mere reservation of addresses: no callbacks and no memory (it
         * reads back zeroes and cannot be written); every flag combination occurs with it */
        if (i == bare && i != large && f % 3 == 0) {
            a->window = 1;
            a->custom = 1;
            a->has_write = 0;
        }
        /* ... or have no words at all: an area of size zero maps no address, yet it is an element of the list.
         * Such an area is always plainly accessible here (both flags, callbacks or memory present): whether a block
         * that spans the seam it sits on "touches" it is not stated anywhere, the library's read-only scan says it
         * does, so a zero-sized read-only area would make the verdict on such a block a matter of reading */
        if (i == bare && i != large && f % 5 == 1) {
            a->size = 0;
            a->window = 0;
            a->readable = a->writeable = 1;
            a->has_write = 1;
        }
        lastgap = gaps[vh_below(r, 4)];
        cursor += a->size + lastgap;
    }
    for (int i = 0; i < d->nareas && d->nregs < RT_MAXREGS - 2; i++) {
        const struct rt_area *a = &d->area[i];
        uint32_t p = a->base;
        if (i == bare && i != large)
            continue;
        while (p < a->base + a->size && d->nregs < RT_MAXREGS - 2) {
            uint32_t room = a->base + a->size - p;
            unsigned x = (unsigned)vh_below(r, i == large ? 30 : 10);
            unsigned words = x < 3 ? 0 : x < 6 ? 1 : x < 8 ? 2 : x < 10 ? 4 : 1;
            if (words == 0 || words > room) {
                p++;
                continue;
            }
            struct rt_reg *g = &d->reg[d->nregs++];
            memset(g, 0, sizeof *g);
            g->type = rt_type_for_size(r, words);
            g->addr = p;
            rt_gen_constraint(r, g, allow_fail);
            p += words;
        }
    }
}

/* Curated layouts: structural corners that the seeded family reaches only now and then - a register-less area
 * directly behind, in front of and between populated ones, a long densely packed area next to a register-less
 * one, everything adjacent. Registers are filled from the generator (types by size, constraints, defaults).
 * Returns 0 when k is past the list. */
#define RT_NCURATED 30
static int
rt_gen_curated(vh_rng *r, unsigned k, struct rt_desc *d, int allow_fail)
{
    /* per layout: area sizes (0 ends), which areas stay bare (bit mask), custom mask, big-endian */
    static const struct {
        uint32_t base;
        uint32_t size[8];
        unsigned bare, custom, be, nowrite, window, zero;
    } L[RT_NCURATED / 2] = {
        { 0, { 4, 4, 0 }, 2u, 0u, 0 },         /* populated, bare */
        { 0x100, { 3, 5, 0 }, 1u, 0u, 1 },     /* bare, populated */
        { 5, { 4, 2, 4 }, 2u, 0u, 0 },         /* populated, bare, populated */
        { 0xfff8, { 6, 3, 0 }, 2u, 3u, 1 },    /* callback-backed, across the 16-bit boundary */
        { 0, { 40, 4, 0 }, 2u, 0u, 0 },        /* long dense area, bare */
        { 0xffffff00u, { 5, 30, 3 }, 1u, 2u, 0 }, /* bare, long dense callback area, populated: top of the address space */
        { 0x100, { 6, 6, 0 }, 0u, 2u, 0, 2u },    /* memory area, callback area without write callback (sanitise cannot repair it) */
        { 0x7ffe, { 5, 4, 5 }, 0u, 5u, 1, 4u },   /* callback, memory, callback-without-write; across the 15-bit boundary */
        { 0, { 16, 5, 0 }, 1u, 1u, 0, 1u, 1u },   /* a reserved window (no callbacks, no memory) at address 0, populated */
        { 1, { 3, 2, 6 }, 2u, 2u, 1, 2u, 2u },    /* populated, reserved window, populated */
        { 0, { 4, 1, 4 }, 2u, 0u, 0, 0u, 0u, 2u }, /* populated, an area of size zero, populated: all at one seam */
        { 0x100, { 1, 6, 1 }, 5u, 1u, 1, 0u, 0u, 5u }, /* zero-sized areas in front of and behind a populated one */
        { 0x10, { 2, 3, 2, 4 }, 0u, 0x5u, 0 },             /* four areas (whatever look-up the library uses over its area list) */
        { 0x7ffa, { 2, 3, 2, 4, 3 }, 0u, 0xau, 1 },        /* five areas across the 15-bit boundary */
        { 0xfff0, { 1, 2, 1, 3, 2, 2, 1, 4 }, 0x24u, 0x92u, 0 } /* eight areas, two of them register-less */
    };
    if (k >= RT_NCURATED)
        return 0;
    const unsigned li = k / 2;
    memset(d, 0, sizeof *d);
    d->bigendian = (int)(L[li].be ^ (k & 1));
    uint32_t cursor = L[li].base;
    for (int i = 0; i < 8 && L[li].size[i]; i++) {
        struct rt_area *a = &d->area[d->nareas++];
        a->base = cursor;
        a->size = L[li].size[i];
        a->readable = a->writeable = 1;
        a->custom = (int)((L[li].custom >> i) & 1u);
        a->has_write = !((L[li].nowrite >> i) & 1u);
        a->window = (int)((L[li].window >> i) & 1u);
        if ((L[li].zero >> i) & 1u)
            a->size = 0;
        cursor += a->size;
    }
    for (int i = 0; i < d->nareas && d->nregs < RT_MAXREGS - 2; i++) {
        if ((L[li].bare >> i) & 1u)
            continue;
        const struct rt_area *a = &d->area[i];
        uint32_t p = a->base;
        while (p < a->base + a->size && d->nregs < RT_MAXREGS - 2) {
            /* sizes in a fixed rhythm (1,1,2,1,4 words, one word skipped now and then), so that every populated
             * area holds several registers; two registers in three are unconstrained, so that block writes
             * running over them can succeed */
            static const unsigned rhythm[] = { 1, 1, 2, 1, 4, 0, 2, 1 };
            uint32_t room = a->base + a->size - p;
            unsigned words = rhythm[(d->nregs + (p - a->base)) % 8];
            if (words > room)
                words = room >= 2 ? 2 : 1;
            if (words == 0) {
                p++;
                continue;
            }
            struct rt_reg *g = &d->reg[d->nregs++];
            memset(g, 0, sizeof *g);
            g->type = rt_type_for_size(r, words);
            g->addr = p;
            rt_gen_constraint(r, g, allow_fail && (k & 1));
            if ((L[li].nowrite >> i) & 1u) {
                /* constrained, so that out-of-band damage is something sanitise has to act on */
                if (g->ck == REGV_TYPE_TRIVIAL || g->ck == REGV_TYPE_FAIL) {
                    g->ck = REGV_TYPE_RANGE;
                    g->def = g->lo;
                }
            } else if (allow_fail && L[li].nowrite && d->nregs == 2) {
                g->ck = REGV_TYPE_FAIL; /* a write-once register in front of the area that cannot be repaired */
            } else if (d->nregs % 3 != 0) {
                g->ck = REGV_TYPE_TRIVIAL;
                g->def = rt_pick_value(r, g->type);
                if (!rt_bits_valid(g->type, rt_bits(g->type, g->def)))
                    g->def = rt_from_bits(g->type, 0);
            }
            p += words;
        }
    }
    return 1;
}

static const char *
rt_describe(const struct rt_desc *d)
{
    static char b[700];
    size_t o = 0;
    o += (size_t)snprintf(b + o, sizeof b - o, "%s areas:", d->bigendian ? "BE" : "LE");
    for (int i = 0; i < d->nareas && o < 600; i++)
        o += (size_t)snprintf(b + o, sizeof b - o, " [%u+%u %s%s%s%s]", d->area[i].base, d->area[i].size,
                              d->area[i].readable ? "r" : "-", d->area[i].writeable ? "w" : "-",
                              d->area[i].skipdef ? "S" : "", d->area[i].window ? " window" : d->area[i].noread ? " cb-noread" : d->area[i].custom ? (d->area[i].has_write ? " cb" : " cb-nowrite") : "");
    o += (size_t)snprintf(b + o, sizeof b - o, " regs:");
    for (int i = 0; i < d->nregs && o < 640; i++)
        o += (size_t)snprintf(b + o, sizeof b - o, " %s@%u/%s", rt_tname[d->reg[i].type], d->reg[i].addr,
                              rt_ckname[d->reg[i].ck]);
    return b;
}

#endif
