/* C04 - table initialisation accepts exactly the well-formed tables.
 *
 * Generated descriptions: well-formed tables of the small-scope family and
 * mutations of them (area order/overlap/adjacency, register order, overlap,
 * straddling, holes, duplicates, unacceptable defaults). Oracle: a rule
 * checker written here; the post-conditions of success and failure are
 * checked through the public API and the storage images. */
#include "rt_common.h"

const char *harness_name = "c04_init";

static struct rt_inst inst;

struct viol {
    int code;
    uint32_t idx;
};

static int
stage_of(int code)
{
    switch (code) {
    case REG_INIT_NO_AREAS: return 0;
    case REG_INIT_AREA_INVALID_ORDER:
    case REG_INIT_AREA_ADDRESS_OVERLAP: return 1;
    case REG_INIT_ENTRY_INVALID_ORDER:
    case REG_INIT_ENTRY_ADDRESS_OVERLAP: return 2;
    default: return 3;
    }
}

/* is register r wholly inside one area? returns the area index or -1 */
static int
wholly_inside(const struct rt_desc *d, const struct rt_reg *r)
{
    int ai = rt_area_of(d, r->addr);
    if (ai < 0)
        return -1;
    if ((uint64_t)r->addr + rt_tsize[r->type] > (uint64_t)d->area[ai].base + d->area[ai].size)
        return -1;
    return ai;
}

/* with overlapping areas "the" area of an address is the first one in table order, as for any flat lookup */
static int
collect(const struct rt_desc *d, struct viol *v)
{
    int n = 0;
    if (d->nareas == 0) {
        v[n++] = (struct viol){ REG_INIT_NO_AREAS, 0 };
        return n;
    }
    for (int i = 1; i < d->nareas; i++) {
        if (d->area[i].base < d->area[i - 1].base)
            v[n++] = (struct viol){ REG_INIT_AREA_INVALID_ORDER, (uint32_t)i };
        if ((uint64_t)d->area[i].base < (uint64_t)d->area[i - 1].base + d->area[i - 1].size)
            v[n++] = (struct viol){ REG_INIT_AREA_ADDRESS_OVERLAP, (uint32_t)i };
    }
    for (int i = 1; i < d->nregs; i++) {
        if (d->reg[i].addr < d->reg[i - 1].addr)
            v[n++] = (struct viol){ REG_INIT_ENTRY_INVALID_ORDER, (uint32_t)i };
        if ((uint64_t)d->reg[i].addr < (uint64_t)d->reg[i - 1].addr + rt_tsize[d->reg[i - 1].type])
            v[n++] = (struct viol){ REG_INIT_ENTRY_ADDRESS_OVERLAP, (uint32_t)i };
    }
    for (int i = 0; i < d->nregs; i++) {
        const struct rt_reg *r = &d->reg[i];
        int ai = wholly_inside(d, r);
        if (ai < 0) {
            v[n++] = (struct viol){ REG_INIT_ENTRY_IN_MEMORY_HOLE, (uint32_t)i };
            continue;
        }
        if (!rt_area_loads_defaults(&d->area[ai]))
            continue;
        uint64_t bits = rt_bits(r->type, r->def);
        if (!rt_bits_valid(r->type, bits) || !rt_satisfies(r, r->def, 1))
            v[n++] = (struct viol){ REG_INIT_ENTRY_INVALID_DEFAULT, (uint32_t)i };
    }
    return n;
}

static const char *codename[] = { "success", "table-invalid", "no-areas", "too-many-areas", "area-order",
                                  "area-overlap", "too-many-entries", "entry-order", "entry-overlap",
                                  "entry-in-hole", "entry-invalid-default" };

static int
cb_never(RegisterTable *t, RegisterHandle h, void *arg)
{
    (void)t;
    (void)h;
    *(int *)arg += 1;
    return 0;
}

static void
expect_uninitialised(const char *key, const char *ctx)
{
    RegisterValue v = { .type = REG_TYPE_UINT16, .value.u16 = 1 };
    RegisterAtom w[2] = { 0, 0 };
    int calls = 0;
    RegisterAccess r[8];
    static const char *what[] = { "register_set", "register_get", "register_bit_set", "register_bit_clear",
                                  "register_block_read", "register_block_write", "register_foreach_in",
                                  "register_sanitise" };
    r[0] = register_set(&inst.t, 0, v);
    r[1] = register_get(&inst.t, 0, &v);
    r[2] = register_bit_set(&inst.t, 0, v);
    r[3] = register_bit_clear(&inst.t, 0, v);
    r[4] = register_block_read(&inst.t, inst.d.nareas ? inst.d.area[0].base : 0, 1, w);
    r[5] = register_block_write(&inst.t, inst.d.nareas ? inst.d.area[0].base : 0, 1, w);
    r[6] = register_foreach_in(&inst.t, 0, REGISTER_ADDRESS_MAX, cb_never, &calls);
    r[7] = register_sanitise(&inst.t);
    for (int i = 0; i < 8; i++)
        if (r[i].code != REG_ACCESS_UNINITIALISED)
            vh_fail("not-reported-uninitialised", key, "%s: %s returned code=%d", ctx, what[i], r[i].code);
    /* whatever the type of the value handed in (also one the operation would refuse on a working table) and whatever
     * the handle: the table's state is what gets reported */
    for (int t = 0; t < 8; t++) {
        RegisterValue tv = { .type = (RegisterType)t, .value = rt_from_bits(t, 1) };
        static const RegisterHandle hs[] = { 0, 1, 1000, UINT32_MAX };
        RegisterHandle h = hs[(unsigned)t % 4];
        RegisterAccess q[4];
        q[0] = register_set(&inst.t, h, tv);
        q[1] = register_set_unsafe(&inst.t, h, tv);
        q[2] = register_bit_set(&inst.t, h, tv);
        q[3] = register_bit_clear(&inst.t, h, tv);
        static const char *qn[] = { "register_set", "register_set_unsafe", "register_bit_set", "register_bit_clear" };
        for (int i = 0; i < 4; i++)
            if (q[i].code != REG_ACCESS_UNINITIALISED)
                vh_fail("not-reported-uninitialised", key, "%s: %s(handle %u, value of type %s) returned code=%d", ctx, qn[i], h,
                        rt_tname[t], q[i].code);
    }
    if (calls)
        vh_fail("not-reported-uninitialised", key, "%s: iteration callback called %d times", ctx, calls);
}

static void
check_success(const char *ctx)
{
    const struct rt_desc *d = &inst.d;
    rt_model_init(&inst);
    /* storage: defaults where they are loaded, zero elsewhere in memory-backed areas */
    rt_compare_storage(&inst, "post-init-storage", "result=success", ctx);
    for (int i = 0; i < d->nregs; i++) {
        int ai = rt_area_of(d, d->reg[i].addr);
        if (!rt_area_loads_defaults(&d->area[ai]))
            continue;
        RegisterValue g;
        if (d->area[ai].noread) {
            /* nothing can be read back through the table (the storage comparison above has looked at the device
             * itself); asking is an error, not a crash */
            RegisterAccess na = register_get(&inst.t, (RegisterHandle)i, &g);
            if (na.code == REG_ACCESS_SUCCESS)
                vh_fail("unreadable-register-read", "result=success", "%s: register %d lies in an area without read callback, get reports success", ctx, i);
            VH_COUNT("register in a write-only device area");
            continue;
        }
        RegisterAccess a = register_get(&inst.t, (RegisterHandle)i, &g);
        if (a.code != REG_ACCESS_SUCCESS || (int)g.type != d->reg[i].type
            || rt_bits(d->reg[i].type, g.value) != rt_bits(d->reg[i].type, d->reg[i].def))
            vh_fail("default-not-read-back", "result=success", "%s: register %d get code=%d bits=%016" PRIx64, ctx, i,
                    a.code, rt_bits(d->reg[i].type, g.value));
        VH_COUNT("default read back");
    }
    /* initialisation is over: an always-fail register accepts nothing any more, not even its own default */
    for (int i = 0; i < d->nregs; i++) {
        if (d->reg[i].ck != REGV_TYPE_FAIL)
            continue;
        int ai = rt_area_of(d, d->reg[i].addr);
        RegisterValue v = { .type = (RegisterType)d->reg[i].type, .value = d->reg[i].def };
        RegisterAccess a = register_set(&inst.t, (RegisterHandle)i, v);
        if (a.code == REG_ACCESS_SUCCESS)
            vh_fail("always-fail-register-writable-after-init", "result=success", "%s: register %d (area %d) accepted a typed set", ctx, i, ai);
        VH_COUNT("always-fail register probed after initialisation");
    }
    /* area -> register run */
    if (inst.t.areas != d->nareas || inst.t.entries != (RegisterHandle)d->nregs)
        vh_fail("table-counts", "result=success", "%s: areas=%u entries=%u", ctx, inst.t.areas, inst.t.entries);
    for (int a = 0; a < d->nareas; a++) {
        int first = -1, last = -1, count = 0;
        for (int i = 0; i < d->nregs; i++)
            if (rt_area_of(d, d->reg[i].addr) == a) {
                if (first < 0)
                    first = i;
                last = i;
                count++;
            }
        const RegisterArea *ra = &inst.areas[a];
        if ((int)ra->entry.count != count
            || (count > 0 && ((int)ra->entry.first != first || (int)ra->entry.last != last)))
            vh_fail("area-register-run", "result=success", "%s: area %d records first=%u last=%u count=%u, model %d %d %d",
                    ctx, a, ra->entry.first, ra->entry.last, ra->entry.count, first, last, count);
        if (count == 0)
            VH_COUNT("area without registers");
        else
            VH_COUNT("area register run checked");
    }
    for (int i = 0; i < d->nregs; i++) {
        int ai = rt_area_of(d, d->reg[i].addr);
        if (inst.entries[i].area != &inst.areas[ai] || inst.entries[i].offset != d->reg[i].addr - d->area[ai].base)
            vh_fail("entry-link", "result=success", "%s: register %d linked to area %td offset %u", ctx, i,
                    inst.entries[i].area - inst.areas, inst.entries[i].offset);
    }
}

static void
mutate(vh_rng *rg, struct rt_desc *d)
{
    int nm = 1 + (int)vh_below(rg, 2);
    for (int m = 0; m < nm; m++) {
        unsigned k = (unsigned)vh_below(rg, 15);
        int ai = d->nareas > 1 ? 1 + (int)vh_below(rg, (uint64_t)d->nareas - 1) : 0;
        int ri = d->nregs > 1 ? 1 + (int)vh_below(rg, (uint64_t)d->nregs - 1) : 0;
        const struct rt_desc before = *d;
        switch (k) {
        case 0: d->nareas = 0; break;
        case 1:
            if (d->nareas > 1) {
                struct rt_area t = d->area[ai];
                d->area[ai] = d->area[ai - 1];
                d->area[ai - 1] = t;
            }
            break;
        case 2: if (d->nareas > 1) d->area[ai].base = d->area[ai - 1].base; break;
        case 3: if (d->nareas > 1) d->area[ai].base = d->area[ai - 1].base + d->area[ai - 1].size - 1; break;
        case 4: if (d->nareas > 1) d->area[ai].base = d->area[ai - 1].base + d->area[ai - 1].size; break; /* adjacency: fine */
        case 5:
            if (d->nregs > 0) { /* straddle the end of its area, or step into whatever follows */
                struct rt_reg *r = &d->reg[vh_below(rg, (uint64_t)d->nregs)];
                int a = rt_area_of(d, r->addr);
                if (a >= 0)
                    r->addr = d->area[a].base + d->area[a].size - (uint32_t)vh_below(rg, rt_tsize[r->type]);
            }
            break;
        case 6:
            if (d->nregs > 0) { /* somewhere around the areas: below, beyond, in a gap */
                struct rt_reg *r = &d->reg[vh_below(rg, (uint64_t)d->nregs)];
                uint32_t lo = d->nareas ? d->area[0].base : 0;
                uint32_t hi = d->nareas ? d->area[d->nareas - 1].base + d->area[d->nareas - 1].size : 4;
                r->addr = (lo >= 2 ? lo - 2 : 0) + (uint32_t)vh_below(rg, (uint64_t)hi - lo + 5);
            }
            break;
        case 7: if (d->nregs > 1) d->reg[ri].addr = d->reg[ri - 1].addr; break;
        case 8:
            if (d->nregs > 1) {
                struct rt_reg t = d->reg[ri];
                d->reg[ri] = d->reg[ri - 1];
                d->reg[ri - 1] = t;
            }
            break;
        case 9: if (d->nregs > 1) d->reg[ri].addr = d->reg[ri - 1].addr + rt_tsize[d->reg[ri - 1].type] - 1; break;
        case 10:
        case 11:
            if (d->nregs > 0) { /* default outside the constraint / not a finite number */
                struct rt_reg *r = &d->reg[vh_below(rg, (uint64_t)d->nregs)];
                if (r->type >= REG_TYPE_FLOAT32 && vh_chance(rg, 1, 2)) {
                    static const uint64_t bad32[] = { 0x7f800000, 0xffc00000, 0x00000001 };
                    static const uint64_t bad64[] = { 0x7ff0000000000000ull, 0xfff8000000000000ull, 0x1ull };
                    r->def = rt_from_bits(r->type, r->type == REG_TYPE_FLOAT32 ? bad32[vh_below(rg, 3)]
                                                                               : bad64[vh_below(rg, 3)]);
                } else if (r->ck == REGV_TYPE_MIN || (r->ck == REGV_TYPE_RANGE && vh_chance(rg, 1, 2))) {
                    r->def = rt_neighbour(r->type, r->lo, -1);
                } else if (r->ck == REGV_TYPE_MAX || r->ck == REGV_TYPE_RANGE) {
                    r->def = rt_neighbour(r->type, r->hi, +1);
                } else if (r->ck == REGV_TYPE_CALLBACK) {
                    r->def = r->cbkind == RT_CB_EVEN ? rt_from_bits(r->type, rt_bits(r->type, r->def) | 1u)
                                                     : (r->type == REG_TYPE_FLOAT32 ? (RegisterValueU){ .f32 = 100.5f }
                                                                                    : (RegisterValueU){ .f64 = -1e3 });
                }
            }
            break;
        case 12: d->nregs = 0; break;
        case 13: { /* a range whose limits are exchanged: nothing satisfies it, not even its default */
            int tries = d->nregs;
            while (tries-- > 0) {
                struct rt_reg *r = &d->reg[vh_below(rg, (uint64_t)d->nregs)];
                if (r->ck == REGV_TYPE_RANGE && rt_cmp(r->type, r->lo, r->hi) < 0) {
                    RegisterValueU t = r->lo;
                    r->lo = r->hi;
                    r->hi = t;
                    break;
                }
            }
            break;
        }
        default:
            if (d->nareas > 0) { /* toggle default loading of an area */
                struct rt_area *a = &d->area[vh_below(rg, (uint64_t)d->nareas)];
                unsigned how = (unsigned)vh_below(rg, 3);
                if (how == 0)
                    a->skipdef = !a->skipdef;
                else if (how == 1) {
                    a->custom = 1;
                    a->has_write = 0;
                } else if (!a->window) {
                    /* a device that can only be written: defaults are loaded through its write callback all the same */
                    a->custom = 1;
                    a->has_write = 1;
                    a->noread = 1;
                }
            }
            break;
        }
        /* an area that would reach up to or beyond 2^32 is not a layout of the address space (the 32-bit arithmetic
         * behind such bases - a zero-sized area at address 0 has "last word" 0xffffffff - is the harness's, not
         * a caller's): the step is taken back */
        for (int a = 0; a < d->nareas; a++) {
            const struct rt_area *ar = &d->area[a];
            /* ... and so is a step (or the second of two steps) that leaves an area with neither callbacks nor
             * memory nor size at address 0: that is the end-of-areas marker itself, the description ends there */
            const int marker = ar->base == 0 && ar->size == 0 && (ar->window || (ar->custom && ar->noread && !ar->has_write));
            if ((uint64_t)ar->base + ar->size > 0xffffffffull || marker) {
                *d = before;
                break;
            }
        }
    }
}

/* a description handed in by the caller instead of a generated one (judged as it is), and the key its refusal is
 * filed under */
static const struct rt_desc *forced_desc;
static const char *success_key = "expected=success";

static void
one_desc(uint64_t idx, uint64_t k, vh_rng *rg)
{
    vh_arena_reset();
    struct rt_desc d;
    /* the first descriptions of every unit are the curated layouts (register-less areas and reserved windows in
     * every position), the rest comes from the seeded family */
    if (forced_desc)
        d = *forced_desc;
    else if (k >= RT_NCURATED || !rt_gen_curated(rg, (unsigned)k, &d, 1))
        rt_gen_wellformed(rg, &d, 1);
    int mutated = !forced_desc && !vh_chance(rg, 3, 10);
    if (mutated)
        mutate(rg, &d);
    /* one time in four the table object has a past: it was initialised successfully with another description
     * and is now pointed at the new one and initialised again (flags and counts are what the first
     * initialisation left behind) */
    int reinit = !forced_desc && vh_chance(rg, 1, 4);
    RegisterTable past;
    memset(&past, 0, sizeof past);
    if (reinit) {
        struct rt_desc d0;
        rt_gen_wellformed(rg, &d0, 1);
        rt_build(&inst, &d0);
        if (register_init(&inst.t).code != REG_INIT_SUCCESS)
            reinit = 0; /* judged when it is the description under test */
        past = inst.t;
    }
    rt_build(&inst, &d);
    if (reinit) {
        inst.t.flags = past.flags;
        inst.t.areas = past.areas;
        inst.t.entries = past.entries;
        register_make_bigendian(&inst.t, d.bigendian);
        VH_COUNT("initialisation of a table object that was initialised before");
    }
    VH_CASE4(idx, k, mutated, reinit);
    char ctx[260];
    snprintf(ctx, sizeof ctx, "%stable{%.200s}", reinit ? "re-initialised " : "", rt_describe(&d));
    if (!reinit)
        expect_uninitialised("when=before-init", ctx);
    struct viol v[8 + 4 * RT_MAXREGS];
    int nv = collect(&d, v);
    /* one well-formed description in five with a callback-backed area that loads defaults meets a device that
     * refuses one word: the default of the register there cannot be loaded, so initialisation cannot succeed
     * (which rule it names is not judged) and the table must come out uninitialised */
    rt_cb_fail_area = -1;
    rt_cb_fail_hits = 0;
    if (nv == 0 && vh_chance(rg, 1, 5)) {
        for (int i = 0; i < d.nregs && rt_cb_fail_area < 0; i++) {
            int ai = rt_area_of(&d, d.reg[i].addr);
            if (ai >= 0 && d.area[ai].custom && d.area[ai].has_write && rt_area_loads_defaults(&d.area[ai]) && vh_chance(rg, 1, 2)) {
                rt_cb_fail_area = ai;
                rt_cb_fail_word = d.reg[i].addr - d.area[ai].base + (uint32_t)vh_below(rg, rt_tsize[d.reg[i].type]);
                rt_cb_fail_code = vh_chance(rg, 1, 2) ? REG_ACCESS_IO_ERROR : REG_ACCESS_FAILURE;
            }
        }
    }
    RegisterInit ri = register_init(&inst.t);
    if (rt_cb_fail_area >= 0) {
        rt_cb_fail_area = -1;
        VH_COUNT("device refusing a default while the table is initialised");
        if (rt_cb_fail_hits == 0 && ri.code == REG_INIT_SUCCESS) {
            check_success(ctx); /* the word was never written: nothing was refused */
            return;
        }
        if (ri.code == REG_INIT_SUCCESS)
            vh_fail("unloadable-default-accepted", "expected=failure", "%s: the write callback refused a word of a default (%u refusals), "
                    "initialisation reports success", ctx, rt_cb_fail_hits);
        else
            expect_uninitialised("when=after-device-refusal", ctx);
        return;
    }
    if (nv == 0) {
        VH_COUNT("expected: success");
        if (ri.code != REG_INIT_SUCCESS) {
            char rkey[96];
            snprintf(rkey, sizeof rkey, "%s refusal=%s", success_key, ri.code <= 10 ? codename[ri.code] : "other");
            vh_fail("wellformed-refused", rkey, "%s: code=%s index=%u", ctx,
                    ri.code <= 10 ? codename[ri.code] : "?", ri.pos.entry);
            return;
        }
        check_success(ctx);
        vh_sig(vh_hash(&d, sizeof d));
        return;
    }
    /* acceptable answers: first violation rule-major, and first violation when each stage is walked index by index */
    struct viol rule_major = v[0], index_major = v[0];
    int first_stage = 99;
    for (int i = 0; i < nv; i++)
        if (stage_of(v[i].code) < first_stage)
            first_stage = stage_of(v[i].code);
    int have_r = 0, have_i = 0;
    for (int i = 0; i < nv; i++) {
        if (!have_r || v[i].code < rule_major.code || (v[i].code == rule_major.code && v[i].idx < rule_major.idx)) {
            rule_major = v[i];
            have_r = 1;
        }
        if (stage_of(v[i].code) != first_stage)
            continue;
        if (!have_i || v[i].idx < index_major.idx || (v[i].idx == index_major.idx && v[i].code < index_major.code)) {
            index_major = v[i];
            have_i = 1;
        }
    }
    vh_countf("expected: %s", codename[rule_major.code]);
    if (rule_major.code != index_major.code || rule_major.idx != index_major.idx)
        VH_COUNT("rule-major and index-major readings differ (both accepted)");
    char key[64];
    snprintf(key, sizeof key, "expected=%s", codename[rule_major.code]);
    int pos = (ri.code == REG_INIT_AREA_INVALID_ORDER || ri.code == REG_INIT_AREA_ADDRESS_OVERLAP
               || ri.code == REG_INIT_NO_AREAS) ? (int)ri.pos.area : (int)ri.pos.entry;
    if (ri.code == REG_INIT_SUCCESS) {
        vh_fail("malformed-accepted", key, "%s: first violated rule %s at index %u", ctx, codename[rule_major.code],
                rule_major.idx);
        return;
    }
    if (!((int)ri.code == rule_major.code && (uint32_t)pos == rule_major.idx)
        && !((int)ri.code == index_major.code && (uint32_t)pos == index_major.idx))
        vh_fail("wrong-rule-or-index", key, "%s: reported %s at %d, expected %s at %u (or %s at %u)", ctx,
                ri.code <= 10 ? codename[ri.code] : "?", pos, codename[rule_major.code], rule_major.idx,
                codename[index_major.code], index_major.idx);
    expect_uninitialised(reinit ? "when=after-failed-reinit" : "when=after-failed-init", ctx);
    if (reinit)
        vh_countf("failed re-initialisation: %s", codename[rule_major.code]);
    vh_sig(vh_hash(&d, sizeof d));
}

static void
u_descs(uint64_t idx, void *arg)
{
    (void)arg;
    vh_rng rg;
    vh_unit_rng(&rg, "descs", idx);
    uint64_t n = vh_tier ? 20000 : 2500;
    for (uint64_t k = 0; k < n; k++)
        one_desc(idx, k, &rg);
    if (idx == 0)
        vh_sample("description", "e.g. %s", rt_describe(&inst.d));
}

/* the top of the address space: the last area ends exactly at 2^32 (its last word is address 0xffffffff), with and
 * without a register on the last words, alone or behind another area */
static void
u_top(uint64_t idx, void *arg)
{
    (void)arg;
    vh_rng rg;
    vh_unit_rng(&rg, "top", idx);
    struct rt_desc d;
    memset(&d, 0, sizeof d);
    const uint32_t size = (uint32_t[]){ 1, 2, 4, 5, 16 }[idx % 5];
    const int two = (int)(idx / 5) % 2, lastreg = (int)(idx / 10) % 2, custom = (int)(idx / 20) % 2;
    d.bigendian = (int)(idx / 40) % 2;
    if (two) {
        d.area[0].base = 0u - size - 8u - (uint32_t)(idx % 3);
        d.area[0].size = 8;
        d.area[0].readable = d.area[0].writeable = d.area[0].has_write = 1;
        d.nareas = 1;
        struct rt_reg *g = &d.reg[d.nregs++];
        g->type = REG_TYPE_UINT32;
        g->addr = d.area[0].base + 3;
        g->def.u32 = 0xcafe0001u;
    }
    struct rt_area *a = &d.area[d.nareas++];
    a->base = 0u - size;
    a->size = size;
    a->readable = a->writeable = a->has_write = 1;
    a->custom = custom;
    /* a register at the start of the area (when there is room for two), and one that ends with the last word */
    if (size >= 4) {
        struct rt_reg *g = &d.reg[d.nregs++];
        g->type = REG_TYPE_UINT16;
        g->addr = a->base;
        g->def.u16 = 0x1234;
    }
    if (lastreg) {
        struct rt_reg *g = &d.reg[d.nregs++];
        unsigned words = size >= 4 && (idx & 1) ? 2 : 1;
        g->type = words == 2 ? REG_TYPE_SINT32 : REG_TYPE_UINT16;
        g->addr = 0u - words;
        if (words == 2)
            g->def.s32 = -77;
        else
            g->def.u16 = 0xbeef;
    }
    forced_desc = &d;
    success_key = "expected=success layout=last-area-ends-at-2^32";
    one_desc(idx, 0, &rg);
    forced_desc = NULL;
    success_key = "expected=success";
    VH_COUNT("description whose last area ends exactly at 2^32");
}

/* a table with more than 65536 registers: indices that do not fit 16 bits */
static void
u_bigtable(uint64_t idx, void *arg)
{
    (void)arg;
    enum { NREG = 70000 };
    RegisterEntry *e = malloc(sizeof(RegisterEntry) * (NREG + 1));
    RegisterAtom *mem = malloc(sizeof(RegisterAtom) * (NREG + 8));
    static RegisterArea areas[2];
    static const RegisterHandle at[] = { 1, 5, 255, 256, 65535, 65536, 65541, 69999 };
    if (!e || !mem) {
        vh_broken("allocation for the big table failed");
        return;
    }
    for (int kind = 0; kind < 5; kind++)
        for (size_t ai = 0; ai < (kind == 0 ? 1 : sizeof at / sizeof at[0]); ai++) {
            RegisterHandle bad = at[ai];
            memset(e, 0, sizeof(RegisterEntry) * (NREG + 1));
            for (RegisterHandle i = 0; i < NREG; i++) {
                e[i].type = REG_TYPE_UINT16;
                e[i].address = 0x100 + i;
                e[i].default_value.u16 = (uint16_t)(i * 7u + 1u);
                e[i].check.type = REGV_TYPE_MIN;
                e[i].check.arg.min.u16 = 0;
            }
            e[NREG].type = REG_TYPE_INVALID;
            memset(areas, 0, sizeof areas);
            areas[0].read = reg_mem_read;
            areas[0].write = reg_mem_write;
            areas[0].flags = REG_AF_RW;
            areas[0].base = 0x100;
            areas[0].size = NREG + 4;
            areas[0].mem = mem;
            int expcode = REG_INIT_SUCCESS;
            if (kind == 1) { /* out of order */
                e[bad].address = e[bad - 1].address - 1;
                expcode = REG_INIT_ENTRY_INVALID_ORDER;
            } else if (kind == 2) { /* duplicate address */
                e[bad].address = e[bad - 1].address;
                expcode = REG_INIT_ENTRY_ADDRESS_OVERLAP;
            } else if (kind == 3) { /* default below its minimum */
                e[bad].check.arg.min.u16 = 100;
                e[bad].default_value.u16 = 99;
                expcode = REG_INIT_ENTRY_INVALID_DEFAULT;
            } else if (kind == 4) { /* beyond the area: only the last register can be moved there and stay ordered */
                bad = NREG - 1;
                e[bad].address = 0x100 + NREG + 4;
                expcode = REG_INIT_ENTRY_IN_MEMORY_HOLE;
                if (ai > 0)
                    continue;
            }
            RegisterTable t;
            memset(&t, 0, sizeof t);
            t.area = areas;
            t.entry = e;
            VH_CASE4(idx, kind, bad, 0);
            RegisterInit ri = register_init(&t);
            char key[64];
            snprintf(key, sizeof key, "workload=big-table expected=%s", codename[expcode]);
            if ((int)ri.code != expcode || (expcode != REG_INIT_SUCCESS && ri.pos.entry != bad))
                vh_fail("big-table-init", key, "70000 registers, offending register %u: code=%s index=%u", bad,
                        ri.code <= 10 ? codename[ri.code] : "?", ri.pos.entry);
            if (expcode == REG_INIT_SUCCESS) {
                if (t.entries != NREG || areas[0].entry.first != 0 || areas[0].entry.last != NREG - 1
                    || areas[0].entry.count != NREG)
                    vh_fail("big-table-run", key, "entries=%u first=%u last=%u count=%u", t.entries, areas[0].entry.first,
                            areas[0].entry.last, areas[0].entry.count);
                static const RegisterHandle probe[] = { 0, 255, 256, 65535, 65536, 69999 };
                for (size_t p = 0; p < 6; p++) {
                    RegisterValue g;
                    RegisterAccess a = register_get(&t, probe[p], &g);
                    if (a.code != REG_ACCESS_SUCCESS || g.value.u16 != (uint16_t)(probe[p] * 7u + 1u))
                        vh_fail("big-table-default", key, "register %u: code=%d value=%u", probe[p], a.code, g.value.u16);
                }
            } else {
                RegisterValue g;
                if (register_get(&t, 0, &g).code != REG_ACCESS_UNINITIALISED)
                    vh_fail("big-table-uninitialised", key, "register_get after the failed initialisation");
            }
            VH_COUNT("table with more than 65536 registers");
            vh_sig(0x04100000ull ^ ((uint64_t)kind << 32) ^ bad);
        }
    free(e);
    free(mem);
    vh_sample("big table", "one memory area with 70000 u16 registers; out-of-order, duplicate address and unacceptable default "
                           "at indices 1, 5, 255, 256, 65535, 65536, 65541, 69999");
}

void
harness_run(void)
{
    vh_unit("bigtable", 0, u_bigtable, NULL);
    for (uint64_t i = 0; i < 80; i++)
        vh_unit("top", i, u_top, NULL);
    vh_require("description whose last area ends exactly at 2^32");
    for (uint64_t i = 0; i < (vh_tier ? 6000u : 128u); i++)
        vh_unit("descs", i, u_descs, NULL);
    static const char *req[] = { "expected: success", "expected: no-areas", "expected: area-order",
                                 "expected: area-overlap", "expected: entry-order", "expected: entry-overlap",
                                 "expected: entry-in-hole", "expected: entry-invalid-default", "default read back",
                                 "area without registers", "area register run checked",
                                 "rule-major and index-major readings differ (both accepted)",
                                 "table with more than 65536 registers",
                                 "initialisation of a table object that was initialised before",
                                 "device refusing a default while the table is initialised",
                                 "always-fail register probed after initialisation",
                                 "failed re-initialisation: no-areas", "failed re-initialisation: area-order",
                                 "failed re-initialisation: area-overlap", "failed re-initialisation: entry-order",
                                 "failed re-initialisation: entry-overlap", "failed re-initialisation: entry-in-hole",
                                 "failed re-initialisation: entry-invalid-default" };
    for (size_t i = 0; i < sizeof req / sizeof req[0]; i++)
        vh_require(req[i]);
}
