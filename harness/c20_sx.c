/* C20 - the s-expression reader inverts printing and fails cleanly on
 * anything else.
 *
 * Oracles: (a) generator trees rendered to text and compared structurally
 * with the parse result; (b) a reference recursive-descent reader over a
 * restricted alphabet; allocation ledger via the sanitizer allocator
 * statistics; exact-size poisoned input blocks (NUL-terminated for
 * sx_parse_string, unterminated for sx_parse_stringn). */
#include "common/vh.h"

#include <ctype.h>
#include <ufw/sx.h>

const char *harness_name = "c20_sx";

size_t __sanitizer_get_current_allocated_bytes(void);

/* ---- generator trees ---- */
#define MAXNODES 8
struct tree {
    int kind; /* 0 atom, 1 list */
    int atom; /* 0..6 */
    int nchild;
    struct tree *child[MAXNODES];
};
static const char *atoms_sym[3] = { "a", "foo-1", "+" }; /* the first one is exchanged by the symbol-character sweep */
static const uint64_t atoms_int[4] = { 0, 7, 255, 48879 };

static struct tree pool[64];
static int npool;

static uint64_t C[8][6], F[8][6];

static void
counts(void)
{
    for (int d = 0; d <= 5; d++) {
        for (int n = 0; n <= 7; n++) {
            /* trees with exactly n nodes and depth <= d */
            if (n == 0)
                C[n][d] = 0;
            else if (d == 0)
                C[n][d] = n == 1 ? 7 : 0;
            else
                C[n][d] = (n == 1 ? 7 : 0) + F[n - 1][d - 1];
        }
        for (int m = 0; m <= 7; m++) {
            if (m == 0) {
                F[m][d] = 1;
                continue;
            }
            uint64_t s = 0;
            for (int k = 1; k <= m; k++)
                s += C[k][d] * F[m - k][d];
            F[m][d] = s;
        }
    }
}

static struct tree *unrank_tree(int n, int d, uint64_t idx);

static void
unrank_forest(int m, int d, uint64_t idx, struct tree *parent)
{
    while (m > 0) {
        for (int k = 1; k <= m; k++) {
            uint64_t block = C[k][d] * F[m - k][d];
            if (idx < block) {
                parent->child[parent->nchild++] = unrank_tree(k, d, idx / F[m - k][d]);
                idx %= F[m - k][d];
                m -= k;
                break;
            }
            idx -= block;
        }
    }
}

static struct tree *
unrank_tree(int n, int d, uint64_t idx)
{
    struct tree *t = &pool[npool++];
    memset(t, 0, sizeof *t);
    if (n == 1 && idx < 7) {
        t->kind = 0;
        t->atom = (int)idx;
        return t;
    }
    if (n == 1)
        idx -= 7;
    t->kind = 1;
    unrank_forest(n - 1, d - 1, idx, t);
    return t;
}

static size_t
ws(char *out, int policy, vh_rng *r, int mandatory)
{
    /* policy 0: minimal; 1: generous; 2: random */
    static const char wsc[6] = { ' ', '\n', '\t', '\r', '\v', '\f' }; /* every C whitespace character */
    size_t n = 0;
    if (policy == 0) {
        if (mandatory)
            out[n++] = ' ';
    } else if (policy == 1) {
        out[n++] = ' ';
        out[n++] = '\n';
    } else {
        size_t k = (size_t)vh_below(r, 3) + (mandatory ? 1u : 0u);
        for (size_t i = 0; i < k; i++)
            out[n++] = wsc[vh_below(r, 6)];
    }
    return n;
}

static size_t
render(const struct tree *t, char *out, int policy, int numfmt, vh_rng *r)
{
    size_t n = 0;
    if (t->kind == 0) {
        if (t->atom < 3)
            return (size_t)sprintf(out, "%s", atoms_sym[t->atom]);
        uint64_t v = atoms_int[t->atom - 3];
        int f = numfmt == 3 ? (int)vh_below(r, 3) : numfmt;
        if (f == 0)
            return (size_t)sprintf(out, "%" PRIu64, v);
        if (f == 1)
            return (size_t)sprintf(out, "#x%" PRIx64, v);
        return (size_t)sprintf(out, "#x%" PRIX64, v);
    }
    out[n++] = '(';
    for (int i = 0; i < t->nchild; i++) {
        n += ws(out + n, policy, r, i > 0 && !(t->child[i]->kind == 1 || t->child[i - 1]->kind == 1));
        n += render(t->child[i], out + n, policy, numfmt, r);
    }
    n += ws(out + n, policy, r, 0);
    out[n++] = ')';
    return n;
}

static int
same_tree(const struct tree *t, const struct sx_node *node)
{
    if (node == NULL)
        return 0;
    if (t->kind == 0) {
        if (t->atom < 3)
            return node->type == SXT_SYMBOL && strcmp(node->data.symbol, atoms_sym[t->atom]) == 0;
        return node->type == SXT_INTEGER && node->data.u64 == atoms_int[t->atom - 3];
    }
    for (int i = 0; i < t->nchild; i++) {
        if (node == NULL || node->type != SXT_PAIR || node->data.pair == NULL)
            return 0;
        if (!same_tree(t->child[i], node->data.pair->car))
            return 0;
        node = node->data.pair->cdr;
    }
    return node != NULL && node->type == SXT_EMPTY_LIST;
}

/* parse text both ways; expect success with tree t (NULL: just memory/leak checks) and position pos */
static void
parse_expect_tree(const char *text, size_t n, size_t exprlen, const struct tree *t, const char *key)
{
    static const char *const vname[] = { "string", "stringn", "parse-at-offset" };
    static unsigned rot;
    for (int variant = 0; variant < 3; variant++) {
        char *in;
        size_t before = __sanitizer_get_current_allocated_bytes();
        struct sx_parse_result res;
        size_t off = 0;
        if (variant == 0) {
            in = vh_arena(n + 1);
            memcpy(in, text, n);
            in[n] = 0;
            res = sx_parse_string(in);
        } else if (variant == 1) {
            in = vh_arena(n);
            memcpy(in, text, n);
            res = sx_parse_stringn(in, n);
        } else {
            /* the way several expressions are read from one text: the start offset is where the previous
             * expression (or whatever else was in front) ended, positions count from the start of the text */
            static const char *const front[] = { "(zz 9)", "q ", ")))", "(", "#x1f ", "(a (b) c)\n", "5" };
            const char *f = front[rot++ % 7];
            off = strlen(f);
            in = vh_arena(off + n);
            memcpy(in, f, off);
            memcpy(in + off, text, n);
            res = sx_parse(in, off + n, off);
            VH_COUNT("expression parsed from a start offset behind other text");
        }
        if (res.status != SXS_SUCCESS || res.node == NULL) {
            vh_fail("render-rejected", key, "variant=%s text='%.*s': status=%d node=%p", vname[variant],
                    (int)n, text, res.status, (void *)res.node);
        } else {
            if (!same_tree(t, res.node))
                vh_fail("tree-differs", key, "variant=%s text='%.*s'", vname[variant], (int)n, text);
            if (res.position != off + exprlen)
                vh_fail("position", key, "variant=%s text='%.*s' (start offset %zu): position %zu expected %zu",
                        vname[variant], (int)n, text, off, res.position, off + exprlen);
        }
        sx_destroy(&res.node);
        size_t after = __sanitizer_get_current_allocated_bytes();
        if (after != before)
            vh_fail("leak", key, "text='%.*s': %zd octets still allocated after sx_destroy", (int)n, text,
                    (ssize_t)(after - before));
    }
}

static void
u_trees(uint64_t idx, void *arg)
{
    (void)arg;
    counts();
    const int maxd = 4, maxn = 6;
    uint64_t total = 0;
    for (int n = 1; n <= maxn; n++)
        total += C[n][maxd];
    uint64_t nunits = 64, stride = vh_tier ? 1 : 23;
    vh_rng r;
    vh_unit_rng(&r, "trees", idx);
    uint64_t n_done = 0;
    const uint64_t pick = vh_tier ? 0 : vh_below(&r, stride);
    for (uint64_t g = idx; g < total; g += nunits) {
        /* quick: every tree among the first 512, then every 23rd from a seeded offset */
        if (g >= 512 && (g / nunits) % stride != pick)
            continue;
        uint64_t x = g;
        int n;
        for (n = 1; n <= maxn; n++) {
            if (x < C[n][maxd])
                break;
            x -= C[n][maxd];
        }
        npool = 0;
        struct tree *t = unrank_tree(n, maxd, x);
        char text[400];
        for (int policy = 0; policy < 3; policy++)
            for (int numfmt = 0; numfmt < 4; numfmt++) {
                if (numfmt == 3 && policy != 2)
                    continue;
                vh_arena_reset();
                VH_CASE4(g, policy, numfmt, 0);
                size_t lead = policy == 0 ? 0 : ws(text, policy, &r, 0);
                size_t len = lead + render(t, text + lead, policy, numfmt, &r);
                parse_expect_tree(text, len, len, t, "gen=trees");
                /* trailing material after the expression must not matter */
                static const char *trail[] = { " )", " x", ")", "\n(", " #" };
                const char *tr = trail[(g + (uint64_t)policy) % 5];
                if (t->kind == 0 && tr[0] != ' ' && tr[0] != '\n' && tr[0] != ')' && tr[0] != '(')
                    tr = " #";
                size_t tl = strlen(tr);
                memcpy(text + len, tr, tl);
                parse_expect_tree(text, len + tl, len, t, "gen=trees-trailing");
                n_done += 2;
            }
        if (t->kind == 1 && t->nchild == 0)
            VH_COUNT("trees: the empty list itself");
        for (int i = 0; i < t->nchild; i++)
            if (t->child[i]->kind == 1 && t->child[i]->nchild == 0) {
                VH_COUNT("trees: empty list nested inside a list");
                break;
            }
        if (g % 5000 < nunits) {
            size_t len = render(t, text, 0, 1, &r);
            text[len] = 0;
            vh_sample("tree", "tree #%" PRIu64 " (%d nodes): %s", g, n, text);
        }
        vh_sig(0x20000000ull ^ g);
    }
    VH_COUNTN("trees rendered, parsed and compared", n_done);
    if (idx == 0)
        vh_countf("tree space: %" PRIu64 " trees with <= 6 nodes and depth <= 4", total);
}

/* ---- reference reader over the restricted alphabet ---- */
static const char ralpha[10] = { '(', ')', ' ', '\n', 'a', '1', '0', '#', 'x', 'F' };

struct rnode {
    int kind; /* 0 symbol 1 integer 2 list */
    char sym[48];
    uint64_t val;
    int nchild;
    struct rnode *child[24];
};
static struct rnode rpool[64];
static int nrpool;

static int
r_isdelim(char c)
{
    return c == '(' || c == ')' || c == ' ' || c == '\n' || c == '\t';
}
static int
r_issymch(char c)
{
    return isalpha((unsigned char)c) || isdigit((unsigned char)c) || c == '-' || c == '+';
}
static int
r_hexval(char c)
{
    if (c >= '0' && c <= '9')
        return c - '0';
    if (c >= 'a' && c <= 'f')
        return c - 'a' + 10;
    if (c >= 'A' && c <= 'F')
        return c - 'A' + 10;
    return -1;
}

/* returns node or NULL (error); *pos advanced just past the expression */
static struct rnode *
r_expr(const char *s, size_t n, size_t *pos, int depth)
{
    size_t i = *pos;
    while (i < n && (s[i] == ' ' || s[i] == '\n' || s[i] == '\t'))
        i++;
    if (i >= n || depth > 40)
        return NULL;
    struct rnode *node = &rpool[nrpool++];
    memset(node, 0, sizeof *node);
    char c = s[i];
    if (c == '(') {
        node->kind = 2;
        i++;
        for (;;) {
            while (i < n && (s[i] == ' ' || s[i] == '\n' || s[i] == '\t'))
                i++;
            if (i >= n)
                return NULL;
            if (s[i] == ')') {
                i++;
                break;
            }
            size_t p = i;
            struct rnode *ch = r_expr(s, n, &p, depth + 1);
            if (ch == NULL || node->nchild >= 24)
                return NULL;
            node->child[node->nchild++] = ch;
            i = p;
        }
    } else if (c == ')') {
        return NULL;
    } else if (isdigit((unsigned char)c)) {
        node->kind = 1;
        uint64_t v = 0;
        while (i < n && isdigit((unsigned char)s[i]))
            v = v * 10 + (uint64_t)(s[i++] - '0');
        if (i < n && !r_isdelim(s[i]))
            return NULL;
        node->val = v;
    } else if (c == '#') {
        if (!(i + 2 < n && s[i + 1] == 'x' && r_hexval(s[i + 2]) >= 0))
            return NULL;
        node->kind = 1;
        i += 2;
        uint64_t v = 0;
        while (i < n && r_hexval(s[i]) >= 0)
            v = v * 16 + (uint64_t)r_hexval(s[i++]);
        if (i < n && !r_isdelim(s[i]))
            return NULL;
        node->val = v;
    } else if (isalpha((unsigned char)c)) {
        node->kind = 0;
        size_t k = 0;
        while (i < n && r_issymch(s[i])) {
            if (k < sizeof node->sym - 1)
                node->sym[k++] = s[i];
            i++;
        }
        if (i < n && !r_isdelim(s[i]))
            return NULL;
    } else {
        return NULL;
    }
    *pos = i;
    return node;
}

static int
same_rnode(const struct rnode *t, const struct sx_node *node)
{
    if (node == NULL)
        return 0;
    if (t->kind == 0)
        return node->type == SXT_SYMBOL && strcmp(node->data.symbol, t->sym) == 0;
    if (t->kind == 1)
        return node->type == SXT_INTEGER && node->data.u64 == t->val;
    for (int i = 0; i < t->nchild; i++) {
        if (node == NULL || node->type != SXT_PAIR || node->data.pair == NULL)
            return 0;
        if (!same_rnode(t->child[i], node->data.pair->car))
            return 0;
        node = node->data.pair->cdr;
    }
    return node != NULL && node->type == SXT_EMPTY_LIST;
}

static void
check_string(const char *text, size_t n)
{
    nrpool = 0;
    size_t rpos = 0;
    struct rnode *ref = r_expr(text, n, &rpos, 0);
    if (ref)
        VH_COUNT("strings: reference reader accepts");
    else
        VH_COUNT("strings: reference reader rejects");
    for (int variant = 0; variant < 2; variant++) {
        char *in;
        size_t before = __sanitizer_get_current_allocated_bytes();
        struct sx_parse_result res;
        if (variant == 0) {
            in = vh_arena(n + 1);
            memcpy(in, text, n);
            in[n] = 0;
            res = sx_parse_string(in);
        } else {
            in = vh_arena(n);
            memcpy(in, text, n);
            res = sx_parse_stringn(in, n);
        }
        const char *vn = variant ? "variant=stringn" : "variant=string";
        if (ref) {
            if (res.status != SXS_SUCCESS || res.node == NULL)
                vh_fail("rejects-valid", vn, "text='%.*s' hex=%s: status=%d node=%p", (int)n, text, vh_hex(text, n),
                        res.status, (void *)res.node);
            else if (!same_rnode(ref, res.node))
                vh_fail("tree-differs", vn, "text='%.*s' hex=%s", (int)n, text, vh_hex(text, n));
            else if (res.position != rpos)
                vh_fail("position", vn, "text='%.*s' hex=%s: position %zu expected %zu", (int)n, text,
                        vh_hex(text, n), res.position, rpos);
        } else {
            if (res.status == SXS_SUCCESS || res.status == SXS_FOUND_LIST)
                vh_fail("accepts-invalid", vn, "text='%.*s' hex=%s: status=%d node=%p", (int)n, text, vh_hex(text, n),
                        res.status, (void *)res.node);
            if (res.node != NULL)
                vh_fail("tree-on-error", vn, "text='%.*s' hex=%s: status=%d with a tree", (int)n, text,
                        vh_hex(text, n), res.status);
        }
        sx_destroy(&res.node);
        size_t after = __sanitizer_get_current_allocated_bytes();
        if (after != before)
            vh_fail("leak", vn, "text='%.*s' hex=%s: %zd octets still allocated", (int)n, text, vh_hex(text, n),
                    (ssize_t)(after - before));
    }
}

static void
u_strings(uint64_t idx, void *arg)
{
    size_t n = (size_t)(intptr_t)arg;
    uint64_t total = 1;
    for (size_t i = 0; i < n; i++)
        total *= 10;
    uint64_t units = n <= 1 ? 1 : n == 2 ? 10 : n <= 6 ? 100 : 1000;
    char s[12];
    uint64_t cnt = 0;
    for (uint64_t k = idx; k < total; k += units) {
        uint64_t x = k;
        for (size_t i = 0; i < n; i++) {
            s[i] = ralpha[x % 10];
            x /= 10;
        }
        if ((cnt & 63) == 0)
            vh_arena_reset();
        VH_CASE2(n, k);
        check_string(s, n);
        cnt++;
    }
    VH_COUNTN("strings over the 10-character alphabet", cnt);
    vh_countf("enumerated strings of length %zu", n);
    vh_sig(0x20100000ull ^ ((uint64_t)n << 32) ^ idx);
    if (idx == 7 && n == 4)
        vh_sample("string", "all strings of length 4 over '( ) space newline a 1 0 # x F', e.g. '(#xF'");
}

/* structured random strings: longer, biased towards well-formed input */
static void
u_random(uint64_t idx, void *arg)
{
    (void)arg;
    vh_rng r;
    vh_unit_rng(&r, "random", idx);
    char s[80];
    uint64_t cnt = vh_tier ? 60000 : 8000;
    for (uint64_t k = 0; k < cnt; k++) {
        size_t n = (size_t)vh_below(&r, 40);
        for (size_t i = 0; i < n; i++) {
            unsigned x = (unsigned)vh_below(&r, 100);
            s[i] = x < 22 ? '(' : x < 44 ? ')' : x < 60 ? ' ' : ralpha[vh_below(&r, 10)];
        }
        if ((k & 63) == 0)
            vh_arena_reset();
        VH_CASE2(idx, k);
        check_string(s, n);
    }
    VH_COUNTN("random structured strings", cnt);
    vh_sig(0x20200000ull ^ idx);
}

/* inputs beyond the small vocabulary: extreme integers, long tokens, deep nesting, long lists */
static void
expect_integer(const char *text, uint64_t value)
{
    size_t n = strlen(text);
    for (int variant = 0; variant < 2; variant++) {
        char *in = vh_arena(n + (variant ? 0 : 1));
        memcpy(in, text, n);
        if (!variant)
            in[n] = 0;
        size_t before = __sanitizer_get_current_allocated_bytes();
        struct sx_parse_result res = variant ? sx_parse_stringn(in, n) : sx_parse_string(in);
        if (res.status != SXS_SUCCESS || res.node == NULL || res.node->type != SXT_INTEGER
            || res.node->data.u64 != value || res.position != n)
            vh_fail("integer-value", variant ? "variant=stringn" : "variant=string",
                    "text='%s': status=%d value=%" PRIu64 " position=%zu, expected %" PRIu64, text, res.status,
                    res.node && res.node->type == SXT_INTEGER ? res.node->data.u64 : 0, res.position, value);
        sx_destroy(&res.node);
        if (__sanitizer_get_current_allocated_bytes() != before)
            vh_fail("leak", "variant=special", "text='%s'", text);
    }
    VH_COUNT("special: integer boundary values");
}

static void
u_special(uint64_t idx, void *arg)
{
    (void)arg;
    (void)idx;
    static const struct { const char *t; uint64_t v; } ints[] = {
        { "0", 0 }, { "00", 0 }, { "007", 7 }, { "255", 255 }, { "256", 256 }, { "65535", 65535 }, { "65536", 65536 },
        { "4294967295", 4294967295ull }, { "4294967296", 4294967296ull }, { "9223372036854775807", 9223372036854775807ull },
        { "9223372036854775808", 9223372036854775808ull }, { "18446744073709551615", 18446744073709551615ull },
        { "#x0", 0 }, { "#xff", 255 }, { "#xFF", 255 }, { "#x100", 256 }, { "#xffff", 65535 }, { "#x10000", 65536 },
        { "#xFFFFFFFF", 4294967295ull }, { "#x100000000", 4294967296ull }, { "#x7fffffffffffffff", 9223372036854775807ull },
        { "#x8000000000000000", 9223372036854775808ull }, { "#xffffffffffffffff", 18446744073709551615ull },
        { "#xFfFfFfFfFfFfFfFf", 18446744073709551615ull }, { "#xABCDEFabcdef", 0xabcdefabcdefull },
        { "#x0123456789abcdef", 0x0123456789abcdefull }, { "#x000000000000000001", 1 },
    };
    for (size_t i = 0; i < sizeof ints / sizeof ints[0]; i++) {
        vh_arena_reset();
        VH_CASE2(1, i);
        expect_integer(ints[i].t, ints[i].v);
    }
    /* every octet that belongs to no token class (not whitespace, parenthesis, digit, letter, symbol punctuation,
     * '-' or '#': control characters, quotes, brackets, everything above 7f ...): wherever it stands - alone, behind
     * "#x", among the digits of either kind of number, inside or next to a symbol, as an element of a list - the text
     * is not a complete expression: an error status, no tree, nothing leaked */
    {
        static const char tokenchars[] = " \t\n\v\f\r()0123456789abcdefghijklmnopqrstuvwxyzABCDEFGHIJKLMNOPQRSTUVWXYZ+%|/_:;.!?$&=*<>~-#";
        static const char *const forms[] = { "%c", "#x%c", "#x1%c", "#x%c1", "1%c", "12%c3", "a%c", "%ca", "(a %c)", "(a #x%cf)", "(#x1%c)", "(1 a%cb)" };
        for (unsigned c = 0; c < 256; c++) {
            if (c != 0 && strchr(tokenchars, (int)c) != NULL)
                continue;
            for (size_t fi = 0; fi < sizeof forms / sizeof forms[0]; fi++) {
                char text[24];
                /* the octet is put in by hand: it may be NUL */
                int n0 = snprintf(text, sizeof text, forms[fi], 'Z');
                size_t n = (size_t)n0;
                for (size_t i = 0; i < n; i++)
                    if (text[i] == 'Z')
                        text[i] = (char)c;
                for (int variant = (c == 0); variant < 2; variant++) {
                    vh_arena_reset();
                    VH_CASE4(7, c, fi, variant);
                    char *in = vh_arena(n + (variant ? 0 : 1));
                    memcpy(in, text, n);
                    if (!variant)
                        in[n] = 0;
                    size_t before = __sanitizer_get_current_allocated_bytes();
                    struct sx_parse_result res = variant ? sx_parse_stringn(in, n) : sx_parse_string(in);
                    if (res.status == SXS_SUCCESS || res.node != NULL)
                        vh_fail("accepts-invalid", variant ? "variant=stringn gen=non-token-octets" : "variant=string gen=non-token-octets",
                                "text=%s (octet %02x in form '%s'): status=%d node=%p", vh_hex(text, n), c, forms[fi], res.status, (void *)res.node);
                    sx_destroy(&res.node);
                    if (__sanitizer_get_current_allocated_bytes() != before)
                        vh_fail("leak", "variant=special", "text=%s", vh_hex(text, n));
                }
            }
            VH_COUNT("special: every octet outside the token classes");
        }
    }
    /* every character a symbol may start with and continue with (the reader's tables at the pinned commit: letters
     * and + % | / _ : ; . ! ? $ & = * < > ~ as initials, digits and '-' in addition behind them): alone, doubled,
     * in front of and behind a letter, followed by -9 and by digits; as an expression of its own, as first and as middle element
     * of a list, under all three whitespace policies */
    {
        static const char initials[] = "abcdefghijklmnopqrstuvwxyzABCDEFGHIJKLMNOPQRSTUVWXYZ+%|/_:;.!?$&=*<>~";
        vh_rng sr;
        vh_unit_rng(&sr, "symchars", 0);
        const char *keep = atoms_sym[0];
        for (size_t ci = 0; initials[ci]; ci++)
            for (int form = 0; form < 8; form++) {
                char sym[8];
                const char c = initials[ci];
                /* (a digit right behind the initial makes +5, .5, x1F ... - symbols, whatever they look like) */
                snprintf(sym, sizeof sym, form == 0 ? "%c" : form == 1 ? "%c%c" : form == 2 ? "%ca" : form == 3 ? "a%c" : form == 4 ? "%c-9"
                         : form == 5 ? "%c5" : form == 6 ? "%c0x" : "%c1F", c, c);
                atoms_sym[0] = sym;
                struct tree leaf = { .kind = 0, .atom = 0 }, other = { .kind = 0, .atom = 1 }, num = { .kind = 0, .atom = 4 };
                struct tree l1 = { .kind = 1, .nchild = 2, .child = { &leaf, &other } };
                struct tree l2 = { .kind = 1, .nchild = 3, .child = { &other, &leaf, &num } };
                const struct tree *ts[3] = { &leaf, &l1, &l2 };
                for (int ti = 0; ti < 3; ti++)
                    for (int policy = 0; policy < 3; policy++) {
                        char text[200];
                        vh_arena_reset();
                        VH_CASE4(6, ci, form, ti * 3 + policy);
                        size_t lead = policy == 0 ? 0 : ws(text, policy, &sr, 0);
                        size_t len = lead + render(ts[ti], text + lead, policy, 0, &sr);
                        parse_expect_tree(text, len, len, ts[ti], "gen=symbol-characters");
                    }
                VH_COUNT("special: every symbol character");
            }
        atoms_sym[0] = keep;
    }
    /* integers written with leading zeros, in fields of 19..1000 digits (a fixed-width "%032llu" or "#x%040llX"
     * rendering): the value is that of the digits, however many zeros stand in front */
    {
        static const size_t widths[] = { 19, 20, 21, 22, 23, 24, 25, 31, 32, 33, 40, 64, 100, 1000 };
        static const uint64_t vals[] = { 0, 1, 42, 255, 0x8000000000000000ull, 18446744073709551615ull, 1234567890123456789ull };
        static char zt[1100];
        for (size_t wi = 0; wi < sizeof widths / sizeof widths[0]; wi++)
            for (size_t vi = 0; vi < sizeof vals / sizeof vals[0]; vi++)
                for (int fmt = 0; fmt < 3; fmt++) {
                    char digits[32];
                    int nd = snprintf(digits, sizeof digits, fmt == 0 ? "%" PRIu64 : fmt == 1 ? "%" PRIx64 : "%" PRIX64, vals[vi]);
                    if ((size_t)nd > widths[wi])
                        continue;
                    size_t o = 0;
                    if (fmt) {
                        zt[o++] = '#';
                        zt[o++] = 'x';
                    }
                    for (size_t z = (size_t)nd; z < widths[wi]; z++)
                        zt[o++] = '0';
                    memcpy(zt + o, digits, (size_t)nd);
                    o += (size_t)nd;
                    zt[o] = 0;
                    vh_arena_reset();
                    VH_CASE4(5, widths[wi], vi, fmt);
                    expect_integer(zt, vals[vi]);
                    VH_COUNT("special: integers with leading zeros in wide fields");
                }
    }
    /* long symbols and long digit strings, each also as the last element of a list */
    static char text[70000];
    static const size_t lens[] = { 1, 2, 15, 16, 17, 254, 255, 256, 257, 1000, 4095, 4096, 65535, 65536, 66000 };
    for (size_t li = 0; li < sizeof lens / sizeof lens[0]; li++)
        for (int inlist = 0; inlist < 2; inlist++) {
            vh_arena_reset();
            size_t L = lens[li], o = 0;
            if (inlist)
                text[o++] = '(';
            for (size_t i = 0; i < L; i++)
                text[o++] = (char)(i == 0 ? 'q' : "abz-09Y+"[i % 8]);
            if (inlist)
                text[o++] = ')';
            VH_CASE4(2, L, inlist, 0);
            for (int variant = 0; variant < 2; variant++) {
                char *in = vh_arena(o + (variant ? 0 : 1));
                memcpy(in, text, o);
                if (!variant)
                    in[o] = 0;
                size_t before = __sanitizer_get_current_allocated_bytes();
                struct sx_parse_result res = variant ? sx_parse_stringn(in, o) : sx_parse_string(in);
                const struct sx_node *sym = res.node;
                if (inlist && sym && sym->type == SXT_PAIR)
                    sym = sym->data.pair->car;
                if (res.status != SXS_SUCCESS || sym == NULL || sym->type != SXT_SYMBOL || strlen(sym->data.symbol) != L
                    || memcmp(sym->data.symbol, text + inlist, L) != 0 || res.position != o)
                    vh_fail("long-symbol", variant ? "variant=stringn" : "variant=string",
                            "symbol of %zu characters%s: status=%d position=%zu", L, inlist ? " in a list" : "", res.status,
                            res.position);
                sx_destroy(&res.node);
                if (__sanitizer_get_current_allocated_bytes() != before)
                    vh_fail("leak", "variant=special", "symbol of %zu characters", L);
            }
            VH_COUNT("special: long symbols");
        }
    /* deep nesting and long flat lists */
    static const size_t depths[] = { 1, 2, 8, 64, 255, 256, 257, 1000, 3000 };
    for (size_t di = 0; di < sizeof depths / sizeof depths[0]; di++)
        for (int flat = 0; flat < 2; flat++) {
            vh_arena_reset();
            size_t D = depths[di], o = 0;
            if (flat) {
                text[o++] = '(';
                for (size_t i = 0; i < D; i++) {
                    o += (size_t)sprintf(text + o, "%zu ", i);
                }
                text[o++] = ')';
            } else {
                for (size_t i = 0; i < D; i++)
                    text[o++] = '(';
                text[o++] = 'x';
                for (size_t i = 0; i < D; i++)
                    text[o++] = ')';
            }
            VH_CASE4(3, D, flat, 0);
            for (int variant = 0; variant < 2; variant++) {
                char *in = vh_arena(o + (variant ? 0 : 1));
                memcpy(in, text, o);
                if (!variant)
                    in[o] = 0;
                size_t before = __sanitizer_get_current_allocated_bytes();
                struct sx_parse_result res = variant ? sx_parse_stringn(in, o) : sx_parse_string(in);
                int ok = res.status == SXS_SUCCESS && res.node != NULL && res.position == o;
                const struct sx_node *nd = res.node;
                if (ok && flat) {
                    for (size_t i = 0; ok && i < D; i++) {
                        ok = nd && nd->type == SXT_PAIR && nd->data.pair->car && nd->data.pair->car->type == SXT_INTEGER
                             && nd->data.pair->car->data.u64 == i;
                        if (ok)
                            nd = nd->data.pair->cdr;
                    }
                    ok = ok && nd && nd->type == SXT_EMPTY_LIST;
                } else if (ok) {
                    for (size_t i = 0; ok && i < D; i++) {
                        ok = nd && nd->type == SXT_PAIR && nd->data.pair->cdr && nd->data.pair->cdr->type == SXT_EMPTY_LIST;
                        if (ok)
                            nd = nd->data.pair->car;
                    }
                    ok = ok && nd && nd->type == SXT_SYMBOL && strcmp(nd->data.symbol, "x") == 0;
                }
                if (!ok)
                    vh_fail("deep-or-long-list", variant ? "variant=stringn" : "variant=string",
                            "%s of %zu: status=%d position=%zu (input %zu)", flat ? "flat list" : "nesting", D, res.status,
                            res.position, o);
                sx_destroy(&res.node);
                if (__sanitizer_get_current_allocated_bytes() != before)
                    vh_fail("leak", "variant=special", "%s of %zu", flat ? "flat list" : "nesting", D);
                /* the same input cut short by one character must fail cleanly */
                if (o > 1) {
                    char *cut = vh_arena(o - 1);
                    memcpy(cut, text, o - 1);
                    before = __sanitizer_get_current_allocated_bytes();
                    res = sx_parse_stringn(cut, o - 1);
                    if (res.status == SXS_SUCCESS || res.node != NULL)
                        vh_fail("unterminated-accepted", "variant=stringn", "%s of %zu without its last character: status=%d",
                                flat ? "flat list" : "nesting", D, res.status);
                    sx_destroy(&res.node);
                    if (__sanitizer_get_current_allocated_bytes() != before)
                        vh_fail("leak", "variant=special", "unterminated %s of %zu", flat ? "flat list" : "nesting", D);
                }
            }
            VH_COUNT("special: deep nesting and long lists");
        }
    vh_sig(0x20300000ull);
    vh_sample("special", "integers at 2^8, 2^16, 2^32, 2^63, 2^64-1 in decimal and both hex cases; symbols of up to 66000 "
                         "characters; nesting depth and list length up to 3000");
}

void
harness_run(void)
{
    vh_unit("special", 0, u_special, NULL);
    for (uint64_t i = 0; i < 64; i++)
        vh_unit("trees", i, u_trees, NULL);
    size_t maxlen = vh_tier ? 8 : 5;
    for (size_t n = 0; n <= maxlen; n++) {
        char gen[32];
        snprintf(gen, sizeof gen, "strings-%zu", n);
        uint64_t units = n <= 1 ? 1 : n == 2 ? 10 : n <= 6 ? 100 : 1000;
        for (uint64_t i = 0; i < units; i++)
            vh_unit(gen, i, u_strings, (void *)(intptr_t)n);
    }
    for (uint64_t i = 0; i < (vh_tier ? 400u : 32u); i++)
        vh_unit("random", i, u_random, NULL);
    static const char *req[] = { "trees rendered, parsed and compared", "trees: the empty list itself",
                                 "trees: empty list nested inside a list", "strings: reference reader accepts",
                                 "strings: reference reader rejects", "enumerated strings of length 5",
                                 "random structured strings", "special: integer boundary values",
                                 "special: long symbols", "special: deep nesting and long lists" };
    for (size_t i = 0; i < sizeof req / sizeof req[0]; i++)
        vh_require(req[i]);
    vh_require("expression parsed from a start offset behind other text");
}
