/* C20 - the s-expression reader inverts printing and fails cleanly on
 * anything else.
 *
 * Oracles: (a) generator trees rendered to text and compared structurally
 * with the parse result; (b) a reference recursive-descent reader over a
 * restricted alphabet; allocation ledger via the sanitizer allocator
 * statistics; exact-size poisoned input blocks (NUL-terminated for
 * sx_parse_string, unterminated for sx_parse_stringn). */
#include "common/vh.h"

#include <ctype.h>
#include <ufw/sx.h>

const char *harness_name = "c20_sx";

size_t __sanitizer_get_current_allocated_bytes(void);

/* ---- generator trees ---- */
#define MAXNODES 8
struct tree {
    int kind; /* 0 atom, 1 list */
    int atom; /* 0..6 */
    int nchild;
    struct tree *child[MAXNODES];
};
static const char *atoms_sym[3] = { "a", "foo-1", "+" };
static const uint64_t atoms_int[4] = { 0, 7, 255, 48879 };

static struct tree pool[64];
static int npool;

static uint64_t C[8][6], F[8][6];

static void
counts(void)
{
    for (int d = 0; d <= 5; d++) {
        for (int n = 0; n <= 7; n++) {
            /* trees with exactly n nodes and depth <= d */
            if (n == 0)
                C[n][d] = 0;
            else if (d == 0)
                C[n][d] = n == 1 ? 7 : 0;
            else
                C[n][d] = (n == 1 ? 7 : 0) + F[n - 1][d - 1];
        }
        for (int m = 0; m <= 7; m++) {
            if (m == 0) {
                F[m][d] = 1;
                continue;
            }
            uint64_t s = 0;
            for (int k = 1; k <= m; k++)
                s += C[k][d] * F[m - k][d];
            F[m][d] = s;
        }
    }
}

static struct tree *unrank_tree(int n, int d, uint64_t idx);

static void
unrank_forest(int m, int d, uint64_t idx, struct tree *parent)
{
    while (m > 0) {
        for (int k = 1; k <= m; k++) {
            uint64_t block = C[k][d] * F[m - k][d];
            if (idx < block) {
                parent->child[parent->nchild++] = unrank_tree(k, d, idx / F[m - k][d]);
                idx %= F[m - k][d];
                m -= k;
                break;
            }
            idx -= block;
        }
    }
}

static struct tree *
unrank_tree(int n, int d, uint64_t idx)
{
    struct tree *t = &pool[npool++];
    memset(t, 0, sizeof *t);
    if (n == 1 && idx < 7) {
        t->kind = 0;
        t->atom = (int)idx;
        return t;
    }
    if (n == 1)
        idx -= 7;
    t->kind = 1;
    unrank_forest(n - 1, d - 1, idx, t);
    return t;
}

static size_t
ws(char *out, int policy, vh_rng *r, int mandatory)
{
    /* policy 0: minimal; 1: generous; 2: random */
    static const char wsc[3] = { ' ', '\n', '\t' };
    size_t n = 0;
    if (policy == 0) {
        if (mandatory)
            out[n++] = ' ';
    } else if (policy == 1) {
        out[n++] = ' ';
        out[n++] = '\n';
    } else {
        size_t k = (size_t)vh_below(r, 3) + (mandatory ? 1u : 0u);
        for (size_t i = 0; i < k; i++)
            out[n++] = wsc[vh_below(r, 3)];
    }
    return n;
}

static size_t
render(const struct tree *t, char *out, int policy, int numfmt, vh_rng *r)
{
    size_t n = 0;
    if (t->kind == 0) {
        if (t->atom < 3)
            return (size_t)sprintf(out, "%s", atoms_sym[t->atom]);
        uint64_t v = atoms_int[t->atom - 3];
        int f = numfmt == 3 ? (int)vh_below(r, 3) : numfmt;
        if (f == 0)
            return (size_t)sprintf(out, "%" PRIu64, v);
        if (f == 1)
            return (size_t)sprintf(out, "#x%" PRIx64, v);
        return (size_t)sprintf(out, "#x%" PRIX64, v);
    }
    out[n++] = '(';
    for (int i = 0; i < t->nchild; i++) {
        n += ws(out + n, policy, r, i > 0 && !(t->child[i]->kind == 1 || t->child[i - 1]->kind == 1));
        n += render(t->child[i], out + n, policy, numfmt, r);
    }
    n += ws(out + n, policy, r, 0);
    out[n++] = ')';
    return n;
}

static int
same_tree(const struct tree *t, const struct sx_node *node)
{
    if (node == NULL)
        return 0;
    if (t->kind == 0) {
        if (t->atom < 3)
            return node->type == SXT_SYMBOL && strcmp(node->data.symbol, atoms_sym[t->atom]) == 0;
        return node->type == SXT_INTEGER && node->data.u64 == atoms_int[t->atom - 3];
    }
    for (int i = 0; i < t->nchild; i++) {
        if (node == NULL || node->type != SXT_PAIR || node->data.pair == NULL)
            return 0;
        if (!same_tree(t->child[i], node->data.pair->car))
            return 0;
        node = node->data.pair->cdr;
    }
    return node != NULL && node->type == SXT_EMPTY_LIST;
}

/* parse text both ways; expect success with tree t (NULL: just memory/leak checks) and position pos */
static void
parse_expect_tree(const char *text, size_t n, size_t exprlen, const struct tree *t, const char *key)
{
    for (int variant = 0; variant < 2; variant++) {
        char *in;
        size_t before = __sanitizer_get_current_allocated_bytes();
        struct sx_parse_result res;
        if (variant == 0) {
            in = vh_arena(n + 1);
            memcpy(in, text, n);
            in[n] = 0;
            res = sx_parse_string(in);
        } else {
            in = vh_arena(n);
            memcpy(in, text, n);
            res = sx_parse_stringn(in, n);
        }
        if (res.status != SXS_SUCCESS || res.node == NULL) {
            vh_fail("render-rejected", key, "variant=%s text='%.*s': status=%d node=%p", variant ? "stringn" : "string",
                    (int)n, text, res.status, (void *)res.node);
        } else {
            if (!same_tree(t, res.node))
                vh_fail("tree-differs", key, "variant=%s text='%.*s'", variant ? "stringn" : "string", (int)n, text);
            if (res.position != exprlen)
                vh_fail("position", key, "variant=%s text='%.*s': position %zu expected %zu",
                        variant ? "stringn" : "string", (int)n, text, res.position, exprlen);
        }
        sx_destroy(&res.node);
        size_t after = __sanitizer_get_current_allocated_bytes();
        if (after != before)
            vh_fail("leak", key, "text='%.*s': %zd octets still allocated after sx_destroy", (int)n, text,
                    (ssize_t)(after - before));
    }
}

static void
u_trees(uint64_t idx, void *arg)
{
    (void)arg;
    counts();
    const int maxd = 4, maxn = 6;
    uint64_t total = 0;
    for (int n = 1; n <= maxn; n++)
        total += C[n][maxd];
    uint64_t nunits = 64, stride = vh_tier ? 1 : 23;
    vh_rng r;
    vh_unit_rng(&r, "trees", idx);
    uint64_t n_done = 0;
    const uint64_t pick = vh_tier ? 0 : vh_below(&r, stride);
    for (uint64_t g = idx; g < total; g += nunits) {
        /* quick: every tree among the first 512, then every 23rd from a seeded offset */
        if (g >= 512 && (g / nunits) % stride != pick)
            continue;
        uint64_t x = g;
        int n;
        for (n = 1; n <= maxn; n++) {
            if (x < C[n][maxd])
                break;
            x -= C[n][maxd];
        }
        npool = 0;
        struct tree *t = unrank_tree(n, maxd, x);
        char text[400];
        for (int policy = 0; policy < 3; policy++)
            for (int numfmt = 0; numfmt < 4; numfmt++) {
                if (numfmt == 3 && policy != 2)
                    continue;
                vh_arena_reset();
                VH_CASE4(g, policy, numfmt, 0);
                size_t lead = policy == 0 ? 0 : ws(text, policy, &r, 0);
                size_t len = lead + render(t, text + lead, policy, numfmt, &r);
                parse_expect_tree(text, len, len, t, "gen=trees");
                /* trailing material after the expression must not matter */
                static const char *trail[] = { " )", " x", ")", "\n(", " #" };
                const char *tr = trail[(g + (uint64_t)policy) % 5];
                if (t->kind == 0 && tr[0] != ' ' && tr[0] != '\n' && tr[0] != ')' && tr[0] != '(')
                    tr = " #";
                size_t tl = strlen(tr);
                memcpy(text + len, tr, tl);
                parse_expect_tree(text, len + tl, len, t, "gen=trees-trailing");
                n_done += 2;
            }
        if (t->kind == 1 && t->nchild == 0)
            VH_COUNT("trees: the empty list itself");
        for (int i = 0; i < t->nchild; i++)
            if (t->child[i]->kind == 1 && t->child[i]->nchild == 0) {
                VH_COUNT("trees: empty list nested inside a list");
                break;
            }
        if (g % 5000 < nunits) {
            size_t len = render(t, text, 0, 1, &r);
            text[len] = 0;
            vh_sample("tree", "tree #%" PRIu64 " (%d nodes): %s", g, n, text);
        }
        vh_sig(0x20000000ull ^ g);
    }
    VH_COUNTN("trees rendered, parsed and compared", n_done);
    if (idx == 0)
        vh_countf("tree space: %" PRIu64 " trees with <= 6 nodes and depth <= 4", total);
}

/* ---- reference reader over the restricted alphabet ---- */
static const char ralpha[10] = { '(', ')', ' ', '\n', 'a', '1', '0', '#', 'x', 'F' };

struct rnode {
    int kind; /* 0 symbol 1 integer 2 list */
    char sym[48];
    uint64_t val;
    int nchild;
    struct rnode *child[24];
};
static struct rnode rpool[64];
static int nrpool;

static int
r_isdelim(char c)
{
    return c == '(' || c == ')' || c == ' ' || c == '\n' || c == '\t';
}
static int
r_issymch(char c)
{
    return isalpha((unsigned char)c) || isdigit((unsigned char)c) || c == '-' || c == '+';
}
static int
r_hexval(char c)
{
    if (c >= '0' && c <= '9')
        return c - '0';
    if (c >= 'a' && c <= 'f')
        return c - 'a' + 10;
    if (c >= 'A' && c <= 'F')
        return c - 'A' + 10;
    return -1;
}

/* returns node or NULL (error); *pos advanced just past the expression */
static struct rnode *
r_expr(const char *s, size_t n, size_t *pos, int depth)
{
    size_t i = *pos;
    while (i < n && (s[i] == ' ' || s[i] == '\n' || s[i] == '\t'))
        i++;
    if (i >= n || depth > 40)
        return NULL;
    struct rnode *node = &rpool[nrpool++];
    memset(node, 0, sizeof *node);
    char c = s[i];
    if (c == '(') {
        node->kind = 2;
        i++;
        for (;;) {
            while (i < n && (s[i] == ' ' || s[i] == '\n' || s[i] == '\t'))
                i++;
            if (i >= n)
                return NULL;
            if (s[i] == ')') {
                i++;
                break;
            }
            size_t p = i;
            struct rnode *ch = r_expr(s, n, &p, depth + 1);
            if (ch == NULL || node->nchild >= 24)
                return NULL;
            node->child[node->nchild++] = ch;
            i = p;
        }
    } else if (c == ')') {
        return NULL;
    } else if (isdigit((unsigned char)c)) {
        node->kind = 1;
        uint64_t v = 0;
        while (i < n && isdigit((unsigned char)s[i]))
            v = v * 10 + (uint64_t)(s[i++] - '0');
        if (i < n && !r_isdelim(s[i]))
            return NULL;
        node->val = v;
    } else if (c == '#') {
        if (!(i + 2 < n && s[i + 1] == 'x' && r_hexval(s[i + 2]) >= 0))
            return NULL;
        node->kind = 1;
        i += 2;
        uint64_t v = 0;
        while (i < n && r_hexval(s[i]) >= 0)
            v = v * 16 + (uint64_t)r_hexval(s[i++]);
        if (i < n && !r_isdelim(s[i]))
            return NULL;
        node->val = v;
    } else if (isalpha((unsigned char)c)) {
        node->kind = 0;
        size_t k = 0;
        while (i < n && r_issymch(s[i])) {
            if (k < sizeof node->sym - 1)
                node->sym[k++] = s[i];
            i++;
        }
        if (i < n && !r_isdelim(s[i]))
            return NULL;
    } else {
        return NULL;
    }
    *pos = i;
    return node;
}

static int
same_rnode(const struct rnode *t, const struct sx_node *node)
{
    if (node == NULL)
        return 0;
    if (t->kind == 0)
        return node->type == SXT_SYMBOL && strcmp(node->data.symbol, t->sym) == 0;
    if (t->kind == 1)
        return node->type == SXT_INTEGER && node->data.u64 == t->val;
    for (int i = 0; i < t->nchild; i++) {
        if (node == NULL || node->type != SXT_PAIR || node->data.pair == NULL)
            return 0;
        if (!same_rnode(t->child[i], node->data.pair->car))
            return 0;
        node = node->data.pair->cdr;
    }
    return node != NULL && node->type == SXT_EMPTY_LIST;
}

static void
check_string(const char *text, size_t n)
{
    nrpool = 0;
    size_t rpos = 0;
    struct rnode *ref = r_expr(text, n, &rpos, 0);
    if (ref)
        VH_COUNT("strings: reference reader accepts");
    else
        VH_COUNT("strings: reference reader rejects");
    for (int variant = 0; variant < 2; variant++) {
        char *in;
        size_t before = __sanitizer_get_current_allocated_bytes();
        struct sx_parse_result res;
        if (variant == 0) {
            in = vh_arena(n + 1);
            memcpy(in, text, n);
            in[n] = 0;
            res = sx_parse_string(in);
        } else {
            in = vh_arena(n);
            memcpy(in, text, n);
            res = sx_parse_stringn(in, n);
        }
        const char *vn = variant ? "variant=stringn" : "variant=string";
        if (ref) {
            if (res.status != SXS_SUCCESS || res.node == NULL)
                vh_fail("rejects-valid", vn, "text='%.*s' hex=%s: status=%d node=%p", (int)n, text, vh_hex(text, n),
                        res.status, (void *)res.node);
            else if (!same_rnode(ref, res.node))
                vh_fail("tree-differs", vn, "text='%.*s' hex=%s", (int)n, text, vh_hex(text, n));
            else if (res.position != rpos)
                vh_fail("position", vn, "text='%.*s' hex=%s: position %zu expected %zu", (int)n, text,
                        vh_hex(text, n), res.position, rpos);
        } else {
            if (res.status == SXS_SUCCESS || res.status == SXS_FOUND_LIST)
                vh_fail("accepts-invalid", vn, "text='%.*s' hex=%s: status=%d node=%p", (int)n, text, vh_hex(text, n),
                        res.status, (void *)res.node);
            if (res.node != NULL)
                vh_fail("tree-on-error", vn, "text='%.*s' hex=%s: status=%d with a tree", (int)n, text,
                        vh_hex(text, n), res.status);
        }
        sx_destroy(&res.node);
        size_t after = __sanitizer_get_current_allocated_bytes();
        if (after != before)
            vh_fail("leak", vn, "text='%.*s' hex=%s: %zd octets still allocated", (int)n, text, vh_hex(text, n),
                    (ssize_t)(after - before));
    }
}

static void
u_strings(uint64_t idx, void *arg)
{
    size_t n = (size_t)(intptr_t)arg;
    uint64_t total = 1;
    for (size_t i = 0; i < n; i++)
        total *= 10;
    uint64_t units = n <= 1 ? 1 : n == 2 ? 10 : 100;
    char s[12];
    uint64_t cnt = 0;
    for (uint64_t k = idx; k < total; k += units) {
        uint64_t x = k;
        for (size_t i = 0; i < n; i++) {
            s[i] = ralpha[x % 10];
            x /= 10;
        }
        if ((cnt & 63) == 0)
            vh_arena_reset();
        VH_CASE2(n, k);
        check_string(s, n);
        cnt++;
    }
    VH_COUNTN("strings over the 10-character alphabet", cnt);
    vh_countf("enumerated strings of length %zu", n);
    vh_sig(0x20100000ull ^ ((uint64_t)n << 32) ^ idx);
    if (idx == 7 && n == 4)
        vh_sample("string", "all strings of length 4 over '( ) space newline a 1 0 # x F', e.g. '(#xF'");
}

/* structured random strings: longer, biased towards well-formed input */
static void
u_random(uint64_t idx, void *arg)
{
    (void)arg;
    vh_rng r;
    vh_unit_rng(&r, "random", idx);
    char s[80];
    uint64_t cnt = vh_tier ? 60000 : 8000;
    for (uint64_t k = 0; k < cnt; k++) {
        size_t n = (size_t)vh_below(&r, 40);
        for (size_t i = 0; i < n; i++) {
            unsigned x = (unsigned)vh_below(&r, 100);
            s[i] = x < 22 ? '(' : x < 44 ? ')' : x < 60 ? ' ' : ralpha[vh_below(&r, 10)];
        }
        if ((k & 63) == 0)
            vh_arena_reset();
        VH_CASE2(idx, k);
        check_string(s, n);
    }
    VH_COUNTN("random structured strings", cnt);
    vh_sig(0x20200000ull ^ idx);
}

void
harness_run(void)
{
    for (uint64_t i = 0; i < 64; i++)
        vh_unit("trees", i, u_trees, NULL);
    size_t maxlen = vh_tier ? 7 : 5;
    for (size_t n = 0; n <= maxlen; n++) {
        char gen[32];
        snprintf(gen, sizeof gen, "strings-%zu", n);
        uint64_t units = n <= 1 ? 1 : n == 2 ? 10 : 100;
        for (uint64_t i = 0; i < units; i++)
            vh_unit(gen, i, u_strings, (void *)(intptr_t)n);
    }
    for (uint64_t i = 0; i < 32; i++)
        vh_unit("random", i, u_random, NULL);
    static const char *req[] = { "trees rendered, parsed and compared", "trees: the empty list itself",
                                 "trees: empty list nested inside a list", "strings: reference reader accepts",
                                 "strings: reference reader rejects", "enumerated strings of length 5",
                                 "random structured strings" };
    for (size_t i = 0; i < sizeof req / sizeof req[0]; i++)
        vh_require(req[i]);
}
