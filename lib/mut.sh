#!/bin/bash
# lib/mut.sh <patch-file | -e 'sed-expr' file | -r fix-commit-to-revert> -- <check id> [tier]
# Run a check against a scratch copy of /repo's working tree with a change applied.
set -u
M=/tmp/ufw-mut.$$
mkdir -p $M
trap 'rm -rf $M /verif/build/*-mut$$' EXIT
(cd /repo && tar cf - --exclude=_build --exclude=.git . ) | tar xf - -C $M
if [ "$1" = "-r" ]; then
  (cd /repo && git show "$2") | (cd $M && patch -R -p1 -s) || exit 3
  shift 2
elif [ "$1" = "-e" ]; then
  sed -i -e "$2" "$M/$3" || exit 3
  (cd /repo && diff -u "$3" "$M/$3" | head -20)
  shift 3
else
  (cd $M && patch -p1 -s < "$1") || exit 3
  shift 1
fi
[ "$1" = "--" ] && shift
id=$1; tier=${2:-quick}
VERIF_REPO=$M VERIF_WORK=-mut$$ /verif/check $id --tier $tier
echo "mutant rc=$?"
