"""Driver for the ufw runtime-monitoring checks.

build -> run sharded harness (one process per shard, one forked child per
unit) -> merge what the monitors observed -> known-findings matching ->
evidence file -> exit code (0 held, 1 unlisted violation, 2 inconclusive).
"""
import glob
import json
import os
import re
import shutil
import struct
import subprocess
import sys
import time
from concurrent.futures import ThreadPoolExecutor

VERIF = os.path.dirname(os.path.dirname(os.path.abspath(__file__)))
REPO = os.environ.get("VERIF_REPO", "/repo")
JOBS = int(os.environ.get("VERIF_JOBS", "16"))

LIB_SOURCES = [
    "src/allocator.c", "src/crc-16-arc.c", "src/endpoints/buffer.c",
    "src/endpoints/continuable-sink.c", "src/endpoints/core.c",
    "src/endpoints/instrumentable.c", "src/endpoints/posix.c",
    "src/endpoints/trivial.c", "src/length-prefix.c", "src/hexdump.c",
    "src/byte-buffer.c", "src/persistent-storage.c", "src/registers/core.c",
    "src/registers/utilities.c", "src/register-protocol.c", "src/rfc1055.c",
    "src/ring-buffer-iter.c", "src/variable-length-integer.c",
    "src/octet-ring.c", "src/sx.c", "src/compat/strlcpy.c", "src/compat/strlcat.c",
]

COMMON_DEFS = ["-DSYSTEM_ENDIANNESS_LITTLE", "-D_DEFAULT_SOURCE", "-DUFW_VERIF"]
WARN = ["-std=gnu99", "-Wall", "-Wno-unused-function", "-Wno-unused-parameter"]

CONFIGS = {
    "dbg-asan": dict(cc="gcc", swap=True, flags=[
        "-O1", "-g", "-fno-omit-frame-pointer", "-fsanitize=address,undefined",
        "-fno-sanitize-recover=all",
        "-fno-sanitize=nonnull-attribute,returns-nonnull-attribute"]),
    "rel-asan": dict(cc="gcc", swap=True, flags=[
        "-O2", "-g", "-DNDEBUG", "-fno-omit-frame-pointer", "-fsanitize=address"]),
    "noswap": dict(cc="gcc", swap=False, flags=[
        "-O1", "-g", "-fno-omit-frame-pointer", "-fsanitize=address,undefined",
        "-fno-sanitize-recover=all",
        "-fno-sanitize=nonnull-attribute,returns-nonnull-attribute"]),
    "msan": dict(cc="clang", swap=True, flags=[
        "-O1", "-g", "-fno-omit-frame-pointer", "-fsanitize=memory",
        "-fsanitize-memory-track-origins"]),
    "gcov": dict(cc="gcc", swap=True, flags=["-O0", "-g", "--coverage"]),
}

SAN_ENV = {
    "ASAN_OPTIONS": "abort_on_error=1:detect_leaks=0:detect_stack_use_after_return=1:"
                    "allocator_may_return_null=1:quarantine_size_mb=8:handle_abort=0:"
                    "max_allocation_size_mb=4096",
    "UBSAN_OPTIONS": "print_stacktrace=1:halt_on_error=1:abort_on_error=1",
    "MSAN_OPTIONS": "abort_on_error=1:halt_on_error=1",
}


class Inconclusive(Exception):
    pass


# ---------------------------------------------------------------------------
# toolchain.h: the only generated header; produced from the working tree's
# template with the values cmake finds on this image.

TOOLCHAIN_ZERO = {
    "UFW_CC_HAS_Wasm", "UFW_CC_HAS_Wnewline_eof", "UFW_CC_HAS_Wshift_sign_overflow",
    "UFW_CC_HAS_Wused_but_marked_unused", "UFW_CXX_HAS_Wasm", "UFW_CXX_HAS_Wnewline_eof",
    "UFW_CXX_HAS_Wshift_sign_overflow", "UFW_CXX_HAS_Wused_but_marked_unused",
    "UFW_TOOLCHAIN_FEATURE_SANITIZE_ADDRESS",
    "UFW_TOOLCHAIN_FEATURE_SANITIZE_UNDEFINED_BEHAVIOUR",
    "UFW_COMPAT_HAVE_STRLCAT", "UFW_COMPAT_HAVE_STRLCPY",
}
TOOLCHAIN_VALUES = {"UFW_PRIVATE_ERRNO_OFFSET": "16384"}


def gen_toolchain_h(gendir):
    src = os.path.join(REPO, "include/ufw/toolchain.h.in")
    out = os.path.join(gendir, "include/ufw/toolchain.h")
    os.makedirs(os.path.dirname(out), exist_ok=True)
    lines = []
    with open(src) as f:
        for line in f:
            m = re.match(r"#cmakedefine01\s+(\w+)", line)
            if m:
                v = 0 if m.group(1) in TOOLCHAIN_ZERO else 1
                lines.append("#define %s %d\n" % (m.group(1), v))
                continue
            m = re.match(r"#cmakedefine\s+(\w+)\s*(.*)", line)
            if m:
                if m.group(1) in TOOLCHAIN_VALUES:
                    lines.append("#define %s %s\n" % (m.group(1), TOOLCHAIN_VALUES[m.group(1)]))
                else:
                    lines.append("/* #undef %s */\n" % m.group(1))
                continue
            lines.append(line)
    with open(out, "w") as f:
        f.writelines(lines)
    return os.path.join(gendir, "include")


# ---------------------------------------------------------------------------

def run(cmd, **kw):
    return subprocess.run(cmd, stdout=subprocess.PIPE, stderr=subprocess.STDOUT, text=True, **kw)


def build(workdir, cfgname, harness_srcs, extra_flags=(), lib_sources=None, out="harness"):
    """Compile the library sources of /repo's working tree plus the harness."""
    cfg = CONFIGS[cfgname]
    bdir = os.path.join(workdir, cfgname)
    shutil.rmtree(bdir, ignore_errors=True)
    os.makedirs(bdir)
    geninc = gen_toolchain_h(bdir)
    defs = list(COMMON_DEFS)
    if cfg["swap"]:
        defs.append("-DUFW_USE_BUILTIN_SWAP")
    inc = ["-I" + os.path.join(REPO, "include"), "-I" + geninc, "-I" + os.path.join(VERIF, "harness")]
    base = [cfg["cc"]] + WARN + cfg["flags"] + defs + inc + list(extra_flags)
    jobs = []
    objs = []
    srcs = [(os.path.join(REPO, s), "lib") for s in (LIB_SOURCES if lib_sources is None else lib_sources)]
    srcs += [(os.path.join(VERIF, "harness", s), "h") for s in harness_srcs]
    srcs.append((os.path.join(VERIF, "harness/common/vh.c"), "h"))
    for i, (s, kind) in enumerate(srcs):
        if not os.path.exists(s):
            raise Inconclusive("source missing: " + s)
        o = os.path.join(bdir, "%02d_%s.o" % (i, os.path.basename(s)[:-2]))
        objs.append(o)
        jobs.append(base + ["-c", s, "-o", o])
    with ThreadPoolExecutor(max_workers=JOBS) as ex:
        results = list(ex.map(run, jobs))
    for j, r in zip(jobs, results):
        if r.returncode != 0:
            raise Inconclusive("compile failed: %s\n%s" % (" ".join(j), r.stdout[-3000:]))
    exe = os.path.join(bdir, out)
    r = run([cfg["cc"]] + cfg["flags"] + objs + ["-o", exe, "-lm"])
    if r.returncode != 0:
        raise Inconclusive("link failed:\n" + r.stdout[-3000:])
    return exe


# ---------------------------------------------------------------------------
# sanitizer / crash triage

FRAME_RE = re.compile(r"#\d+ 0x[0-9a-f]+ in (\S+) (\S+)")


def triage_errfile(path):
    """Return flat witness fields for a crashed unit."""
    try:
        with open(path, errors="replace") as f:
            txt = f.read()
    except OSError:
        return {"signal": "UNKNOWN"}, ""
    fields = {}
    m = re.search(r"(?:ERROR|WARNING): (AddressSanitizer|LeakSanitizer|MemorySanitizer): ([\w-]+)", txt)
    if m:
        fields["signal"] = {"AddressSanitizer": "ASAN", "LeakSanitizer": "LSAN", "MemorySanitizer": "MSAN"}[m.group(1)]
        fields["kind"] = m.group(2)
        am = re.search(r"\n(READ|WRITE) of size", txt)
        if am:
            fields["access"] = am.group(1)
    else:
        m = re.search(r"([^\s:]+):(\d+):(\d+): runtime error: ([^\n]*)", txt)
        if m:
            fields["signal"] = "UBSAN"
            msg = re.sub(r"0x[0-9a-f]+|-?\d+", "N", m.group(4))
            fields["kind"] = re.sub(r"[^A-Za-z0-9]+", "-", msg).strip("-")[:60]
            fields["file"] = os.path.basename(m.group(1))
        else:
            m = re.search(r"([^\s:]+):(\d+): (\w+): Assertion `(.*)' failed", txt)
            if m:
                fields["signal"] = "SIGABRT"
                fields["kind"] = "assert"
                fields["func"] = m.group(3)
                fields["file"] = os.path.basename(m.group(1))
    if "func" not in fields:
        # first frame that lies in the repository's sources
        for fm in FRAME_RE.finditer(txt):
            fn, loc = fm.group(1), fm.group(2)
            if loc.startswith(REPO.rstrip("/") + "/") or loc.startswith(os.path.realpath(REPO) + "/"):
                fields["func"] = fn
                fields["file"] = os.path.basename(loc.split(":")[0])
                break
        else:
            for fm in FRAME_RE.finditer(txt):
                if "/harness/" in fm.group(2):
                    fields["func"] = "harness:" + fm.group(1)
                    break
    return fields, txt


# ---------------------------------------------------------------------------
# known findings

def load_known(prop):
    known = []
    path = os.path.join(VERIF, "known-findings.txt")
    if not os.path.exists(path):
        return known
    with open(path) as f:
        for line in f:
            line = line.strip()
            if not line.startswith("known:"):
                continue
            body, _, text = line[len("known:"):].partition(" -- ")
            toks = dict(t.split("=", 1) for t in body.split() if "=" in t)
            if toks.pop("property", None) != prop:
                continue
            known.append((toks, text.strip() or body.strip()))
    return known


def match_known(known, record):
    for toks, text in known:
        if all(record.get(k) == v for k, v in toks.items()):
            return text
    return None


def key_fields(key):
    return dict(t.split("=", 1) for t in key.split() if "=" in t)


# ---------------------------------------------------------------------------

class RunResult:
    def __init__(self):
        self.counters = {}
        self.requires = set()
        self.samples = []
        self.viols = {}      # (check,key) -> dict(count, first)
        self.crashes = []    # dicts
        self.timeouts = []
        self.broken = []
        self.cases = 0
        self.units = 0
        self.sigs = set()
        self.sig_overflow = False
        self.wall = 0.0
        self.shards_done = 0


def run_harness(exe, outdir, tier, seed, res, nshards=None, extra_args=(), unit_timeout=300, cfgname=""):
    nshards = nshards or JOBS
    os.makedirs(outdir, exist_ok=True)
    env = dict(os.environ)
    env.update(SAN_ENV)
    env["VERIF_SEED"] = str(seed)
    procs = []
    t0 = time.time()
    for s in range(nshards):
        cmd = [exe, "--tier", tier, "--shard", "%d/%d" % (s, nshards), "--out", outdir,
               "--unit-timeout", str(unit_timeout)] + list(extra_args)
        out = open(os.path.join(outdir, "out.%d" % s), "w")
        err = open(os.path.join(outdir, "stderr.%d" % s), "w")
        procs.append((subprocess.Popen(cmd, stdout=out, stderr=err, env=env), out, err, s))
    for p, out, err, s in procs:
        rc = p.wait()
        out.close()
        err.close()
        done = parse_output(os.path.join(outdir, "out.%d" % s), res, cfgname)
        if rc != 0 or not done:
            tail = ""
            try:
                tail = open(os.path.join(outdir, "stderr.%d" % s), errors="replace").read()[-1500:]
            except OSError:
                pass
            res.broken.append("shard %d of %s exited rc=%s done=%s: %s" % (s, cfgname, rc, done, tail))
        else:
            res.shards_done += 1
    res.wall += time.time() - t0


def parse_output(path, res, cfgname):
    done = False
    with open(path, errors="replace") as f:
        for line in f:
            line = line.strip()
            if not line.startswith("{"):
                continue
            try:
                ev = json.loads(line)
            except ValueError:
                res.broken.append("unparsable harness line: " + line[:200])
                continue
            t = ev.get("t")
            if t == "count":
                res.counters[ev["name"]] = res.counters.get(ev["name"], 0) + ev["n"]
            elif t == "require":
                res.requires.add(ev["name"])
            elif t == "sample":
                res.samples.append(ev)
            elif t == "viol":
                k = (ev["check"], ev["key"])
                d = res.viols.setdefault(k, {"count": 0, "first": None})
                if d["first"] is None:
                    ev["config"] = cfgname
                    d["first"] = ev
            elif t == "violsum":
                k = (ev["check"], ev["key"])
                d = res.viols.setdefault(k, {"count": 0, "first": None})
                d["count"] += ev["n"]
            elif t == "crash":
                ev["config"] = cfgname
                res.crashes.append(ev)
            elif t == "timeout":
                ev["config"] = cfgname
                res.timeouts.append(ev)
            elif t == "broken":
                res.broken.append("%s: %s" % (ev.get("unit", ""), ev.get("msg", "")))
            elif t == "done":
                done = True
                res.cases += ev["cases"]
                res.units += ev["units"]
                res.sig_overflow |= bool(ev["sig_overflow"])
                try:
                    with open(ev["sigfile"], "rb") as sf:
                        data = sf.read()
                    res.sigs.update(struct.unpack("<%dQ" % (len(data) // 8), data))
                except OSError:
                    pass
    return done


def rerun_unit(exe, outdir, tier, seed, unit, unit_timeout):
    """Run one unit alone (used to confirm a wall-clock timeout)."""
    env = dict(os.environ)
    env.update(SAN_ENV)
    env["VERIF_SEED"] = str(seed)
    d = os.path.join(outdir, "rerun")
    os.makedirs(d, exist_ok=True)
    r = run([exe, "--tier", tier, "--out", d, "--unit", unit, "--unit-timeout", str(unit_timeout)], env=env)
    return '"t":"timeout"' in r.stdout


# ---------------------------------------------------------------------------

def main_check(spec, argv):
    import argparse
    ap = argparse.ArgumentParser()
    ap.add_argument("prop")
    ap.add_argument("--tier", default=os.environ.get("VERIF_TIER", "quick"), choices=["quick", "thorough"])
    ap.add_argument("--replay")
    ap.add_argument("--jobs", type=int, default=JOBS)
    ap.add_argument("--keep", action="store_true")
    args = ap.parse_args(argv)
    prop = spec["id"]
    tier = args.tier
    seed = int(os.environ.get("VERIF_SEED", "1") or "1")
    t0 = time.time()
    workdir = os.path.join(VERIF, "build", "%s-%s%s" % (prop, tier if not args.replay else "replay",
                                                        os.environ.get("VERIF_WORK", "")))
    spec = dict(spec)
    spec["_workdir"] = workdir
    shutil.rmtree(workdir, ignore_errors=True)
    os.makedirs(workdir)

    if args.replay:
        return do_replay(spec, args.replay, workdir)

    configs = spec["configs"][tier]
    res = RunResult()
    per_config = {}
    exes = {}
    try:
        for cfgname in configs:
            exe = build(workdir, cfgname, spec["sources"], spec.get("extra_flags", ()))
            exes[cfgname] = exe
            before = dict(res.counters)
            cases_before = res.cases
            # the first configuration carries the full enumeration; the others repeat it, thinned where a
            # harness honours --light (only the 2^32-value sweeps do)
            extra = ["--light"] if (tier == "thorough" and cfgname != configs[0]) else []
            # quick tier: the optimised NDEBUG build repeats every QUICK_NDEBUG_SLICE-th unit (selected by hash) -
            # enough to notice what only exists in that configuration (work done inside assert(), code the
            # optimiser may drop)
            if tier == "quick" and cfgname == "rel-asan":
                extra = ["--slice", str(spec.get("quick_ndebug_slice", 4))]
            # clang MemorySanitizer build (library and harness are plain C, everything is instrumented): every
            # fourth unit; reports values the library leaves uninitialised once a harness oracle looks at them,
            # and library branches on uninitialised data
            if cfgname == "msan" and os.environ.get("VERIF_MSAN_FULL") != "1":
                extra = ["--light", "--slice", "4"]
            run_harness(exe, os.path.join(workdir, cfgname, "out"), tier, seed, res, nshards=args.jobs,
                        extra_args=extra, unit_timeout=spec.get("unit_timeout", 300), cfgname=cfgname)
            per_config[cfgname] = {"cases": res.cases - cases_before}
        for hook in spec.get("post", []):
            hook(spec, workdir, tier, seed, res, per_config)
        fz = fuzz_stage(spec, workdir, tier, seed, res, args.jobs)
        if fz:
            spec["_fuzz"] = fz
            per_config["fuzz"] = {"cases": fz["executions"]}
        if os.environ.get("VERIF_NO_GCOV") != "1" and os.path.realpath(REPO) == "/repo":
            spec["_reach"] = gcov_reach(spec, workdir, seed, args.jobs)
    except Inconclusive as e:
        print("INCONCLUSIVE property=%s %s" % (prop, e))
        write_evidence(spec, tier, seed, res, per_config, time.time() - t0, 0, inconclusive=str(e))
        return 2

    # wall-clock timeouts: re-run once alone; a unit that does not finish
    # twice is reported as a hang, otherwise the run is inconclusive.
    hangs = []
    inconclusive = list(res.broken)
    for ev in res.timeouts:
        again = rerun_unit(exes[ev["config"]], os.path.join(workdir, ev["config"], "out"), tier, seed, ev["unit"],
                           spec.get("unit_timeout", 300))
        if again:
            hangs.append(ev)
        else:
            inconclusive.append("unit %s hit the wall-clock watchdog once, finished when re-run alone" % ev["unit"])

    missing = [n for n in sorted(res.requires) if res.counters.get(n, 0) == 0]
    for n in missing:
        inconclusive.append("required observation class never seen: " + n)
    if res.cases == 0:
        inconclusive.append("no case executed")

    # --- violations -> records
    records = []
    for (check, key), d in sorted(res.viols.items()):
        rec = {"check": check}
        rec.update(key_fields(key))
        records.append((rec, d["first"], d["count"]))
    for ev in res.crashes:
        fields, txt = triage_errfile(ev["errfile"])
        rec = {"check": "crash", "gen": ev["unit"].split(":")[0]}
        rec.update(fields)
        if "signal" not in rec:
            rec["signal"] = "SIG%d" % ev["sig"] if ev["sig"] else "EXIT%d" % ev["exit"]
        ev["report"] = txt[:6000]
        records.append((rec, ev, 1))
    for ev in hangs:
        rec = {"check": "crash", "gen": ev["unit"].split(":")[0], "signal": "TIMEOUT", "kind": "hang"}
        records.append((rec, ev, 1))

    known = load_known(prop)
    replay_dir = os.path.join(workdir, "replay")
    os.makedirs(replay_dir, exist_ok=True)
    printed_known = set()
    unlisted = {}
    for rec, first, count in records:
        text = match_known(known, rec)
        if text is not None:
            if text not in printed_known:
                printed_known.add(text)
                print("KNOWN-FINDING: property=%s %s" % (prop, text))
            continue
        sig = json.dumps(rec, sort_keys=True)
        if sig in unlisted:
            unlisted[sig]["count"] += count
            continue
        n = len(unlisted)
        path = os.path.join(replay_dir, "%d.json" % n)
        with open(path, "w") as f:
            json.dump({"property": prop, "harness": spec["sources"], "tier": tier, "seed": seed,
                       "config": (first or {}).get("config"), "unit": (first or {}).get("unit"),
                       "record": rec, "witness": first, "count": count}, f, indent=1)
        unlisted[sig] = {"count": count, "path": path, "rec": rec, "first": first}
    nviol = 0
    for sig, u in unlisted.items():
        nviol += 1
        if nviol <= 25:
            msg = (u["first"] or {}).get("msg", "")
            print("VIOLATION property=%s replay=%s  [%s] x%d %s" % (
                prop, u["path"], " ".join("%s=%s" % kv for kv in sorted(u["rec"].items())), u["count"], msg[:300]))
    wall = time.time() - t0
    write_evidence(spec, tier, seed, res, per_config, wall, nviol,
                   inconclusive="; ".join(inconclusive) if inconclusive else None,
                   known=sorted(printed_known))
    if nviol:
        print("RESULT property=%s tier=%s violated: %d distinct violation keys" % (prop, tier, nviol))
        return 1
    if inconclusive:
        for m in inconclusive[:10]:
            print("INCONCLUSIVE property=%s %s" % (prop, m[:600]))
        return 2
    print("RESULT property=%s tier=%s held on %d cases in %d units (%d distinct signatures), configs=%s, %.1fs" % (
        prop, tier, res.cases, res.units, len(res.sigs), ",".join(configs), wall))
    if not args.keep:
        for cfgname in list(configs) + ["gcov", "fuzz"]:
            shutil.rmtree(os.path.join(workdir, cfgname), ignore_errors=True)
    return 0


FUZZ_FLAGS = ["-O1", "-g", "-fno-omit-frame-pointer", "-fsanitize=fuzzer,address,undefined",
              "-fno-sanitize-recover=all", "-fno-sanitize=nonnull-attribute,returns-nonnull-attribute"]


def fuzz_stage(spec, workdir, tier, seed, res, jobs):
    """Coverage-guided stage (libFuzzer, clang): the target carries the same monitors as the harness; an oracle
    disagreement aborts with a VH-VIOLATION line. Bounded by -runs, seeded by VERIF_SEED."""
    fz = spec.get("fuzz")
    if not fz:
        return None
    runs = fz["runs"][tier]
    if runs <= 0:
        return None
    fdir = os.path.join(workdir, "fuzz")
    exe = build_fuzz(fz, fdir)
    env = dict(os.environ)
    env.update(SAN_ENV)
    return run_fuzz(fz, fdir, exe, env, runs, seed, res, jobs, workdir)


def build_fuzz(fz, fdir):
    shutil.rmtree(fdir, ignore_errors=True)
    os.makedirs(fdir)
    geninc = gen_toolchain_h(fdir)
    inc = ["-I" + os.path.join(REPO, "include"), "-I" + geninc, "-I" + os.path.join(VERIF, "harness")]
    defs = COMMON_DEFS + ["-DUFW_USE_BUILTIN_SWAP", "-DVH_FUZZ"]
    srcs = [os.path.join(REPO, x) for x in LIB_SOURCES] + [os.path.join(VERIF, "harness", fz["target"]),
                                                         os.path.join(VERIF, "harness/common/vh.c")]
    cmds, objs = [], []
    for i, src in enumerate(srcs):
        o = os.path.join(fdir, "%02d.o" % i)
        objs.append(o)
        cmds.append(["clang"] + WARN + FUZZ_FLAGS + defs + inc + ["-c", src, "-o", o])
    with ThreadPoolExecutor(max_workers=JOBS) as ex:
        rs = list(ex.map(run, cmds))
    for c, r in zip(cmds, rs):
        if r.returncode != 0:
            raise Inconclusive("fuzz target compile failed: %s\n%s" % (" ".join(c), r.stdout[-2000:]))
    exe = os.path.join(fdir, "fz")
    r = run(["clang"] + FUZZ_FLAGS + objs + ["-o", exe, "-lm"])
    if r.returncode != 0:
        raise Inconclusive("fuzz target link failed:\n" + r.stdout[-2000:])
    return exe


def run_fuzz(fz, fdir, exe, env, runs, seed, res, jobs, workdir):
    seeddir = os.path.join(fdir, "seeds")
    os.makedirs(seeddir)
    env2 = dict(env)
    env2["FZ_GEN_CORPUS"] = seeddir
    run([exe], env=env2)
    nseeds = len(os.listdir(seeddir))
    procs = []
    t0 = time.time()
    per = max(1, runs // jobs)
    for j in range(jobs):
        cdir = os.path.join(fdir, "corpus%d" % j)
        shutil.copytree(seeddir, cdir)
        adir = os.path.join(fdir, "art%d" % j)
        os.makedirs(adir)
        log = open(os.path.join(fdir, "log%d" % j), "w")
        cmd = [exe, "-runs=%d" % per, "-seed=%d" % (seed * 1000 + j + 1), "-max_len=%d" % fz.get("max_len", 600),
               "-artifact_prefix=" + adir + "/", "-print_final_stats=1", "-timeout=60", "-use_value_profile=1", cdir]
        procs.append((subprocess.Popen(cmd, stdout=log, stderr=subprocess.STDOUT, env=env), log, j))
    execs = cov = ft = 0
    crashes = []
    for p, log, j in procs:
        p.wait()
        log.close()
        txt = open(os.path.join(fdir, "log%d" % j), errors="replace").read()
        m = re.findall(r"stat::number_of_executed_units:\s*(\d+)", txt)
        if m:
            execs += int(m[-1])
        m = re.findall(r"cov: (\d+) ft: (\d+)", txt)
        if m:
            cov = max(cov, int(m[-1][0]))
            ft = max(ft, int(m[-1][1]))
        for a in sorted(os.listdir(os.path.join(fdir, "art%d" % j))):
            crashes.append((os.path.join(fdir, "art%d" % j, a), txt))
    for path, txt in crashes[:20]:
        rec = {"check": "fuzz", "gen": os.path.basename(fz["target"])}
        m = re.search(r"VH-VIOLATION check=(\S+) key=(.*?) msg=(.*)", txt)
        if m:
            rec["oracle"] = m.group(1)
            rec.update(key_fields(m.group(2)))
            msg = m.group(3)[:400]
        else:
            fields, _ = triage_text(txt)
            rec.update(fields)
            msg = ""
        if os.path.basename(path).startswith("timeout"):
            rec["signal"] = "TIMEOUT"
        k = ("fuzz", " ".join("%s=%s" % kv for kv in sorted(rec.items()) if kv[0] != "check"))
        d = res.viols.setdefault(k, {"count": 0, "first": None})
        d["count"] += 1
        if d["first"] is None:
            keep = os.path.join(workdir, "replay", "fuzz-" + os.path.basename(path))
            os.makedirs(os.path.dirname(keep), exist_ok=True)
            shutil.copy(path, keep)
            d["first"] = {"config": "fuzz", "unit": None, "artifact": keep, "msg": msg + " (libFuzzer artifact %s)" % keep}
    res.cases += execs
    return {"target": fz["target"], "executions": execs, "jobs": jobs, "seed_corpus_files": nseeds,
            "final_coverage_edges": cov, "final_features": ft, "crash_artifacts": len(crashes),
            "wall_s": round(time.time() - t0, 1)}


def triage_text(txt):
    import tempfile
    with tempfile.NamedTemporaryFile("w", suffix=".err", delete=False) as f:
        f.write(txt)
        name = f.name
    try:
        return triage_errfile(name)
    finally:
        os.unlink(name)


def gcov_reach(spec, workdir, seed, jobs):
    """Line/function reach of the property's anchored files, measured by running a slice of the quick workload on a
    gcc --coverage build. Evidence only: never influences the verdict."""
    import gzip
    anchors = spec.get("anchor_files") or []
    if not anchors:
        return None
    try:
        exe = build(workdir, "gcov", spec["sources"], list(spec.get("extra_flags", ())) + ["-DVH_GCOV"])
    except Inconclusive as e:
        return {"error": str(e)[:300]}
    bdir = os.path.join(workdir, "gcov")
    res = RunResult()
    run_harness(exe, os.path.join(bdir, "out"), "quick", seed, res, nshards=jobs,
                extra_args=["--slice", str(spec.get("gcov_slice", 8))], cfgname="gcov")
    out = {}
    objs = sorted(glob.glob(os.path.join(bdir, "*.gcda")))
    if not objs:
        return {"error": "no coverage data written"}
    r = run(["gcov", "-j", "-b"] + [os.path.basename(o) for o in objs], cwd=bdir)
    per_file = {}
    for jf in glob.glob(os.path.join(bdir, "*.gcov.json.gz")):
        try:
            with gzip.open(jf, "rt") as f:
                data = json.load(f)
        except (OSError, ValueError):
            continue
        for fe in data.get("files", []):
            name = fe["file"]
            rel = None
            for a in anchors:
                if name.endswith("/" + a) or name == a:
                    rel = a
            if rel is None:
                continue
            d = per_file.setdefault(rel, {"lines": {}, "funcs": {}})
            for ln in fe.get("lines", []):
                d["lines"][ln["line_number"]] = d["lines"].get(ln["line_number"], 0) + ln["count"]
            for fn in fe.get("functions", []):
                d["funcs"][fn["name"]] = d["funcs"].get(fn["name"], 0) + fn["execution_count"]
    for rel, d in sorted(per_file.items()):
        nl = len(d["lines"])
        hit = sum(1 for c in d["lines"].values() if c > 0)
        never = sorted(n for n, c in d["funcs"].items() if c == 0)
        out[rel] = {"lines_instrumented": nl, "lines_executed": hit,
                    "functions": len(d["funcs"]), "functions_executed": len(d["funcs"]) - len(never),
                    "functions_never_called": never[:40]}
    return {"method": "gcc --coverage build, every %dth unit of the quick workload" % spec.get("gcov_slice", 8),
            "cases": res.cases, "files": out}


def write_evidence(spec, tier, seed, res, per_config, wall, nviol, inconclusive=None, known=None):
    prop = spec["id"]
    samples = []
    seen = {}
    for ev in res.samples:
        c = seen.get(ev["cls"], 0)
        if c >= 1 and len(samples) >= 12:
            continue
        if c >= 2:
            continue
        seen[ev["cls"]] = c + 1
        samples.append({"class": ev["cls"], "unit": ev["unit"], "case": ev["s"]})
        if len(samples) >= 40:
            break
    cov = {
        "evaluations": int(res.cases),
        "distinct_nontrivial": len(res.sigs),
        "rule": spec["rule"],
        "samples": samples,
        "units": res.units,
        "observed": {k: res.counters[k] for k in sorted(res.counters)},
        "required_classes": sorted(res.requires),
        "configs": per_config,
        "sanitizer_reports": len(res.crashes),
        "oracle_disagreements": int(sum(d["count"] for d in res.viols.values())),
        "signature_table_overflow": res.sig_overflow,
        "known_findings_matched": known or [],
    }
    if spec.get("exhaustive", {}).get(tier):
        cov["exhaustive"] = True
        cov["exhaustive_scope"] = spec["exhaustive"][tier]
    for k, v in spec.get("extra_coverage", {}).items():
        cov[k] = v
    if spec.get("_fuzz"):
        cov["coverage_guided_stage"] = spec["_fuzz"]
    if spec.get("_reach"):
        cov["reach_of_anchored_files"] = spec["_reach"]
    if inconclusive:
        cov["inconclusive"] = inconclusive
    ev = {
        "property_id": prop,
        "tier": tier,
        "seed": seed,
        "level": spec["level"],
        "coverage": cov,
        "assumptions": spec["assumptions"],
        "wall_s": round(wall, 2),
        "violations": nviol,
    }
    os.makedirs(os.path.join(VERIF, "evidence"), exist_ok=True)
    evpath = os.path.join(VERIF, "evidence", "%s.json" % prop)
    if os.path.realpath(REPO) != "/repo" or os.environ.get("VERIF_DEV_RUN") == "1":
        # a scratch tree (mutant self-test) or a development run in a configuration of its own: never touch the
        # committed evidence
        evpath = os.path.join(spec["_workdir"], "evidence.json")
    with open(evpath, "w") as f:
        json.dump(ev, f, indent=1)
        f.write("\n")


def do_replay(spec, path, workdir):
    with open(path) as f:
        rp = json.load(f)
    cfgname = rp.get("config") or spec["configs"]["quick"][0]
    art = (rp.get("witness") or {}).get("artifact")
    if cfgname == "fuzz" and art:
        try:
            exe = build_fuzz(spec["fuzz"], os.path.join(workdir, "fuzz"))
        except Inconclusive as e:
            print("INCONCLUSIVE %s" % e)
            return 2
        env = dict(os.environ)
        env.update(SAN_ENV)
        r = subprocess.run([exe, art], env=env, stdout=subprocess.PIPE, stderr=subprocess.STDOUT, text=True, errors="replace")
        print(r.stdout[-3500:])
        reproduced = r.returncode != 0
        print("replay: %s (libFuzzer target on %s, exit status %s)" % ("REPRODUCED" if reproduced else "not reproduced", art, r.returncode))
        if reproduced:
            print("VIOLATION property=%s replay=%s" % (spec["id"], path))
        return 1 if reproduced else 0
    try:
        exe = build(workdir, cfgname, spec["sources"], spec.get("extra_flags", ()))
    except Inconclusive as e:
        print("INCONCLUSIVE %s" % e)
        return 2
    env = dict(os.environ)
    env.update(SAN_ENV)
    env["VERIF_SEED"] = str(rp["seed"])
    out = os.path.join(workdir, "out")
    os.makedirs(out, exist_ok=True)
    cmd = [exe, "--tier", rp["tier"], "--out", out, "--verbose", "--nofork"]
    if rp.get("unit"):
        cmd += ["--unit", rp["unit"]]
    print("replaying: VERIF_SEED=%s %s" % (rp["seed"], " ".join(cmd)))
    r = subprocess.run(cmd, env=env, stdout=subprocess.PIPE, stderr=subprocess.STDOUT, text=True, errors="replace")
    viols = [l for l in r.stdout.splitlines() if l.startswith('{"t":"viol"')]
    want = rp.get("record", {})
    shown = 0
    for l in viols:
        try:
            ev = json.loads(l)
        except ValueError:
            continue
        if want.get("check") in (None, "crash", ev.get("check")) and shown < 5:
            print("  [%s %s] case=%s %s" % (ev.get("check"), ev.get("key"), ev.get("case"), ev.get("msg", "")[:600]))
            shown += 1
    if r.returncode != 0:
        print("\n".join(l for l in r.stdout.splitlines() if not l.startswith("{"))[-3500:])
    reproduced = r.returncode != 0 or bool(viols)
    print("replay: %s (harness exit status %s, %d oracle disagreements)" % (
        "REPRODUCED" if reproduced else "not reproduced", r.returncode, len(viols)))
    if reproduced:
        print("VIOLATION property=%s replay=%s" % (spec["id"], path))
    return 1 if reproduced else 0
