#!/usr/bin/env python3
"""Regenerate MANIFEST.json from the check registry."""
import json
import os
import sys

sys.path.insert(0, os.path.dirname(os.path.abspath(__file__)))
from checks import CHECKS, MANIFEST_TEXT  # noqa: E402

VERIF = os.path.dirname(os.path.dirname(os.path.abspath(__file__)))
props = [json.loads(l) for l in open(os.path.join(VERIF, "properties.jsonl"))]
checks = []
na = []
for p in props:
    pid = p["id"]
    if pid in CHECKS and pid in MANIFEST_TEXT:
        c = CHECKS[pid]
        t = MANIFEST_TEXT[pid]
        checks.append({
            "property_id": pid,
            "quick_cmd": "./check %s --tier quick" % pid,
            "thorough_cmd": "./check %s --tier thorough" % pid,
            "evidence_file": "/verif/evidence/%s.json" % pid,
            "replay_cmd_template": "./check %s --replay {path}" % pid,
            "engine": "vh",
            "level_claimed": {"category": c["level"], "text": t["text"], "design_ref": t.get("ref", "DESIGN.md section 7")},
            "level_note": t["note"],
            "technique": t["technique"],
        })
    else:
        na.append({"property_id": pid, "reason": "check not built yet in this round (planned in DESIGN.md section 7); nothing is claimed for it"})
m = {
    "version": 1,
    "setup_cmd": "python3 lib/setup.py",
    "hooks": {
        "guard": "UFW_VERIF",
        "enable": "harness builds compile /repo/src/*.c directly with -DUFW_VERIF (no guarded code exists in /repo: all observation is at the public API and through harness-supplied callbacks)",
        "baseline_off_cmd": "cmake -G Ninja -B /repo/_build -S /repo && cmake --build /repo/_build && ctest --test-dir /repo/_build -j8 --timeout 900",
        "source_commits": [],
        "add_only": True,
    },
    "engines": [{
        "name": "vh",
        "path": "/verif/check",
        "serves_properties": [c["property_id"] for c in checks],
        "kind_free_text": "runtime monitoring: real ufw code compiled from /repo's working tree with gcc ASan+UBSan (poisoned-arena buffers), driven by enumerated/seeded workloads in forked units; oracles are independent reference models and event-log checkers in /verif/harness",
    }],
    "checks": checks,
    "not_applicable": na,
    "notes": "exit 0 = held on everything explored (KNOWN-FINDING lines list recorded defects), 1 = VIOLATION, 2 = inconclusive/harness failure. VERIF_SEED seeds all random parts; VERIF_REPO may point the build at another tree (used for mutants in scratch worktrees).",
}
with open(os.path.join(VERIF, "MANIFEST.json"), "w") as f:
    json.dump(m, f, indent=1)
    f.write("\n")
print("MANIFEST.json: %d checks, %d not_applicable" % (len(checks), len(na)))
