#!/usr/bin/env python3
"""Development aid: run the quick workload of the given checks (default: all) in the MemorySanitizer configuration
only. The registered commands use MSan in the thorough tier; this catches uninitialised reads - in the library or in
a harness that was just edited - without waiting for a thorough run.  usage: lib/msan_quick.py [C01 C02 ...]"""
import os, sys
sys.path.insert(0, os.path.dirname(os.path.abspath(__file__)))
import checks, vdriver
os.environ["VERIF_NO_GCOV"] = "1"
os.environ["VERIF_WORK"] = "-msanq"
os.environ["VERIF_DEV_RUN"] = "1"
os.environ["VERIF_MSAN_FULL"] = "1"
rc = 0
for cid in (sys.argv[1:] or sorted(checks.CHECKS)):
    spec = dict(checks.CHECKS[cid])
    spec["configs"] = {"quick": ["msan"], "thorough": ["msan"]}
    spec.pop("fuzz", None)
    r = vdriver.main_check(spec, [cid])
    rc = rc or r
sys.exit(rc)
