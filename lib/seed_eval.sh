#!/bin/bash
# lib/seed_eval.sh <source dir with patch.diff demo.c run-demo.sh notes.txt> <name> <property> [checks...]
# Confirms a seeded change in a fresh scratch worktree (outside /repo and /verif), runs the given checks against it
# and files it under /verif/seeded/<name>/.
set -u
SRC=$1; NAME=$2; PROP=$3; shift 3
CHECKS=${*:-$PROP}
SV=/tmp/sv-$NAME.$$
OUT=/verif/seeded/$NAME
[ -e "$OUT" ] && { echo "seeded/$NAME exists already - choose another name"; exit 2; }
git -C /repo worktree add -q $SV HEAD || exit 2
trap 'git -C /repo worktree remove --force '$SV' >/dev/null 2>&1; rm -rf /verif/build/*-sv'$$'' EXIT
mkdir -p $SV/seeded && cp $SRC/demo.c $SRC/run-demo.sh $SV/seeded/ 2>/dev/null
cp $SRC/*.h $SV/seeded/ 2>/dev/null
(cd $SV && cmake -G Ninja -B _build -S . >/dev/null 2>&1 && cmake --build _build >/dev/null 2>&1) || { echo "scratch build failed"; exit 2; }
(cd $SV && bash seeded/run-demo.sh >/tmp/sv-demo-clean.$$ 2>&1); clean=$?
(cd $SV && git apply $SRC/patch.diff) || { echo "patch does not apply"; exit 2; }
(cd $SV && cmake --build _build >/tmp/sv-build.$$ 2>&1) ; b=$?
t=$(cd $SV && ctest --test-dir _build 2>&1 | grep -c "100% tests passed")
(cd $SV && bash seeded/run-demo.sh >/tmp/sv-demo-mut.$$ 2>&1); mut=$?
echo "demo on clean tree: exit $clean; with change: build rc=$b, tests pass=$t, demo exit $mut"
res="{}"
declare -A R
for c in $CHECKS; do
  out=$(VERIF_REPO=$SV VERIF_WORK=-sv$$ /verif/check $c --tier quick 2>&1); rc=$?
  echo "check $c quick: rc=$rc  $(echo "$out" | grep -c '^VIOLATION') violation lines"
  echo "$out" | grep '^VIOLATION' | head -3 | cut -c1-260
  R[$c]=$rc
done
mkdir -p $OUT
cp $SRC/patch.diff $SRC/demo.c $SRC/run-demo.sh $OUT/ 2>/dev/null
cp $SRC/notes.txt $OUT/ 2>/dev/null
cp $SRC/*.h $OUT/ 2>/dev/null
{
  echo "{"
  echo " \"property\": \"$PROP\","
  echo " \"origin\": \"independent sub-agent, given only the property text and a scratch worktree\","
  echo " \"needs_to_manifest\": $(python3 -c "import json,sys;print(json.dumps(open('$SRC/notes.txt').read()[:1500]))" 2>/dev/null || echo '""'),"
  echo " \"confirmed\": {\"demo_exit_on_unchanged_tree\": $clean, \"builds_with_change\": $([ $b = 0 ] && echo true || echo false), \"existing_tests_pass_with_change\": $([ "$t" = 1 ] && echo true || echo false), \"demo_exit_with_change\": $mut},"
  echo " \"what_was_run\": \"lib/seed_eval.sh: fresh worktree of /repo HEAD $(git -C /repo log --format=%h -1) under /tmp, cmake build, seeded/run-demo.sh before and after git apply patch.diff, ctest, then the quick tier of the listed checks with VERIF_REPO pointing at the patched scratch tree\","
  echo -n " \"checks\": {"
  first=1; for c in $CHECKS; do [ $first = 1 ] || echo -n ", "; first=0; echo -n "\"$c\": \"$([ ${R[$c]} = 1 ] && echo detected || echo "not detected (rc=${R[$c]})")\""; done
  echo "}"
  echo "}"
} > $OUT/meta.json
python3 -c "import json;json.load(open('$OUT/meta.json'))" && echo "filed under $OUT"
rm -f /tmp/sv-demo-clean.$$ /tmp/sv-demo-mut.$$ /tmp/sv-build.$$
