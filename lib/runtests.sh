#!/bin/bash
# Build /repo with its own cmake build (guard off) and count TAP results of all test programs.
cd /repo || exit 2
cmake --build _build >/tmp/verif-build.log 2>&1 || { tail -20 /tmp/verif-build.log; echo BUILD FAILED; exit 1; }
pass=0; fail=0
for t in _build/test/t-*; do
  [ -x "$t" ] || continue
  out=$(cd _build/test && timeout 300 ./$(basename $t) 2>&1)
  p=$(echo "$out" | grep -c '^ok ')
  f=$(echo "$out" | grep -c '^not ok ')
  pass=$((pass+p)); fail=$((fail+f))
  [ "$f" != 0 ] && echo "$out" | grep '^not ok ' | sed "s|^|$(basename $t): |"
done
echo "TAP: pass=$pass fail=$fail"
ctest --test-dir _build -j8 --timeout 900 2>&1 | tail -3
[ "$fail" = 0 ] && [ "$pass" -ge 902 ]
