#!/usr/bin/env python3
"""Offline setup: nothing is fetched or prebuilt; every check compiles what it
needs from /repo's working tree. This only verifies the tools exist."""
import shutil
import subprocess
import sys

ok = True
for tool in ("gcc", "clang", "python3"):
    if not shutil.which(tool):
        print("missing tool:", tool)
        ok = False
r = subprocess.run(["gcc", "-fsanitize=address,undefined", "-x", "c", "-", "-o", "/dev/null"],
                   input="int main(void){return 0;}", text=True, capture_output=True)
if r.returncode != 0:
    print("gcc sanitizers unavailable:", r.stderr[-500:])
    ok = False
print("setup ok" if ok else "setup FAILED")
sys.exit(0 if ok else 1)
