#!/bin/bash
# lib/seed_matrix.sh <seed> [<seed> ...]  -- run lib/seed_rerun.sh under each VERIF_SEED given and list the seeded
# changes whose detection depends on the seed (fragile detections).
for s in "$@"; do
  echo "== VERIF_SEED=$s"
  VERIF_SEED=$s "$(dirname "$0")/seed_rerun.sh" 2>&1 | grep -v ": detected by\|: excluded"
done
