"""Registry of checks: one entry per property."""

ASSUME_COMMON = [
    "coverage is what was executed: little-endian x86-64 host, gcc 12 code generation, the bounded scopes in 'rule'",
    "reference models in /verif/harness are trusted; they share no code with ufw",
    "ASan red zones + poisoned arena: accesses inside ufw-owned structs (intra-object) are visible only through oracle comparisons",
]

CHECKS = {}


def reg(id, sources, rule, level="exploration", quick=("dbg-asan",), thorough=("dbg-asan", "rel-asan"),
        assumptions=(), exhaustive=None, **kw):
    d = dict(id=id, sources=list(sources), rule=rule, level=level,
             configs={"quick": list(quick), "thorough": list(thorough)},
             assumptions=ASSUME_COMMON + list(assumptions), exhaustive=exhaustive or {})
    d.update(kw)
    CHECKS[id] = d


reg("C16", ["c16_crc.c"],
    rule="units: 'step' = all 2^24 (state, octet) pairs vs the bitwise CRC-16/ARC definition; 'two' = all 65536 "
         "two-octet buffers from a state (all 65536 states in thorough, 64 seeded states in quick); 'buf' = seeded "
         "random buffers <= 4 KiB compared whole and split at every position, plus 16-bit-word buffers at every "
         "length 0..64. A signature is (generator, state) or (generator, length, init, fill mode); every signature "
         "is non-trivial (each compares ufw output with the reference).",
    exhaustive={"quick": "all 2^24 (state, octet) update steps",
                "thorough": "all 2^24 update steps and all 2^32 (state, two-octet buffer) pairs"})

SAN_NOTE = ("Trusted: gcc 12 ASan/UBSan runtime, the harness' reference model, the fork-per-unit runner. "
            "Assumes little-endian x86-64; decides only the executions listed in the evidence file.")

MANIFEST_TEXT = {
    "C16": dict(
        technique="runtime monitoring: exhaustive execution under ASan/UBSan against a bitwise CRC-16/ARC reference",
        text="The update step is executed on all 2^24 (state, octet) pairs and compared with the bitwise definition; "
             "since every buffer checksum is a fold of that step this decides the function for all inputs up to the "
             "fold itself, which is exercised on 2^32 two-octet cases (thorough), random buffers with every split "
             "point and word buffers of every length 0..64, all on exact-size poisoned-arena buffers.",
        note=SAN_NOTE),
}
