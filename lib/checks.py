"""Registry of checks: one entry per property."""

ASSUME_COMMON = [
    "coverage is what was executed: little-endian x86-64 host, gcc 12 code generation, the bounded scopes in 'rule'",
    "reference models in /verif/harness are trusted; they share no code with ufw",
    "ASan red zones + poisoned arena: accesses inside ufw-owned structs (intra-object) are visible only through oracle comparisons",
]

CHECKS = {}

import json as _json
import os as _os

_PROPS = {}
with open(_os.path.join(_os.path.dirname(_os.path.dirname(_os.path.abspath(__file__))), "properties.jsonl")) as _f:
    for _l in _f:
        _p = _json.loads(_l)
        _PROPS[_p["id"]] = _p


def reg(id, sources, rule, level="exploration", quick=("dbg-asan", "rel-asan", "msan"), thorough=("dbg-asan", "rel-asan", "msan"),
        assumptions=(), exhaustive=None, **kw):
    d = dict(id=id, sources=list(sources), rule=rule, level=level,
             configs={"quick": list(quick), "thorough": list(thorough)},
             assumptions=ASSUME_COMMON + list(assumptions), exhaustive=exhaustive or {})
    d.update(kw)
    # reach evidence is measured on the files the property is anchored in
    d.setdefault("anchor_files", [f for f in _PROPS.get(id, {}).get("anchors", {}).get("files", [])
                                  if f.endswith(".c") or f.endswith(".h")])
    CHECKS[id] = d


reg("C16", ["c16_crc.c"],
    rule="units: 'step' = all 2^24 (state, octet) pairs vs the bitwise CRC-16/ARC definition; 'two' = all 65536 "
         "two-octet buffers from a state (all 65536 states in thorough, 64 seeded states in quick); 'buf' = seeded "
         "random buffers <= 4 KiB compared whole and split at every position, plus 16-bit-word buffers at every "
         "length 0..64 (random, all-zero, all-ones, mostly-zero, zero words in front / behind; split at every word); "
         "'wstep' = the word variant's update step: all 65536 words from a state, alone and next to a zero word (32 "
         "states incl. 0, 1, ffff in quick, every fourth state in thorough); 'long' = buffers up to 200003 octets. "
         "Every random buffer is also run with empty parts given as (NULL, 0), alone and in the middle of a split. A signature is (generator, state) or (generator, length, init, fill mode); every signature "
         "is non-trivial (each compares ufw output with the reference).",
    exhaustive={"quick": "all 2^24 (state, octet) update steps",
                "thorough": "all 2^24 update steps and all 2^32 (state, two-octet buffer) pairs"})

reg("C15", ["c15_endian.c"],
    quick=("dbg-asan", "noswap", "rel-asan", "msan"), thorough=("dbg-asan", "noswap", "rel-asan", "msan"),
    rule="for each of the 48 store/load codec pairs (u/s x 16..64 bit x n/b/l, f32/f64 x n/b/l): all values for 16 "
         "and 24 bit (16 bit at every alignment 0..7), 32 bit strided by 211 (quick) or all 2^32 (thorough), wider: "
         "every octet lane x every octet value x 3 fills x 8 alignments, all one- and two-bit patterns and their "
         "complements, boundaries, float classes incl. NaN payloads, seeded random; plus exact-size poisoned-arena "
         "objects; the unsigned 24/40/48/56-bit setters also get containers with mixed bits above the width. Swaps: all 16/24-bit values, strided/all 32-bit, lanes+bits+random for wider, and constant expressions with |, ^, ?: at top level as arguments. Every codec unit probes stores and loads on caller objects that are not character arrays (uint16_t words, uint32_t, float, double) inside one non-inlined function each, and works on two mapped pages between two inaccessible ones: data at every straddle of the inner page boundary and on the first and last octets of the mapping, nine patterns each (an access outside the datum faults there in every configuration). Range predicates: "
         "2^i +- 3, extremes, random magnitudes. A signature is (codec or helper, chunk); evaluations counts single "
         "store+load (or swap, predicate) comparisons.",
    assumptions=["a value that does not fit the width of an unsigned 24/40/48/56-bit setter is stored modulo 2^width: the header says the argument may hold such values and is not checked, and the library's own signed setters hand sign-extended values to the unsigned ones"],
    exhaustive={"quick": "all 16- and 24-bit values of every codec and swap",
                "thorough": "all 16-, 24- and 32-bit values of every codec and swap"})

reg("C19", ["c19_ring.c"],
    rule="'closure': for capacities 1..4 and element types u8 (the library's octet_ring), u16, u64: starting from "
         "init, every operation (put a, put b, get, clear, override on/off) is executed from every reached "
         "(head, tail, override, data[], model queue) state until no new state appears; after each transition "
         "size/empty/full and both iterators are compared with the queue model. 'history': seeded random histories "
         "with unique element ids at capacities 1..64 (override mode switched on with any non-zero value: 1, 2, 0x80, 2^31 ...); every history unit first asks size/empty/full in straight-line code (init, put, put put, get, clear; three element types) inside non-inlined functions, so that the optimised configurations see what the header lets the compiler assume. A signature is a distinct reached (implementation state, "
         "queue) pair or a (history unit, index); evaluations counts transitions/operations executed.",
    exhaustive={"quick": "all reachable (implementation state, queue) pairs for capacities 1..4 over a two-value alphabet",
                "thorough": "all reachable (implementation state, queue) pairs for capacities 1..4 over a two-value alphabet"})

reg("C18", ["c18_bytebuf.c"],
    rule="'closure': for sizes 1..5, starting from an empty buffer, every operation (add with every length 0..size+1 "
         "and every content over {a1,b2} and, in a second run per size, over {00,a1}; consume and consume_at_most with every length 0..size+1; rewind, reset, "
         "clear, repeat) is executed from every reached (offset, used, memory image) state until closure; "
         "'setup': set/use/space on all argument combinations size 0..6 x used 0..7 x offset 0..8 x NULL; "
         "'history': seeded random histories on sizes 1..300 (and 255..66000) with operand lengths biased to the "
         "boundary (every second history carries zero octets). Requests that must be refused get no destination (NULL) or a poisoned one a third of the time "
         "each; a third of the acceptable consumes deliver into the buffer's own memory, within the octets consumed "
         "before (disjoint from what is read). 'gigantic': one buffer of 2 GiB + 4 KiB mapped for the unit - add of all of it, rewind moving more "
         "than 2^31 octets, one consume of 2^31 + 2048 octets, at-most calls asking for and returning more than "
         "2^31 octets, content checked at probe positions around the 2^31 mark (not carried out, and not judged, "
         "where the mapping is refused). A "
         "signature is a distinct reached state, a set-up argument tuple or a history; evaluations counts "
         "operations executed and compared with the list model.",
    exhaustive={"quick": "all reachable states of buffers of size 1..5 under all operations with operand lengths 0..size+1",
                "thorough": "all reachable states of buffers of size 1..5 under all operations with operand lengths 0..size+1"})

reg("C14", ["c14_varint.c"],
    fuzz={"target": "fuzz/fz_varint.c", "runs": {"quick": 480000, "thorough": 32000000}, "max_len": 11},
    rule="'values-*': encode/length/to_sink/decode(buffer)/decode(source) round trip for u32/s32 (stride 211 through "
         "2^32 in quick, all 2^32 in thorough, plus 2^k +- 2) and u64/s64 (2^k +- 3, all one- and two-bit patterns "
         "and complements, seeded random magnitudes); 'strings-N': every octet string of length N <= 7 (quick) / "
         "<= 11 (thorough) over {00,01,7f,80,81,ff} and 'randstr' random strings of length 0..11, each placed in an "
         "exact-size poisoned-arena block (size = used = N and size = N, used = 0; and as the unread rest of blocks "
         "with 1, 9 and 12 consumed octets in front) and given to all four buffer decoders and all four source "
         "decoders; every value of the round trip is also encoded into a buffer that "
         "was used and drained before (offset = used = 1..7, exactly the maximum length free behind it: marks, memory "
         "image, read-back through a buffer source and through the buffer decoder) and read from a source whose driver "
         "is interrupted once (EINTR / EAGAIN) at one of its calls - a success must then carry value, length and octets "
         "of the encoding; decoded in place (the result variable is the memory the encoding lies in); and decoded from a buffer whose fill mark lies strictly inside the encoding (offset < used < offset + length, the memory holding all of it). A signature is (generator, type, "
         "chunk); evaluations counts round trips and decoder input strings.",
    exhaustive={"quick": "all octet strings of length <= 7 over the 6-octet alphabet as decoder input",
                "thorough": "all 2^32 values of u32 and s32; all octet strings of length <= 11 over the 6-octet alphabet"})

reg("C12", ["c12_slip.c"], level="fault_enumeration",
    rule="'strings-N': every octet string of length N <= 7 (quick) / <= 9 (thorough) over {END, ESC, ESC_END, "
         "ESC_ESC, 0x41}, each used (a) as payload (encode vs reference encoder, length bound, delimiter placement, "
         "decode round trip), (b) as raw decoder input (every decode call compared with a reference decoder: result, "
         "delivered frame, octets consumed; emitted <= consumed; progress bound on source calls; after every decode call "
         "a short payload is encoded with the decoder's own context and compared with the reference encoding, the "
         "context with its state before), (c) as garbage "
         "prefix before three well-formed frames (delivered frames must end with the last two, or all three when the "
         "prefix is empty or - classic mode - ends in a delimiter; the stream is read in one piece and with the source "
         "failing once behind the prefix, before its last octet and at one more position inside it); each in classic and start-of-frame mode with "
         "octet and chunk style source and sink drivers (8 configurations); (d) strings of length <= 5 and every "
         "7th longer one: a source error at every input position and a sink error at every output position of "
         "encoder and decoder; injected error codes vary over small, large and count-like values. 'octets': every "
         "octet value alone, behind an escape octet, between ordinary octets and in front of a delimiter in uses "
         "(a)-(c). 'random': seeded strings up to 1 KiB (full alphabet, control-heavy, control-only) as payload and "
         "(first 96 octets) as raw decoder input and garbage prefix, to two decoders (one classic, one start-of-frame) "
         "working alternately call by call, and through a SLIP-over-SLIP tunnel (a sink whose driver encodes every "
         "chunk it is handed on a lower sink). Chunk sinks take all, 1, 2 or 3 octets per call or write in pages of "
         "4 / 16 octets; contexts come from rfc1055_context_init() or from the header's static initialisers, "
         "alternately. "
         "'longnoise': a frame broken by an invalid escape, then L octets without delimiter for every L within 8 of "
         "256, 1024, 4096, 8192, 12288, 16384, 32768 and 65536 (four filler octets in turn), the delimiter and three "
         "frames, in all 8 configurations: what follows the delimiter arrives as after any other prefix. "
         "A signature is a distinct string of length <= 4 or a (generator, unit) pair; evaluations counts "
         "(string, configuration, use) executions.",
    exhaustive={"quick": "all strings of length <= 7 over the 5-symbol alphabet in all three uses and 8 configurations",
                "thorough": "all strings of length <= 9 over the 5-symbol alphabet in all three uses and 8 configurations"})

reg("C17", ["c17_endpoints.c"], level="fault_enumeration",
    rule="'exact': every driver behaviour script of length <= 5 (quick) / <= 8 (thorough) over {1, 0, EINTR, EAGAIN, "
         "hard error} for octet-style and {1, 2, k=3, all asked, 0, EINTR, EAGAIN, hard error} for chunk-style "
         "drivers (after the script the driver moves everything asked), for N = 1..6, through source_get_chunk, "
         "sink_put_chunk and both at-most variants; 'invalid': N = 0 and N > SSIZE_MAX; 'patience': 70000 idle answers (0/EINTR/EAGAIN) in a row, and 200000 octets in pieces of 1-3 with an idle answer before each, through counting drivers; the aux functions that rewind also get buffers with consumed octets in front; 'codes': every errno value 1..140 except EINTR/EAGAIN as a driver's hard error (first call and after one octet, exact and at-most calls, both styles); 'nothing': at-most transfers of zero octets and the aux functions with a "
         "full auxiliary buffer (nothing may move, nothing may be written); 'plumb': every pair of "
         "source and sink scripts up to length 3 (thorough 4) over {1, 2, all, hard error} x N = 1..6 x stream "
         "longer/shorter than N x 4 driver-style combinations x sink error EIO/ENOMEM, through sts_cbc, sts_n_cbc, "
         "sts_drain_cbc, sts_n, sts_drain and the four _aux variants with auxiliary buffers of size 1..8 holding 0..6 "
         "octets already, in "
         "a poisoned arena (a third of the sts_n / sts_drain runs over chunk sources expose a 1..5 octet transfer "
         "window through getbuffer); 'random': long transfers with random scripts; 'huge': single driver calls of "
         "2^31..2^32+3 octets and the largest legal count SSIZE_MAX; 'lib': the library's own buffer, chunk-list and "
         "trivial endpoints (every chunk-list source is read again after it reported its end; its descriptor array "
         "is an exact-size poisoned block or the front of a longer array); 'layered': a stuffing filter sink / un-stuffing source whose drivers use the endpoint API "
         "on a lower endpoint, under sink_put_octet, sink_put_chunk, sts_cbc, sts_n_cbc, sts_drain_cbc, sts_n, "
         "sts_drain, sts_n_aux, source_get_chunk and source_get_octet. Endpoints are set up by the init functions or "
         "the header's initialiser macros, alternately. Injected hard error codes vary over small, large and count-like values. A signature is "
         "a distinct short script "
         "(pair) or a (generator, unit); evaluations counts (script, N, entry point) executions.",
    assumptions=["the getbuffer extension has no implementer and no written contract in the tree; it is exercised the way endpoints/core.c uses it (a scratch window of the source that octets are read into before they go to the sink) for sts_n and sts_drain over chunk sources, with endpoints whose failure is final: with a window in play the plumbing retries after a sink reported -ENOMEM and the octets already taken from the source are lost - whether a sink may recover from -ENOMEM is not written down anywhere, so a sink that reports it once and accepts data afterwards is not part of these runs",
                 "plumbing scripts use partial transfers and hard errors only (zero-length/EINTR returns are exercised on the chunk API, where the statement places them)",
                 "the auxiliary buffer's designated region is read as its free space behind the octets it already holds (buffers holding 0..6 octets are used)"],
    exhaustive={"quick": "all driver scripts up to length 5 for N = 1..6 on the exact and at-most entry points",
                "thorough": "all driver scripts up to length 8 for N = 1..6 on the exact and at-most entry points"})

reg("C13", ["c13_lenp.c"],
    rule="'enc': 6 prefix kinds x payload lengths 1..300 (quick) / 1..1100 (thorough) x 8 encoder entry points x two "
         "buffer layouts (consumed/unread/extra/free regions with distinct content; chunk lists with empty and "
         "inactive chunks) x 3 sink styles (chunk, octet, chunk accepting <= 3 octets per call), and for lengths <= 300 a chunk- or "
         "octet-style sink that has to be asked again once (0, -EAGAIN or -EINTR at one of its first three calls; a "
         "reported failure is not judged then); 'bounds': lengths "
         "around 127/128, 255/256, 16383/16384, 65535/65536; 'huge': 2^32-2..2^32+1, SSIZE_MAX-20..SSIZE_MAX+1, "
         "UINT64_MAX into a counting sink; 'dec': 3 decoder entry points x destination capacity len-1/len/len+1 x "
         "octet/chunk sources with random fragmentation x 1..3 frames back to back (chunk sources also exposing a "
         "3..80 octet transfer window through getbuffer; a third of the window-less sources that feed fixed-width 16/32-bit "
         "prefixes into the memory and buffer decoders return 0 - nothing yet, try again - now and then; for the "
         "variable-length kind every case is repeated on a stream whose prefixes carry 1..3 octets more than the "
         "value needs - valid varints no encoder of the library emits); 'frag': every fragmentation (2^(L-1) cut masks) of short "
         "two-frame streams; 'tunnel': the four sink entry points x 6 kinds writing into a sink whose driver wraps "
         "every chunk into an inner frame (one-octet or varint prefix) on a lower sink - nested encoder calls. Calls "
         "with the variable-length kind go through the lenp_* wrappers every second time. A signature is (generator, kind, length[, entry]); "
         "evaluations counts encoder/decoder cases compared with the reference prefix codec.",
    exhaustive={"quick": "all fragmentations of two-frame streams of total length <= 12",
                "thorough": "all fragmentations of two-frame streams of total length <= 12"})

reg("C20", ["c20_sx.c"],
    fuzz={"target": "fuzz/fz_sx.c", "runs": {"quick": 480000, "thorough": 48000000}, "max_len": 300},
    rule="'trees': every tree with <= 6 nodes and depth <= 4 over symbols {a, foo-1, +} and integers {0, 7, 255, "
         "48879} (unranked from a counting recurrence; every 23rd tree from a seeded offset in quick, all in "
         "thorough), rendered with three whitespace policies and decimal / #x lower / #x upper / mixed number "
         "formats, with and without trailing material, parsed NUL-terminated, length-delimited (exact-size "
         "poisoned block without terminator) and with sx_parse() from a start offset behind other text; integers with leading zeros in fields of 19..1000 digits; every character a symbol may start or continue with, alone and inside lists; every octet outside the token classes (controls, quotes, brackets, 80..ff) in twelve positions: error, no tree; 'strings-N': every string of length N <= 5 (quick) / <= 7 (thorough) "
         "over '( ) space newline a 1 0 # x F' judged by a reference reader (verdict, tree, position); 'random': "
         "parenthesis-heavy random strings up to 39 characters. Every case checks the allocation ledger (bytes "
         "allocated before the parse == after sx_destroy) and, on error, that no tree is returned. A signature is "
         "a distinct tree index or (generator, unit); evaluations counts parses compared.",
    exhaustive={"quick": "all strings of length <= 5 over the 10-character alphabet",
                "thorough": "all trees with <= 6 nodes/depth <= 4 over the vocabulary; all strings of length <= 7 over the 10-character alphabet"})

reg("C10", ["c10_pstore.c"],
    rule="units = data sizes {1..5,7,8,9,15,16,17,31,32,33,40} (quick) / 1..48 and selected sizes up to 130 "
         "(thorough); per size: placements {0,1,7,4093} x checksum {default 16-bit sum, CRC-16/ARC, 32-bit rotating "
         "sum} x auxiliary buffer {none, non-NULL size 0, sizes 1..size+1 (sub-sampled for larger sizes in quick)}; "
         "per configuration: reset with two fill values, partial stores of 0 and 1 octets onto the medium that was only "
         "filled (checksum field included: every successful store must leave a medium that validates), full store, partial stores at (offset, length) pairs (all "
         "pairs for small sizes, boundary + seeded sample otherwise) over evolving content each followed by "
         "validate, fetch and fetch_part, out-of-range part accesses incl. offset+length pairs that wrap size_t, and "
         "three alterations of every octet of the region. 'reconf': 300 (quick) / 4000 (thorough) units of six "
         "set-up histories each: one instance is placed and given checksum algorithms several times in seeded "
         "order (the last placement and the last algorithm count, in either order, incl. narrowing or widening "
         "the checksum after the last placement) before the same battery runs. 'big': data sizes 255..70000 with "
         "auxiliary buffers none/1/7/255/256/4096/65535/65536/size-1/size/size+1 at placements 4093 and top of "
         "the address space. 'remarkable': images constructed so that their checksum is 0 and all-ones for each "
         "algorithm (last octets searched; for the 32-bit sum the initial value is solved for), stored whole and "
         "completed by a partial store, every single-octet alteration, blank media (all 00, all ff). 'pages': a medium whose writes stop at page "
         "boundaries (pages of 2, 3, 4, 8 octets, every placement) and report the short count: an operation that "
         "reports success must leave a valid image that holds the model. A signature "
         "is a configuration "
         "(size, placement, checksum, aux size); evaluations counts operations checked.",
    assumptions=["the medium callbacks return exactly what was asked (faults are the subject of C11)",
                 "checksum octets on the medium are native (little) endian"])

reg("C11", ["c11_pcrash.c"], level="fault_enumeration",
    rule="units = (data size, placement, checksum algorithm) from the C10 grid (sizes {1,2,3,5,8,9,16,17,33} in "
         "quick, 22 sizes up to 130 in thorough) x auxiliary buffer {none, sizes 1,2,3,5,size,size+1 (quick) / more "
         "(thorough)}. Crash points: for a full store, a reset and partial stores (all windows for sizes <= 6, "
         "boundary-biased seeded sample otherwise) on a medium holding a valid image, the recorded write log is "
         "replayed offline into every prefix and every octet-granular tear of each write, and each image is "
         "validated (and, at whole-write granularity, fetched) on a fresh instance. Faults: every medium access k of "
         "store, store_part, reset, validate, fetch, fetch_part fails (moves nothing and reports 0), transfers one "
         "octet short, or moves nothing and reports (size_t)-1, for every k; in every second of these runs the instance "
         "has validated its medium before the operation and validates it again after the fault (same verdict as a "
         "fresh instance required); faults also on images with a zero tail and on the all-zero image. 'big': data sizes 300, 65536, 65539 with "
         "auxiliary buffers 4096/65535/65536/size+1 (tears sampled around the 8- and 16-bit boundaries); 'manyreads': crash images of stores and partial stores at 33000..70000 octets with no auxiliary buffer or one of 1-2 octets, where a checksum over the medium takes tens of thousands of accesses (writes recorded only, no fault injection). A signature is a (configuration, aux size) pair; evaluations counts crash images judged plus "
         "fault positions injected.",
    assumptions=["a torn write leaves a prefix of its octets on the medium; writes are not reordered",
                 "reading of 'never validate a mixed image silently' for a store whose data write fails or transfers short: the library must not go on and write a checksum over what it left (the medium may validate afterwards only as the previous or the new image, or by a chance collision with the checksum that was already there)",
                 "zero-length medium accesses cannot fail visibly and are not counted as injected faults"])

reg("C01", ["c01_typed.c"],
    rule="units = 8 register types x {little, big endian} x {memory-, callback-backed area} x 13 constraint variants "
         "(none, always-fail, callback, 3 x min, 3 x max, 4 x range incl. bounds at the type's extremes and a "
         "single-value range; bounds seeded). Per unit: handles 3 (one past the end), 4, 5, 1000, 2^31, 2^32-2, "
         "2^32-1 and a random one through both set variants and get; values of all seven other types; then values "
         "of the register's type through register_set, register_get and register_set_unsafe: all 65536 for 16-bit "
         "types, else every single bit and its complement, every octet lane x {00,01,7f,80,ff} on zero and ones "
         "background, type extremes, both bounds +-2 neighbours, 18 float classes (zero, subnormal, normal, "
         "infinite, quiet/signalling NaN with payloads), seeded random. After every call the complete storage of "
         "the area (register under test between a u16 and an s32 neighbour) is compared with the model. 'counts': "
         "tables with 0, 1, 2 and 7 registers in one or two areas: every handle from the register count upwards "
         "(count, count+1, 8, 16, 0xff, 0xffff, 2^16+count, 2^31, 2^32-1, ...) through register_set with a value of "
         "every type, register_set_unsafe and register_get, storage compared after each. Behind callbacks every 16th "
         "acceptable value meets a device that refuses one word of the register (set must fail, nothing stored), and a "
         "refused set must not have called the write callback; every fourth get behind a callback meets a device that "
         "serves register-shaped reads only; every 8th storable value behind a callback is also stored through the "
         "unchecked variant while the device's write hook issues a checked set, on the same table, of a value the "
         "constraint rejects (refused as ever; the unchecked value is stored). A signature "
         "is a configuration; evaluations counts values set.",
    assumptions=["for a callback-backed area 'storage unchanged' is read as 'the write callback is not invoked': a refused set (C01), a refused block write (C02) and any block read (C03) must not write the device, not even words that are taken back afterwards"],
    exhaustive={"quick": "all values of 16-bit registers in every configuration",
                "thorough": "all values of 16-bit registers in every configuration"})

RT_FAMILY = ("tables from the small-scope family (seeded by index): 1-3 areas with bases from {0,1,5,0x100,0x7ffe,0xfff8,"
             "0x7ffffff0,0xffffff00}, sizes 1-8 words (one table in six has one area of 18-48 words densely packed with "
             "up to 46 registers, one in four an area left without registers on purpose, mostly joined to its "
             "predecessor, a third of those a mere reservation of addresses with neither callbacks nor memory, a fifth an "
             "area of size zero; every second callback-backed area written field by field also carries a memory "
             "pointer of its own that its callbacks scribble over; the "
             "first thirty units of C02, C03 and C05 and the first thirty descriptions of every C04 unit use curated "
             "layouts instead: register-less areas behind, in front of and between populated ones, long dense areas, "
             "reserved windows at address 0 and between populated areas, zero-sized areas on the seams, four, five and eight areas, everything adjacent; every second "
             "table is written with the REG_* / MAKE_*_AREA macros of register-table.h), gaps {0,0,1,3}; flags RW / "
             "read-only / write-only / skip-defaults; memory- or callback-backed "
             "(some callback areas without write callback); 16/32/64-bit unsigned, signed and float registers at every "
             "alignment with constraint none/min/max/range/callback/always-fail and seeded bounds; both byte orders; the "
             "validator callback looks at the register in front of its own through register_get on the same table "
             "whenever it is called, also while defaults are loaded, and must never be told that the table is not "
             "initialised")

reg("C02", ["c02_blockwrite.c"],
    rule="units = " + RT_FAMILY + " (400 tables quick, 6000 thorough). Per table, after out-of-band loading of "
         "constraint-satisfying content: every address from two words below the lowest base to two above the highest "
         "end x every length 0..span+3 (lengths > 9 sub-sampled in quick) x word patterns {identity, acceptable value "
         "per overlapped register, bound +-1 per overlapped register, refused float encodings, random, all-ones, "
         "all-zeros}, issued in sequence so that content evolves; 'noread': the same on a table with a write-only device area (write "
         "callback, no read callback) holding registers - a block that leaves part of such a register as it is cannot "
         "be validated and must be refused, with whatever code. The caller buffer is an exact-size poisoned-arena "
         "object, as are area storage, area[] and entry[] incl. sentinels. Per table also requests much longer than "
         "the table (255..0x100000 words, heap buffer) and requests that cannot be backed by memory (0x100001.."
         "0xffffffff words, address + length reaching or passing 2^32; exact-size 256-word arena buffer), which must "
         "be refused at the first unmapped address without effect. A signature is a table; evaluations counts block "
         "writes judged.")

reg("C03", ["c03_blockread.c"],
    rule="units = " + RT_FAMILY + " (400 tables quick, 6000 thorough). Per table (storage filled out of band with "
         "distinct words): the uninitialised table is probed first; then every address from two words below the "
         "lowest base to two above the highest end x every length 0..span+3: one block read into an exact-size "
         "poisoned-arena buffer (windows without holes also through register_block_read_unsafe; every fifth read with a device word that cannot be read), one iteration with an always-continue callback and, for each of the first four "
         "callback positions k, iterations stopped at call k by a positive and by a negative result; finally the "
         "whole-table idioms foreach(0, ADDRESS_MAX). 'bigdev': a hand-written table with a 16-word memory area and a "
         "device area of 0x12000 words (content a function of the offset), read in windows of 65534..0x12010 words "
         "through both block-read entry points, every word compared. A signature is a table; evaluations counts reads and "
         "iterations judged.",
    assumptions=["ranges that wrap past 2^32 are not generated (semantics unstated)"])

reg("C04", ["c04_init.c"],
    rule="descriptions = " + RT_FAMILY + "; 30% are kept well-formed, the others get one or two seeded mutations from: "
         "no areas, two areas swapped, equal bases, overlap by one word, exact adjacency, a register straddling its "
         "area's end, a register moved anywhere from two words below the first area to two beyond the last (holes, "
         "gaps), duplicate address, two registers swapped, overlap by one word, default just outside the constraint or "
         "a non-finite float default, a range with its limits exchanged, no registers at all, default loading of an area switched (skip-defaults, no "
         "write callback). 128 units x 2500 descriptions (quick), 1200 x 20000 (thorough). 'top': 80 well-formed descriptions whose "
         "last area ends exactly at 2^32 (sizes 1-16, alone or behind another area, with and without a register on the "
         "last words) - refused by the library today, a recorded known finding. A signature is the hash of "
         "a description; evaluations counts descriptions initialised and judged.",
    assumptions=["the statement orders the rules, the code interleaves them per index within a stage (area order/overlap, "
                 "register order/overlap, register placement/default): the first violation in rule-major order and the "
                 "first in stage-wise index-major order are both accepted",
                 "registers are linked and loaded in ascending order, and a validator may look at registers in front of "
                 "its own through register_get on the table under initialisation: a default is judged 'acceptable to "
                 "its own register' with that access working (being told 'table not initialised' there is reported); "
                 "mutation steps that would put an area beyond 2^32 are taken back"],
    fuzz={"target": "fuzz/fz_init.c", "runs": {"quick": 320000, "thorough": 32000000}, "max_len": 1600})

reg("C05", ["c05_history.c"],
    rule="'history': " + RT_FAMILY + " with at least one register (every second unit without always-fail registers, "
         "those also use sanitise; on the others every second constrained register of an area whose defaults are "
         "never loaded - skip-defaults, device without write access - names a default outside its own constraint); "
         "content loaded with constraint-satisfying values; 50-400 seeded steps of typed "
         "set (operands biased to bound, bound +-1, default; 1/8 wrong type; NaN/inf), bit set / bit clear (single-bit "
         "and random masks, 1/6 wrong operand type, all register types), block write (3/4 starting inside or just "
         "before a register, words aimed at the bounds of overlapped registers), sanitise. 'corrupt': tables without "
         "always-fail registers and with write callbacks everywhere; 40 rounds of out-of-band corruption of register "
         "words (random, bound +-1, NaN/infinite patterns, all-ones) and gap words, each followed by sanitise. After "
         "every step: whole storage, every register_get, touched marks, and the constraint of every "
         "min/max/range/callback register. Histories on tables with always-fail registers contain unjudged sanitise "
         "calls (half of them after out-of-band damage; what they leave violating is put right out of band); every "
         "other pair of histories a second small table at the same addresses is used between the steps. 2000+1000 "
         "units quick, 200000+50000 thorough. A signature is a unit; "
         "evaluations counts steps.",
    assumptions=["typed set / bit operations on registers in areas flagged read-only (write callback present): the "
                 "statements do not rule; either outcome is accepted as long as its effect is consistent"],
    fuzz={"target": "fuzz/fz_regtable.c", "runs": {"quick": 96000, "thorough": 9600000}, "max_len": 3001})

reg("C06", ["c06_regp_exec.c"],
    rule="'session': 8 sessions per unit of 1-50 frames on one RegP in server role (serial or TCP, 8- or 16-bit "
         "memory, allocator block 128/200/300/360): read and write requests in 8/16-bit semantics (1/6 with the "
         "wrong word size, half of those reads asking for capacity+1..0xffffffff words), block sizes 0..capacity with "
         "the edges favoured, payloads rich in SLIP control octets, "
         "addresses incl. c0/db patterns, sequence numbers incl. the wrap, interleaved with responses of every code "
         "and meta frames; the scripted backend answers with each of the 12 response codes and an address. Frames come "
         "from the reference encoder, replies go through the reference decoder. 'table': the server bound to a real "
         "register table (RW area with range/max/float registers, read-only area, callback area reporting I/O errors; "
         "also uninitialised) through regaccess2blockaccess; the expected verdict comes from calling the register API "
         "directly on the same state. 'bigblock': 104 units = {serial,TCP} x {8,16-bit} x {read,write} x word counts "
         "{129,365,1000,16383,16384,32767,32768,32769,40000,65535,65536,65537,70001} through an allocator with "
         "300000-octet blocks, payloads compared in full. Every other session has noise between its requests "
         "(damaged, truncated, oversized frames, allocation failures, and - judged: never executed, never acknowledged - "
         "write requests that announce 2^16..2^31 more words than they carry), every other pair of sessions a second "
         "instance with the opposite transport and word size serving requests in between. 'marathon': 70000 requests "
         "on one instance; 'pipeline': 2..6 requests back to back in the source, through octet sources and sources "
         "exposing a 1..80 octet transfer window. A signature is a (unit, session); evaluations counts frames "
         "processed.")

reg("C08", ["c08_regp_emit.c"],
    rule="'emit': per unit (transport x memory word size x session starting at a random sequence number or at 0xfffd) "
         "40 rounds over all 18 emit entry points (regp_req_read8/16, regp_req_write8/16, regp_resp_ack with and "
         "without payload, the eleven regp_resp_e*, regp_resp_meta) with addresses/arguments biased to SLIP control "
         "octets, block sizes 0..139 and, every fifth time, raw frame lengths 126..129 or 16382..16385; payloads "
         "random / control octets only / control-rich / counting. 'big': raw lengths 16380..16387 for the write "
         "requests and the payload acknowledgement; 'huge': payloads of 65534..140002 octets (2^16 octets and 2^16 "
         "words and beyond); 'seqsweep': on the serial link every sequence number once per entry point and memory "
         "word size, so that the header checksum takes every 16-bit value about once. Each emission is compared "
         "octet for octet with the reference (the emitter's sink is chunk- or octet-style, takes all or 1, 3, 7, 64 octets per call, and every fourth "
         "emission meets one sink call that is interrupted with EAGAIN / EINTR - an emission that reports failure then "
         "is not judged; the request frame handed to the response functions carries the instance's word size or the other "
         "one; allocators are of the generic or the slab type, alternately) "
         "encoder and then received by a peer instance. 'nested': a request issued from inside the sink driver when it "
         "holds the last octet of the previous request (transmit-complete hook): two complete frames with successive "
         "sequence numbers. 'early': the busy and receive-overflow replies the receiver sends on its own account, compared "
         "with the reference and fed to a second instance. A signature is a (unit, round); evaluations counts emissions.")

reg("C07", ["c07_regp_corrupt.c"], level="fault_enumeration",
    rule="'mutate': corpus from the reference encoder (serial options): read requests, write requests and read "
         "acknowledgements in 8/16-bit semantics with 0,1,2,5 words (quick) / 0..40 words (thorough), write and read "
         "responses of every code, both meta messages, and frames constructed so that their checksum fields hold "
         "remarkable values (payload checksum 0000 via an all-zero payload and via a payload ending in its own "
         "checksum, payload checksum ffff, header checksum 0000 / ffff, header checksum equal to the payload "
         "checksum). Per frame, on the serial channel: every single-bit flip; "
         "two-bit flips behind the first header word (all pairs for short frames and in thorough, else pairs <= 17 "
         "bits apart plus a seeded sample); every burst of length 2..16 at every bit offset behind the first word "
         "(first and last bit flipped, all interior patterns up to length 6, three random ones beyond); every "
         "truncation length; extension by 1..4 octets. The mutation is applied to the raw frame, then SLIP-encoded. "
         "'options': on both transports 600 generated frames per unit with every combination of the three option "
         "bits, correct or damaged checksums, one octet extra/short, and 600 arbitrary octet strings. 'wire': 32 "
         "(quick) / 4000 (thorough) sessions valid request, damaged request, valid request on a serial channel served "
         "by the loop documented in regp_recv() with one RPMaybeFrame; the damage is applied behind the SLIP encoder: "
         "every single-bit flip of the wire octets, two-bit flips (<= 9 bits apart plus a seeded sample), bursts of "
         "2..16 bits, every octet lost or duplicated. 'fill': on TCP, write requests that fill the frame block to its last "
         "octet and twins with 1-5 stray octets, from octet sources and chunk sources with transfer windows of 2..64 "
         "octets, blocks 96/128/129/200; oversized frames also with a damaged header, and the reply to every oversized frame is judged (meta message / receive-overflow response / nothing). A signature is a unit; evaluations counts mutated/generated "
         "frames and sessions judged. Every seventh frame meets a reply channel that is down (all sink writes "
         "refused): classification, no execution and no acknowledgement are judged as before, the reply's form is not.",
    assumptions=["reading choices of the reference decoder (DESIGN.md section 7, C07): a checksum field occupies a "
                 "header word only if its option bit is set; the header checksum covers the six fixed words plus the "
                 "payload-checksum word when present; an odd number of payload octets under 16-bit semantics is an "
                 "implausible size; read requests and meta messages carry no payload, all other types carry block size "
                 "x word size octets"])

reg("C09", ["c09_regp_safety.c"], level="fault_enumeration",
    fuzz={"target": "fuzz/fz_regp.c", "runs": {"quick": 640000, "thorough": 48000000}, "max_len": 700},
    rule="'lengths': both transports x allocator block sizes {65,66,70,75..82,96,128,200} (capacity = block - "
         "sizeof(RPFrame)) x every frame length 0..capacity+40 (8-bit write request, cut short or padded where no "
         "complete frame has that length; TCP frames also with both checksum options set); 'reads': both transports x 8/16-bit memory x block sizes "
         "{81,96,100,101,128,129,257} x every read block size from 20 below to 24 above the transmit limit; "
         "'allocfail': sessions of 6 frames with the k-th allocation failing, k = 0..5; 'chanerr': a source error at "
         "every octet position of the wire image of generated requests (followed by an intact frame), invalid SLIP "
         "escapes, TCP length prefixes that promise more than the source holds; 'stream': streams of up to 8 random / "
         "valid / mutated frames on block sizes sizeof(RPFrame)+1..+300 with optional allocation failure and channel "
         "error, drained by the documented recv/process/free loop; 'giant': TCP frames of 0x7ffffff0, 2^31, "
         "2^31+1025 and 0xfffffff0 octets generated on the fly and delivered in full through a 1 MiB transfer window, "
         "followed by an ordinary read request (receive-overflow reply, exact consumption, the request served). "
         "After every round: allocator ledger (live set "
         "empty, no double or foreign free), room behind every pointer handed to the backend, replies decoded by the "
         "reference decoder. A signature is a unit; evaluations counts recv/process/free rounds.",
    assumptions=["early replies are judged leniently where the statement is silent: a receive-overflow or busy response "
                 "must have the right type, code, sequence number and address when the stored octets hold a complete "
                 "header, otherwise a meta message is accepted; the size payload of a receive-overflow response is "
                 "optional; in the zone where 'fits' depends on whether the request or a full response header is "
                 "counted, ACK and ETXOVERFLOW are both accepted",
                 "the coverage-guided stage (libFuzzer, clang ASan+UBSan) carries the ledger, room-monitor and reply oracles and, for "
                 "whole TCP frames, the classification oracle; it is bounded by -runs and seeded by VERIF_SEED",
                 "sources with the getbuffer extension are used only as the code itself defines the extension (a window "
                 "the source fills); MemorySanitizer is not used"])

SAN_NOTE = ("Trusted: gcc 12 ASan/UBSan runtime (clang 14 MSan and libFuzzer where used), the harness' reference model, the fork-per-unit runner. "
            "Assumes little-endian x86-64; decides only the executions listed in the evidence file.")

MANIFEST_TEXT = {
    "C09": dict(
        technique="runtime monitoring + fault enumeration: boundary-length frames, boundary-size reads in every header form, allocation failure at every index, channel error at every octet, random/mutated streams, multi-octet-chunk sources, and a coverage-guided libFuzzer stage; ledger allocator on exact-size poisoned blocks (freed blocks re-poisoned), backend room monitor, reference decoder on the replies; ASan/UBSan",
        text="The frame block is an exact-size poisoned-arena object, so any access beyond it - by the receiver, by "
             "the checksum code or by the backend through a too-generous limit - is an ASan report or a room-monitor "
             "failure; every block must be released exactly once at each quiescent point, also when the receiver "
             "returns a channel error. The prescribed answers (receive overflow, transmit overflow with the buffer "
             "size, busy, bad header encoding for short and empty frames) are checked at every boundary length.",
        note=SAN_NOTE),
    "C07": dict(
        technique="runtime monitoring + fault enumeration: exhaustive bit-level mutation of reference-encoded frames fed through the real receiver; backend call log and reply stream observed; receiver verdict compared with an independent decoder written from the protocol document; ASan/UBSan",
        text="Every listed corruption of every corpus frame is actually received and processed by the real code; the "
             "backend log must stay empty and no acknowledgement may appear - observed, not derived from CRC theory. "
             "The receiver's error classification must equal the reference decoder's (header encoding, header "
             "checksum, payload size, payload checksum, in that precedence) and the reply must be the prescribed meta "
             "message or error response. Option-bit combinations and arbitrary octet strings extend this to both "
             "transports, including frames that declare a payload checksum without a header checksum. Damage behind "
             "the SLIP encoder (delimiters and escapes created or destroyed, so that regp_recv itself fails, splits or "
             "merges frames) is judged per session: every backend access and every acknowledgement must belong to a "
             "request that an independent segmentation of the damaged octets still finds intact.",
        note=SAN_NOTE),
    "C08": dict(
        technique="runtime monitoring: every emit entry point compared octet for octet with an independent reference encoder (big-endian header, bitwise CRC-16/ARC, SLIP / varint framing) and round-tripped through the library's own receiver; ASan/UBSan",
        text="The wire image of every emission must equal what the protocol document prescribes as rendered by the "
             "reference encoder - option bits and checksums per transport, SLIP escaping of control octets in header "
             "and payload, varint prefixes across the 127/128 and 16383/16384 boundaries - and the peer's regp_recv "
             "must accept it and return identical type, options, code, sequence, address, block size and payload. "
             "Request sequence numbers are followed across the 16-bit wrap.",
        note=SAN_NOTE),
    "C06": dict(
        technique="runtime monitoring: event-log pairing (request <-> backend call <-> response) over generated sessions; frames from an independent reference encoder, replies through an independent reference decoder; allocator ledger; ASan/UBSan",
        text="Every request of every session must show up as exactly one backend call with the same address, size and "
             "payload octets and exactly one response that the reference decoder accepts and that echoes sequence "
             "number and address with the code prescribed for the backend's verdict (payload per section 3.1 of the "
             "protocol document, octet semantics); wrong word size, responses and meta frames must leave the backend "
             "untouched. The frame block ledger must balance after every step. Frames of up to 140000 payload octets "
             "through a large-block allocator are paired the same way with the payload compared in full.",
        note=SAN_NOTE),
    "C05": dict(
        technique="runtime monitoring: random operation histories with a reference model carried along and compared after every step (image, values, touched marks) plus an explicit invariant assertion by the model's own decoder/evaluator; out-of-band corruption + sanitise rounds; the same histories with their choices drawn from a libFuzzer input (coverage-guided); ASan/UBSan",
        text="The invariant is asserted by an independent evaluator after every one of several hundred thousand steps, "
             "not just at the end, so a constraint bypass shows one step after it happened with the full history as "
             "witness. Refused steps must leave every word unchanged, bit operations must change exactly the requested "
             "bits, and after arbitrary corruption sanitise must reset exactly the undecodable or violating registers "
             "and clear all touched marks.",
        note=SAN_NOTE),
    "C04": dict(
        technique="runtime monitoring: generated and mutated table descriptions judged by an independent rule checker; post-conditions observed through the public API, storage images and the area/entry links; exact-size poisoned area[]/entry[]/storage under ASan/UBSan",
        text="Hundreds of thousands of descriptions around the well-formedness boundary are initialised by the real "
             "code; an independent rule checker decides acceptance, the violated rule and the offending index. After "
             "a refusal every typed, block, iteration and sanitise entry point must report 'uninitialised'; after "
             "success defaults must read back, all other words of memory-backed areas must be zero, and each area "
             "must record exactly its contiguous run of registers. area[] and entry[] end exactly at their sentinel "
             "with poison behind it.",
        note=SAN_NOTE),
    "C03": dict(
        technique="runtime monitoring: window enumeration over generated tables against a flat address-space model; scripted iteration callbacks recording the handle sequence; exact-size poisoned read buffers under ASan/UBSan",
        text="Every window position including starts in holes, in gaps between registers, in the middle of multi-word "
             "registers and at area edges is read and iterated; the model predicts success/first unmapped address, "
             "the words returned (zero for non-readable areas) and the exact ascending sequence of registers handed "
             "to the callback, truncated at the first non-zero result. The read buffer has exactly n words with "
             "poison on both sides.",
        note=SAN_NOTE),
    "C02": dict(
        technique="runtime monitoring: window x pattern enumeration over generated tables against a flat address-space model (applicable-failure set + exact post-image), touched-mark and whole-image comparison after every call, poisoned exact-size buffers under ASan/UBSan",
        text="For every generated table every (address, length) window is written with patterns aimed at each "
             "overlapped register's constraint boundary through exactly the words the block supplies. The model "
             "overlays the words on its own image, decodes and evaluates every overlapped register and derives the "
             "set of applicable (class, first address) failures; success is required iff the set is empty, and the "
             "complete storage of all areas and all touched marks are compared after every call. Where several "
             "classes apply any of them is accepted (the statement does not rank them). Requests far longer than the "
             "table, up to lengths for which address + length passes 2^32, must be refused without effect and without "
             "reading beyond the words the caller can supply.",
        note=SAN_NOTE),
    "C01": dict(
        technique="runtime monitoring: value enumeration per type/byte order/backing/constraint against an independent codec and constraint evaluator, whole-image comparison after every call, ASan/UBSan",
        text="Each register type is exercised in every configuration with exhaustive (16-bit) or boundary+random "
             "(wider, all float classes) values through the checked and unchecked set and get; acceptance, the "
             "octets in table byte order, bit-identical read-back and 'storage unchanged on refusal' are decided by a "
             "model that shares no code with ufw. Every handle value class including one-past-the-end is probed on "
             "both set variants.",
        note=SAN_NOTE),
    "C11": dict(
        technique="runtime monitoring + fault enumeration: recorded medium write logs replayed offline into every crash prefix/tear, and single read/write failures or short transfers injected at every access position; independent checksum oracle; ASan/UBSan",
        text="Every crash point of every explored store/reset (write-call prefixes and octet-granular tearing) is "
             "materialised as a medium image and validated by the real code on a fresh instance: validation may "
             "succeed only if an independent checksum of the data on the medium equals the stored one, and at "
             "whole-write granularity a valid image must be exactly the previous or the new one. Every single "
             "failing or short medium access in each of the six operations must surface as an I/O error.",
        note=SAN_NOTE),
    "C10": dict(
        technique="runtime monitoring: configuration grid executed against a model image and independent checksum implementations; medium = exact-size poisoned block with access log; ASan/UBSan",
        text="Every configuration of the grid is run through reset, full and partial stores, fetches and alterations; "
             "after every step validate must agree with an independent checksum of the medium, fetch with the model "
             "image, and every logged medium access must lie inside the instance's region (the medium block is only "
             "that region, everything around it is poisoned). Out-of-range and size_t-wrapping part accesses must be "
             "refused with an empty access log; a bound on medium accesses per operation decides termination. Set-up "
             "histories (re-placing and re-selecting algorithms on one instance in any order) must end in the same "
             "layout as a fresh configuration.",
        note=SAN_NOTE),
    "C20": dict(
        technique="runtime monitoring: generated trees and exhaustive short strings against a reference reader, special long/deep/extreme inputs, allocation-ledger leak oracle, exact-size poisoned inputs under ASan/UBSan; coverage-guided libFuzzer stage with a printer-inverse oracle",
        text="Printer-inverse: generated trees are rendered with varied whitespace and hex case and the parse result "
             "is compared structurally, including the reported position. Failure behaviour: all short strings over "
             "a punctuation-heavy alphabet are judged by an independent recursive-descent reader; on error no tree "
             "may be returned and the allocator ledger must balance. Length-delimited inputs end exactly at a "
             "poisoned boundary, so any over-read is an ASan report; a reader that loops hits the unit watchdog "
             "twice and is reported as a hang.",
        note=SAN_NOTE),
    "C13": dict(
        technique="runtime monitoring: generated encoder/decoder cases against a reference prefix codec, fragmenting sources, partial sinks, exact-size poisoned buffers under ASan/UBSan",
        text="Every encoder entry point is run for every kind and length up to the bound and at each kind's maximum "
             "+-1 with buffers whose consumed, unread and free regions hold distinct content, and its output is "
             "compared octet for octet with a reference prefix encoder followed by exactly the designated octets; "
             "decoders are run with destinations of capacity len-1/len/len+1 in a poisoned arena and with every "
             "fragmentation of short streams.",
        note=SAN_NOTE),
    "C17": dict(
        technique="runtime monitoring: exhaustive fault-script enumeration with scripted, logging source/sink drivers; outcome oracle + in-driver pointer/count assertions + call-count progress bound; ASan/UBSan",
        text="Every short behaviour script of partial transfers, zero-length returns, EINTR/EAGAIN and hard errors is "
             "played by octet- and chunk-style drivers on both sides; the oracle checks that exactly the next N "
             "stream octets arrive in order, that the driver is always handed base+moved and never asked beyond the "
             "remaining count, that hard errors come back unchanged without a retry, and that no entry point spins "
             "(bound on driver calls). Plumbing functions are checked for exact counts, prefix property and "
             "untouched auxiliary-buffer surroundings.",
        note=SAN_NOTE),
    "C12": dict(
        technique="runtime monitoring: exhaustive small-alphabet execution with fault-injecting source/sink drivers, reference SLIP encoder/decoder and frame-level resynchronisation checker, ASan/UBSan",
        text="All control-character strings up to the bound are executed as payload, as raw decoder input and as "
             "garbage prefix in both modes and with both driver styles; encoder output is compared octet for octet "
             "with a reference, every decoder call with a reference decoder, resynchronisation at frame level, and "
             "source/sink errors are injected at every position and must come back unchanged. Termination is decided "
             "by a bound on source calls, not by time.",
        note=SAN_NOTE),
    "C14": dict(
        technique="runtime monitoring: exhaustive/boundary execution under ASan/UBSan against a reference LEB128 codec; exact-size poisoned decoder inputs; coverage-guided libFuzzer stage with the same oracle",
        text="Every 32-bit value (thorough) and boundary/random 64-bit values go through encode, length query, sink "
             "encoder and both decoders and are compared with a reference codec; every short octet string over a "
             "continuation-heavy alphabet is decoded by buffer and source decoders from an exact-size poisoned block, "
             "so a read past the buffer end is an ASan report and disagreement in verdict/value/consumed count is an "
             "oracle failure.",
        note=SAN_NOTE),
    "C18": dict(
        technique="runtime monitoring: state-space closure by executing the implementation + random histories, list-model oracle, ASan/UBSan with exact-size poisoned operands",
        text="Every reachable (offset, used, content) state of buffers of size 1..5 is produced by executing the real "
             "operations with every operand length 0..size+1 and compared with a list model after each step (marks, "
             "invariant, filled region, memory image where the statement fixes it, return value, no change on "
             "refusal); long random histories extend this to sizes up to 300. Buffer memory and operands are "
             "exact-size objects in a poisoned arena, so any access outside them is reported by ASan.",
        note=SAN_NOTE),
    "C19": dict(
        technique="runtime monitoring: state-space closure by executing the implementation from every reached state + random histories, queue-model oracle, ASan/UBSan",
        text="All reachable (implementation state, queue) pairs for capacities 1..4 are produced by running the real "
             "put/get/clear/override code from every reached state and checked against a queue model including both "
             "iterators; longer random histories with unique ids cover capacities up to 64 and three element types. "
             "This is exploration by execution, not a model checker run on an abstraction.",
        note=SAN_NOTE),
    "C15": dict(
        technique="runtime monitoring: exhaustive/structured execution under ASan/UBSan against a shift/mask reference, both swap implementations",
        text="Every one of the 111 functions is executed on complete value sets for widths up to 24 (32 in thorough) bits and on "
             "lane/bit/boundary/random sets for wider ones, at every alignment in a canary buffer and on exact-size "
             "poisoned objects; stores are compared octet for octet with an independent shift/mask serialiser, loads "
             "with the value (sign extension, NaN payloads bit-identical). Built twice: with and without "
             "UFW_USE_BUILTIN_SWAP.",
        note=SAN_NOTE),
    "C16": dict(
        technique="runtime monitoring: exhaustive execution under ASan/UBSan against a bitwise CRC-16/ARC reference",
        text="The update step is executed on all 2^24 (state, octet) pairs and compared with the bitwise definition; "
             "since every buffer checksum is a fold of that step this decides the function for all inputs up to the "
             "fold itself, which is exercised on 2^32 two-octet cases (thorough), random buffers with every split "
             "point and word buffers of every length 0..64, all on exact-size poisoned-arena buffers.",
        note=SAN_NOTE),
}
