"""Registry of checks: one entry per property."""

ASSUME_COMMON = [
    "coverage is what was executed: little-endian x86-64 host, gcc 12 code generation, the bounded scopes in 'rule'",
    "reference models in /verif/harness are trusted; they share no code with ufw",
    "ASan red zones + poisoned arena: accesses inside ufw-owned structs (intra-object) are visible only through oracle comparisons",
]

CHECKS = {}


def reg(id, sources, rule, level="exploration", quick=("dbg-asan",), thorough=("dbg-asan", "rel-asan"),
        assumptions=(), exhaustive=None, **kw):
    d = dict(id=id, sources=list(sources), rule=rule, level=level,
             configs={"quick": list(quick), "thorough": list(thorough)},
             assumptions=ASSUME_COMMON + list(assumptions), exhaustive=exhaustive or {})
    d.update(kw)
    CHECKS[id] = d


reg("C16", ["c16_crc.c"],
    rule="units: 'step' = all 2^24 (state, octet) pairs vs the bitwise CRC-16/ARC definition; 'two' = all 65536 "
         "two-octet buffers from a state (all 65536 states in thorough, 64 seeded states in quick); 'buf' = seeded "
         "random buffers <= 4 KiB compared whole and split at every position, plus 16-bit-word buffers at every "
         "length 0..64. A signature is (generator, state) or (generator, length, init, fill mode); every signature "
         "is non-trivial (each compares ufw output with the reference).",
    exhaustive={"quick": "all 2^24 (state, octet) update steps",
                "thorough": "all 2^24 update steps and all 2^32 (state, two-octet buffer) pairs"})

reg("C15", ["c15_endian.c"],
    quick=("dbg-asan", "noswap"), thorough=("dbg-asan", "noswap", "rel-asan"),
    rule="for each of the 48 store/load codec pairs (u/s x 16..64 bit x n/b/l, f32/f64 x n/b/l): all values for 16 "
         "and 24 bit (16 bit at every alignment 0..7), 32 bit strided by 211 (quick) or all 2^32 (thorough), wider: "
         "every octet lane x every octet value x 3 fills x 8 alignments, all one- and two-bit patterns and their "
         "complements, boundaries, float classes incl. NaN payloads, seeded random; plus exact-size poisoned-arena "
         "objects. Swaps: all 16/24-bit values, strided/all 32-bit, lanes+bits+random for wider. Range predicates: "
         "2^i +- 3, extremes, random magnitudes. A signature is (codec or helper, chunk); evaluations counts single "
         "store+load (or swap, predicate) comparisons.",
    exhaustive={"quick": "all 16- and 24-bit values of every codec and swap",
                "thorough": "all 16-, 24- and 32-bit values of every codec and swap"})

SAN_NOTE = ("Trusted: gcc 12 ASan/UBSan runtime, the harness' reference model, the fork-per-unit runner. "
            "Assumes little-endian x86-64; decides only the executions listed in the evidence file.")

MANIFEST_TEXT = {
    "C15": dict(
        technique="runtime monitoring: exhaustive/structured execution under ASan/UBSan against a shift/mask reference, both swap implementations",
        text="Every one of the 111 functions is executed on complete value sets for widths up to 24 (32 in thorough) bits and on "
             "lane/bit/boundary/random sets for wider ones, at every alignment in a canary buffer and on exact-size "
             "poisoned objects; stores are compared octet for octet with an independent shift/mask serialiser, loads "
             "with the value (sign extension, NaN payloads bit-identical). Built twice: with and without "
             "UFW_USE_BUILTIN_SWAP.",
        note=SAN_NOTE),
    "C16": dict(
        technique="runtime monitoring: exhaustive execution under ASan/UBSan against a bitwise CRC-16/ARC reference",
        text="The update step is executed on all 2^24 (state, octet) pairs and compared with the bitwise definition; "
             "since every buffer checksum is a fold of that step this decides the function for all inputs up to the "
             "fold itself, which is exercised on 2^32 two-octet cases (thorough), random buffers with every split "
             "point and word buffers of every length 0..64, all on exact-size poisoned-arena buffers.",
        note=SAN_NOTE),
}
