#!/bin/bash
# lib/seed_rerun.sh [name-glob]  -- re-run every kept seeded change against the current checks (quick tier).
# For each /verif/seeded/<name>: copy of /repo's working tree under /tmp, apply patch.diff, run the owning check.
# Prints one line per change; exit 1 if any change is no longer detected.
set -u
pat=${1:-*}
fail=0
for d in /verif/seeded/$pat/; do
  name=$(basename $d)
  prop=$(python3 -c "import json;print(json.load(open('$d/meta.json'))['property'])")
  excl=$(python3 -c "import json;print(json.load(open('$d/meta.json')).get('excluded',''))")
  if [ -n "$excl" ]; then echo "$name: excluded ($excl)"; continue; fi
  M=/tmp/ufw-seed.$$
  rm -rf $M; mkdir -p $M
  (cd /repo && tar cf - --exclude=_build --exclude=.git .) | tar xf - -C $M
  if ! (cd $M && patch -p1 -s --no-backup-if-mismatch < $d/patch.diff >/dev/null 2>&1); then
    echo "$name: patch no longer applies to the current tree"; rm -rf $M; continue
  fi
  out=$(VERIF_REPO=$M VERIF_WORK=-seed$$ VERIF_NO_GCOV=1 /verif/check $prop --tier quick 2>&1); rc=$?
  n=$(echo "$out" | grep -c '^VIOLATION')
  if [ $rc = 1 ]; then echo "$name: detected by $prop ($n violation keys)"; else echo "$name: NOT DETECTED by $prop (rc=$rc)"; fail=1; fi
  rm -rf $M /verif/build/*-seed$$
done
exit $fail
