#!/usr/bin/env python3
"""Regenerate the table of seeded changes in DESIGN.md section 13.4 from seeded/*/meta.json.

For new entries lacking `first_evaluation` it derives the label from `history`."""
import json, os, re, sys
root = os.path.dirname(os.path.dirname(os.path.abspath(__file__)))
rows = []
counts = {}
for n in sorted(os.listdir(os.path.join(root, "seeded"))):
    p = os.path.join(root, "seeded", n, "meta.json")
    m = json.load(open(p))
    if "first_evaluation" not in m:
        h = m.get("history", "")
        if not h:
            lab = "detected at first run"
        elif h.startswith("Evaluated after"):
            lab = "evaluated after pre-emptive strengthening"
        elif h.startswith("At first evaluation"):
            lab = "missed by the owning check at first (a neighbour caught it), check strengthened"
        else:
            lab = "missed at first, check strengthened"
        m["first_evaluation"] = lab
        json.dump(m, open(p, "w"), indent=1)
    own = m["property"]
    det = sorted((c for c, v in m["checks"].items() if v == "detected"), key=lambda c: (c != own, c))
    rows.append(f"| {n} | {own} | {', '.join(det)} | {m['first_evaluation']} |")
    counts[m["first_evaluation"]] = counts.get(m["first_evaluation"], 0) + 1
path = os.path.join(root, "DESIGN.md")
s = open(path).read()
mt = re.search(r"(\| change \| property \|[^\n]*\n\|---[^\n]*\n)((?:\|[^\n]*\n)+)", s)
s = s[: mt.start(2)] + "\n".join(rows) + "\n" + s[mt.end(2):]
nex = sum(1 for n in os.listdir(os.path.join(root, "seeded")) if json.load(open(os.path.join(root, "seeded", n, "meta.json"))).get("excluded"))
s = re.sub(r"\(all \d+ [^)]*as of this writing[^)]*\)", f"(all {len(rows) - nex} that a well-behaved caller within the property's quantifier can trigger are detected by the quick tier as of this writing; {nex} kept for the record but excluded, see their meta.json)", s)
open(path, "w").write(s)
print(len(rows), "rows;", counts)
